"""C15 -- settings round-trip through files and are independent of one another.

Correspondence of hvsrpy.settings / hvsrpy.object_io (settings reader, writer) with the aliasing model
Model/Settings.lean (driver `drv_c15`, command `settings.hist`): random histories of
construct / in-place write / assignment / save / load / read_settings_object_from_file over the eight real
classes; after EVERY operation every live object (attr_dict and the typed instance attributes), the default
objects of the eight signatures and the caller's variables are compared with the model.
Direct oracles on the implementation: other objects unchanged, fresh objects pristine, round trip for every
registered method_to_combine_horizontals alias, processing with reloaded settings bit-identical, attr_dict
hands out copies, explicit mutable arguments are not shared.
"""
import inspect
import json
import os
import copy

import numpy as np

from common import *

PROP_MODULES = ["HvsrVerif.Props.C15"]
BRIDGE_MODULES = ["HvsrVerif.Bridge.C15"]
EXE = "drv_c15"
ERRS = (IndexError, TypeError, KeyError, ValueError, AttributeError, NotImplementedError)

CLASSES = ["HvsrPreProcessingSettings", "PsdPreProcessingSettings", "PsdProcessingSettings",
           "HvsrTraditionalProcessingSettings", "HvsrTraditionalSingleAzimuthProcessingSettings",
           "HvsrTraditionalRotDppProcessingSettings", "HvsrAzimuthalProcessingSettings",
           "HvsrDiffuseFieldProcessingSettings"]
# parameters stored by alias that accept a mutable argument (findings C15-c / C15-d)
ALIAS_MUTABLE = ("fft_settings", "instrument_transfer_function")
STR_POOL = ["tukey", "hann", "linear", "constant", "none", "konno_and_ohmachi", "parzen", "x", "a.b-c_d", "psd", "hvsr"]
KEY_POOL = ["n", "operator", "bandwidth", "center_frequencies_in_hz", "extra", "k1"]
HANDLE = ["frequency_domain_resampling", "keeping_smallest_time_step", "keeping_majority_time_step"]


def S():
    import hvsrpy.settings as s
    return s


# ----------------------------------------------------------------------------
# value specs (json-able, replayable): scalars as they are (floats as {"f": hex}), {"L": [..]}, {"U": [..]},
# {"A": [..]}, {"D": [[key, spec], ..]}
def fl(x):
    return {"f": hexf(x)}


def build(spec):
    """a NEW python object for the spec"""
    if isinstance(spec, dict):
        if "f" in spec:
            return unhex(spec["f"])
        if "L" in spec:
            return [build(x) for x in spec["L"]]
        if "U" in spec:
            return tuple(build(x) for x in spec["U"])
        if "A" in spec:
            xs = [build(x) for x in spec["A"]]
            if all(isinstance(x, int) for x in xs) and xs:
                return np.array(xs, dtype=np.int64)
            return np.array(xs, dtype=np.float64)
        if "D" in spec:
            return {k: build(v) for k, v in spec["D"]}
        raise ValueError(spec)
    return spec


def enc(spec):
    """driver tokens of a spec"""
    if spec is None:
        return "N"
    if spec is True:
        return "T"
    if spec is False:
        return "F"
    if isinstance(spec, int):
        return f"i {spec}"
    if isinstance(spec, str):
        assert spec and all(c.isalnum() or c in "_.-" for c in spec), spec
        return f"s {spec}"
    if "f" in spec:
        return f"f {spec['f']}"
    for tag in "LUA":
        if tag in spec:
            return " ".join([tag, str(len(spec[tag]))] + [enc(x) for x in spec[tag]])
    if "D" in spec:
        return " ".join(["D", str(len(spec["D"]))] + [f"{k} {enc(v)}" for k, v in spec["D"]])
    raise ValueError(spec)


def spec_of(v):
    """spec describing an existing python value (used for the default objects)"""
    if v is None or isinstance(v, (bool, str)):
        return v
    if isinstance(v, (int, np.integer)):
        return int(v)
    if isinstance(v, (float, np.floating)):
        return fl(float(v))
    if isinstance(v, list):
        return {"L": [spec_of(x) for x in v]}
    if isinstance(v, tuple):
        return {"U": [spec_of(x) for x in v]}
    if isinstance(v, np.ndarray):
        assert v.ndim == 1
        return {"A": [spec_of(x) for x in v.tolist()]}
    if isinstance(v, dict):
        return {"D": [[k, spec_of(x)] for k, x in v.items()]}
    raise TypeError(type(v))


# ----------------------------------------------------------------------------
# renderings (must equal rVal / rJson of Drv/C15.lean character by character)
def _hexarr(a):
    h = np.asarray(a, dtype=">f8").tobytes().hex()
    return ["f" + h[i:i + 16] for i in range(0, len(h), 16)]


def rend(v, canon):
    if v is None:
        return "N"
    if isinstance(v, (bool, np.bool_)):
        return "T" if v else "F"
    if isinstance(v, (int, np.integer)):
        return "i%d" % int(v)
    if isinstance(v, (float, np.floating)):
        return "f" + hexf(v)
    if isinstance(v, str):
        return "'" + v + "'"
    if isinstance(v, np.ndarray):
        if v.ndim != 1:
            raise TypeError("ndarray ndim")
        if v.dtype == np.float64:
            items = _hexarr(v)
        else:
            items = [rend(x, canon) for x in v.tolist()]
        o, c = ("[", "]") if canon else ("<", ">")
        return o + ",".join(items) + c
    if isinstance(v, list):
        return "[" + ",".join(rend(x, canon) for x in v) + "]"
    if isinstance(v, tuple):
        o, c = ("[", "]") if canon else ("(", ")")
        return o + ",".join(rend(x, canon) for x in v) + c
    if isinstance(v, dict):
        for k in v:
            if not isinstance(k, str):
                raise TypeError("dict key")
        return "{" + ",".join("'" + k + "':" + rend(x, canon) for k, x in v.items()) + "}"
    raise TypeError(type(v))


def rfields(kvs):
    return ";".join(k + "=" + v for k, v in kvs) if kvs else "."


def canon_dict(d):
    """attr_dict -> canonical string (tuples / arrays read as lists)"""
    return rfields([(k, rend(v, True)) for k, v in d.items()])


def render_obj(o):
    attrs = list(o.attrs)
    ad = canon_dict(o.attr_dict)
    typed = rfields([(k, rend(getattr(o, k), False)) for k in attrs])
    extra = rfields([(k, rend(v, False)) for k, v in vars(o).items() if k != "attrs" and k not in attrs])
    return (ad, type(o).__name__ + "|" + typed + "|" + extra)


# ----------------------------------------------------------------------------
# default objects of the eight signatures (the REAL objects, created when settings.py was imported)
_DEFAULTS = None


def default_objects():
    """[(key, object)] in class / self.attrs order, plus a pristine deep copy taken at first use"""
    global _DEFAULTS
    if _DEFAULTS is None:
        s = S()
        objs = []
        for cn in CLASSES:
            cls = getattr(s, cn)
            sig = inspect.signature(cls.__init__).parameters
            for p in cls().attrs:
                objs.append((cn + "." + p, sig[p].default))
        _DEFAULTS = (objs, [(k, copy.deepcopy(v)) for k, v in objs],
                     {cn: canon_dict(getattr(s, cn)().attr_dict) for cn in CLASSES})
    return _DEFAULTS


def restore_defaults():
    """write the pristine content back into the real default objects (isolates the histories from one another)"""
    objs, pristine, _ = default_objects()

    def put(dst, src):
        if isinstance(dst, list):
            dst[:] = copy.deepcopy(src)
        elif isinstance(dst, np.ndarray):
            dst[...] = src
        elif isinstance(dst, dict):
            for k in list(dst):
                if k not in src:
                    del dst[k]
            for k, v in src.items():
                if k in dst and isinstance(dst[k], (list, np.ndarray, dict)) and type(dst[k]) is type(v) and \
                        (not isinstance(v, np.ndarray) or dst[k].shape == v.shape):
                    put(dst[k], v)
                else:
                    dst[k] = copy.deepcopy(v)
    for (k, o), (_, p) in zip(objs, pristine):
        if isinstance(o, (list, np.ndarray, dict)) and rend(o, False) != rend(p, False):
            put(o, p)


def render_defaults():
    objs, _, _ = default_objects()
    return ("-", "-|" + rfields([(k, rend(v, False)) for k, v in objs]))


# ----------------------------------------------------------------------------
# implementation side of a history
class Impl:
    def __init__(self, tag):
        self.vars = {}
        self.objs = []
        self.files = []
        self.tag = tag
        self.made = []

    def group(self, g):
        return self.objs[g - 2]

    def root(self, g, attr):
        if g == 1:
            return self.vars[attr]
        if g < 2:
            raise KeyError(g)
        return getattr(self.group(g), attr)

    def apply(self, op):
        """execute one op on the real classes; 'ok' or 'err' (Python raised)"""
        s = S()
        try:
            k = op[0]
            if k == "C":
                kwargs = {}
                for p, src in op[2]:
                    if src[0] == "l":
                        kwargs[p] = build(src[1])
                    elif src[0] == "v":
                        kwargs[p] = self.vars[src[1]]
                self.objs.append(getattr(s, op[1])(**kwargs))
            elif k == "M":
                _, g, attr, path, last, val = op
                cur = self.root(g, attr)
                for st in path:
                    cur = cur[st[1]]
                if isinstance(cur, (str, bytes)) or not isinstance(cur, (list, tuple, dict, np.ndarray)):
                    raise TypeError("not a container")
                cur[last[1]] = build(val)
            elif k == "A":
                _, g, attr, val = op
                if g == 1:
                    self.vars[attr] = build(val)
                else:
                    setattr(self.group(g), attr, build(val))
            elif k == "V":
                _, g, attr, x = op
                if g == 1:
                    self.vars[attr] = self.vars[x]
                else:
                    setattr(self.group(g), attr, self.vars[x])
            elif k == "S":
                os.makedirs(WORK, exist_ok=True)
                fn = os.path.join(WORK, f"c15_{self.tag}_{len(self.made)}.json")
                self.made.append(fn)
                if op[2] == "method":
                    self.group(op[1]).save(fn)
                else:
                    import hvsrpy.object_io as oio
                    oio.write_settings_object_to_file(self.group(op[1]), fn)
                self.files.append(fn)
            elif k == "L":
                self.group(op[1]).load(self.files[op[2]])
            elif k == "R":
                import hvsrpy.object_io as oio
                self.objs.append(oio.read_settings_object_from_file(self.files[op[1]]))
            else:
                raise RuntimeError(op)
        except ERRS:
            return "err"
        return "ok"

    def snapshot(self):
        out = [render_defaults(), ("-", "-|" + rfields([(k, rend(v, False)) for k, v in self.vars.items()]))]
        out += [render_obj(o) for o in self.objs]
        prev = getattr(self, "_prev", [])
        out = [prev[i] if i < len(prev) and prev[i] == x else x for i, x in enumerate(out)]   # share unchanged strings
        self._prev = out
        return out

    def cleanup(self):
        for fn in self.made:
            try:
                os.remove(fn)
            except OSError:
                pass


def enc_step(st):
    return f"{st[0]} {st[1]}"


def enc_op(op):
    k = op[0]
    if k == "C":
        parts = ["C", op[1], str(len(op[2]))]
        for p, src in op[2]:
            parts.append(p)
            parts.append("d" if src[0] == "d" else ("l " + enc(src[1]) if src[0] == "l" else "v " + src[1]))
        return " ".join(parts)
    if k == "M":
        _, g, attr, path, last, val = op
        return " ".join(["M", str(g), attr, str(len(path))] + [enc_step(s) for s in path] + [enc_step(last), enc(val)])
    if k == "A":
        return f"A {op[1]} {op[2]} {enc(op[3])}"
    if k == "V":
        return f"V {op[1]} {op[2]} {op[3]}"
    if k == "S":
        return f"S {op[1]}"
    if k == "L":
        return f"L {op[1]} {op[2]}"
    if k == "R":
        return f"R {op[1]}"
    raise ValueError(op)


def hist_line(ops):
    objs, pristine, _ = default_objects()
    # the model starts from the PRISTINE defaults: a leaked mutation of a default object is a disagreement
    head = [str(len(pristine))] + [f"{k} {enc(spec_of(v))}" for k, v in pristine]
    return " ".join(["settings.hist"] + head + [str(len(ops))] + [enc_op(o) for o in ops])


def parse_answer(line, nops):
    """-> (conforms, tableOK, [(status, {g: (attrDict, typed)})] for the initial state and every op)"""
    t = line.split(" ")
    if t[0] != "ok":
        raise InfraError("driver: " + line[:300])
    i = 3
    out = []
    for _ in range(nops + 1):
        st = t[i]
        n = int(t[i + 1])
        i += 2
        d = {}
        for _ in range(n):
            d[int(t[i])] = (t[i + 1], t[i + 2])
            i += 3
        out.append((st, d))
    if i != len(t):
        raise InfraError("driver answer length")
    return t[1] == "1", t[2] == "1", out


# ----------------------------------------------------------------------------
# random values / histories
def rfloat(rng):
    r = rng.random()
    if r < 0.25:
        return float(rng.choice([0.0, 0.1, 0.5, 1.0, 9.0, 0.77, 60.0, 1e-300, -2.5, 1e22]))
    if r < 0.5:
        return float(rng.integers(-5, 200))
    return float(rng.uniform(0.01, 100))


def rscalar(rng):
    r = rng.random()
    if r < 0.15:
        return None
    if r < 0.25:
        return bool(rng.integers(0, 2))
    if r < 0.45:
        return int(rng.integers(-3, 5000))
    if r < 0.8:
        return fl(rfloat(rng))
    return str(rng.choice(STR_POOL))


def rarray(rng, kind=None, nmax=6):
    n = int(rng.integers(0 if rng.random() < 0.1 else 1, nmax + 1))
    kind = kind or ("int" if rng.random() < 0.4 else "float")
    if kind == "int":
        return [int(x) for x in rng.integers(0, 180, n)]
    return [fl(rfloat(rng)) for _ in range(n)]


def rseq(rng, kind=None):
    """flat numeric sequence as ndarray / list / tuple"""
    tag = "ALU"[int(rng.integers(0, 3))]
    return {tag: rarray(rng, kind)}


def rvalue(rng, depth=0, allow_arr=True):
    r = rng.random()
    if depth >= 2 or r < 0.35:
        return rscalar(rng)
    if r < 0.55:
        return {"L": [rvalue(rng, depth + 1, allow_arr and rng.random() < 0.03) for _ in range(int(rng.integers(0, 4)))]}
    if r < 0.7:
        return {"U": [rvalue(rng, depth + 1, allow_arr and rng.random() < 0.03) for _ in range(int(rng.integers(0, 4)))]}
    if r < 0.85 and allow_arr:
        return {"A": rarray(rng)}
    keys = list(rng.permutation(KEY_POOL)[:int(rng.integers(0, 4))])
    return {"D": [[str(k), rvalue(rng, depth + 1, depth == 0)] for k in keys]}


def rsmoothing(rng):
    d = [["operator", str(rng.choice(["konno_and_ohmachi", "parzen", "log_rectangular"]))],
         ["bandwidth", int(rng.integers(10, 80)) if rng.random() < 0.5 else fl(rfloat(rng))],
         ["center_frequencies_in_hz", rseq(rng, "float")]]
    if rng.random() < 0.2:
        d.append(["extra", rvalue(rng, 1, False)])
    if rng.random() < 0.15:
        d = d[:int(rng.integers(0, 3))]
    return {"D": d}


def rarg(rng, cn, p):
    """a literal suited to parameter p (loosely: the classes do not validate)"""
    if p == "window_type_and_width":
        return {("L" if rng.random() < 0.7 else "U"): [str(rng.choice(["tukey", "hann"])), rscalar(rng) if rng.random() < 0.3 else fl(rfloat(rng))]}
    if p == "filter_corner_frequencies_in_hz":
        return {("L" if rng.random() < 0.7 else "U"): [None if rng.random() < 0.4 else fl(rfloat(rng)) for _ in range(2)]}
    if p == "smoothing":
        return rsmoothing(rng)
    if p == "azimuths_in_degrees":
        if cn.endswith("RotDppProcessingSettings") or rng.random() < 0.7:
            return rseq(rng)
        return rvalue(rng, 0, True)
    if p == "fft_settings":
        return None if rng.random() < 0.3 else {"D": [["n", int(rng.choice([256, 1024, 4096]))]] + ([["norm", None]] if rng.random() < 0.3 else [])}
    if p == "instrument_transfer_function":
        return None if rng.random() < 0.5 else {"D": [["k1", {"L": rarray(rng, "float", 3)}]]}
    if p == "method_to_combine_horizontals":
        import hvsrpy.processing as pr
        return str(rng.choice(sorted(pr.TRADITIONAL_PROCESSING_REGISTER)))
    if p == "handle_dissimilar_time_steps_by":
        return str(rng.choice(HANDLE))
    if p in ("ignore_dissimilar_time_step_warning", "differentiate"):
        return bool(rng.integers(0, 2))
    if p == "detrend":
        return str(rng.choice(["linear", "constant", "none"]))
    if p in ("hvsrpy_version", "preprocessing_method", "processing_method"):
        return str(rng.choice(["psd", "hvsr", "traditional", "azimuthal", "diffuse_field", "2.0.0", "x"]))
    if p == "window_length_in_seconds":
        return None if rng.random() < 0.3 else fl(rfloat(rng))
    return fl(rfloat(rng))


def mutable_paths(v, path=()):
    """(path, container) for every container reachable from v"""
    if isinstance(v, (list, tuple)):
        yield path, v
        for i, c in enumerate(v):
            yield from mutable_paths(c, path + (("i", i),))
    elif isinstance(v, dict):
        yield path, v
        for k, c in v.items():
            yield from mutable_paths(c, path + (("k", k),))
    elif isinstance(v, np.ndarray):
        yield path, v


def gen_write(rng, cont):
    """(last step, value spec) for an in-place write into the container, inside the model's domain"""
    bad = rng.random() < 0.06
    if isinstance(cont, np.ndarray):
        n = len(cont)
        if n == 0 or bad:
            return ("i", n + int(rng.integers(0, 3))), (1 if cont.dtype.kind == "i" else fl(1.0))
        i = int(rng.integers(0, n))
        return ("i", i), (int(rng.integers(0, 400)) if cont.dtype.kind == "i" else fl(rfloat(rng)))
    if isinstance(cont, (list, tuple)):
        n = len(cont)
        i = n + int(rng.integers(0, 3)) if (n == 0 or bad) else int(rng.integers(0, n))
        if bad and rng.random() < 0.3:
            return ("k", "n"), 1
        return ("i", i), (rscalar(rng) if rng.random() < 0.85 else rvalue(rng, 1, False))
    keys = list(cont)
    if keys and rng.random() < 0.7:
        k = str(rng.choice(keys))
    else:
        k = str(rng.choice(KEY_POOL))
    if k == "center_frequencies_in_hz" and rng.random() < 0.7:
        return ("k", k), rseq(rng, "float")
    return ("k", k), (rscalar(rng) if rng.random() < 0.8 else rvalue(rng, 1, True))


def gen_history(rng, tag, nops):
    """generate online (each op is chosen looking at the implementation's current state) and execute on the real
    classes; returns (ops, statuses, snapshots, impl, info)"""
    s = S()
    im = Impl(tag)
    ops, stats, snaps = [], [], [im.snapshot()]
    info = dict(nontrivial=False, unsafe=False)
    nvar = 0

    def push(op):
        ops.append(op)
        stats.append(im.apply(op))
        snaps.append(im.snapshot())

    while len(ops) < nops:
        r = rng.random()
        nobj = len(im.objs)
        if nobj == 0 and r > 0.25:
            r = 0.3
        if r < 0.12:                               # the caller creates a mutable object
            nvar += 1
            v = [rsmoothing(rng), {"L": ["tukey", fl(rfloat(rng))]}, rseq(rng), {"D": [["n", 4096]]},
                 {"L": [None, fl(rfloat(rng))]}, rvalue(rng, 0, True)][int(rng.integers(0, 6))]
            if not isinstance(v, dict) or "f" in v:
                v = {"L": [v]}
            push(("A", 1, f"e{int(rng.integers(0, 4))}", v))
        elif r < 0.40:                             # construct
            cn = CLASSES[int(rng.integers(0, 8))]
            attrs = getattr(s, cn)().attrs
            args = []
            if rng.random() < 0.65:
                for p in attrs:
                    q = rng.random()
                    cur_vars = list(im.vars)
                    special = p in ("hvsrpy_version", "preprocessing_method", "processing_method")
                    if q < (0.03 if special else 0.3):
                        args.append((p, ("l", rarg(rng, cn, p))))
                    elif q < 0.42 and cur_vars and not special and p in (
                            "window_type_and_width", "filter_corner_frequencies_in_hz", "smoothing", "azimuths_in_degrees",
                            "fft_settings", "instrument_transfer_function"):
                        # a caller variable whose current value suits the parameter
                        x = str(rng.choice(cur_vars))
                        v = im.vars[x]
                        ok = True
                        if p == "smoothing":
                            ok = isinstance(v, dict) or (isinstance(v, list) and len(v) > 0 and not isinstance(v[0], (list, tuple, str, dict, np.ndarray)))
                        if p == "azimuths_in_degrees" and cn.endswith("RotDppProcessingSettings"):
                            ok = isinstance(v, (list, tuple, np.ndarray)) and (
                                all(type(e) is int for e in (v.tolist() if isinstance(v, np.ndarray) else v)) or
                                all(type(e) is float for e in (v.tolist() if isinstance(v, np.ndarray) else v)))
                        if ok:
                            args.append((p, ("v", x)))
                            if p in ALIAS_MUTABLE:
                                info["unsafe"] = True
                    elif q < 0.45:
                        args.append((p, ("d",)))
                if rng.random() < 0.02:
                    args.append(("no_such_parameter", ("l", 1)))
            push(("C", cn, args))
        elif r < 0.72:                             # in-place write through an object or through a caller variable
            g = 1 if (im.vars and rng.random() < 0.25) else (2 + int(rng.integers(0, nobj)) if nobj else 1)
            names = list(im.vars) if g == 1 else list(im.group(g).attrs)
            cands = []
            for a in names:
                try:
                    cands += [(a, p, c) for p, c in mutable_paths(im.root(g, a))]
                except ERRS:
                    pass
            if not cands:
                continue
            a, path, cont = cands[int(rng.integers(0, len(cands)))]
            last, val = gen_write(rng, cont)
            if g >= 2 and nobj >= 2 and not isinstance(cont, tuple):
                info["nontrivial"] = True
            push(("M", g, a, [list(x) for x in path], list(last), val))
        elif r < 0.80:                             # assignment of a new object
            g = 2 + int(rng.integers(0, nobj))
            o = im.group(g)
            a = str(rng.choice(o.attrs))
            push(("A", g, a, rarg(rng, type(o).__name__, a) if rng.random() < 0.7 else rvalue(rng, 0, True)))
        elif r < 0.83 and im.vars:                 # the caller installs one of its objects (plain aliasing)
            g = 2 + int(rng.integers(0, nobj))
            o = im.group(g)
            a = str(rng.choice([x for x in o.attrs if x not in ("hvsrpy_version", "preprocessing_method", "processing_method")]))
            info["unsafe"] = True
            push(("V", g, a, str(rng.choice(list(im.vars)))))
        elif r < 0.90:
            push(("S", 2 + int(rng.integers(0, nobj)), "method" if rng.random() < 0.5 else "object_io"))
        elif r < 0.95:
            if not im.files and rng.random() < 0.9:
                continue
            f = int(rng.integers(0, len(im.files) + (1 if rng.random() < 0.05 else 0))) if im.files else 0
            push(("L", 2 + int(rng.integers(0, nobj)), f))
        else:
            if not im.files and rng.random() < 0.9:
                continue
            f = int(rng.integers(0, len(im.files) + (1 if rng.random() < 0.05 else 0))) if im.files else 0
            push(("R", f))
    return ops, stats, snaps, im, info


def op_target(op, ngroups_before):
    if op[0] in ("C", "R"):
        return ngroups_before
    return op[1]


def direct_oracles(ctx, ops, stats, snaps, info, case):
    """the property's sentences evaluated on the implementation alone"""
    _, _, pristine_ad = default_objects()
    unsafe = False
    for i, op in enumerate(ops):
        if op[0] == "V" or (op[0] == "C" and any(src[0] == "v" and p in ALIAS_MUTABLE for p, src in op[2])):
            unsafe = True        # from here on objects may legitimately share a caller's object
        before, after = snaps[i], snaps[i + 1]
        tgt = op_target(op, len(before))
        ctx.supporting["direct:defaults_unchanged"] = ctx.supporting.get("direct:defaults_unchanged", 0) + 1
        if after[0] != snaps[0][0]:
            ctx.violation("defaults-of-later-objects-unchanged", dict(case=case, op_index=i, op=op, defaults_before=snaps[0][0][1][:2000],
                                                                      defaults_after=after[0][1][:2000]), seam="hvsrpy.settings default arguments")
            return
        if not unsafe:
            for g in range(2, len(before)):
                if g != tgt:
                    ctx.supporting["direct:other_object_unchanged"] = ctx.supporting.get("direct:other_object_unchanged", 0) + 1
                    if before[g] != after[g]:
                        ctx.violation("settings-do-not-share-state", dict(case=case, op_index=i, op=op, group=g, before=before[g], after=after[g]),
                                      seam="hvsrpy.settings constructors")
                        return
            if tgt != 1 and before[1] != after[1]:
                ctx.violation("settings-do-not-share-state", dict(case=case, op_index=i, op=op, group=1, before=before[1], after=after[1]),
                              seam="hvsrpy.settings constructors (caller's object changed)")
                return


def fresh_objects_pristine(ctx, case_hint):
    s = S()
    _, _, pristine_ad = default_objects()
    for cn in CLASSES:
        ctx.supporting["direct:fresh_object_pristine"] = ctx.supporting.get("direct:fresh_object_pristine", 0) + 1
        got = canon_dict(getattr(s, cn)().attr_dict)
        if got != pristine_ad[cn]:
            ctx.violation("defaults-of-later-objects-unchanged", dict(case=case_hint, cls=cn, fresh=got[:3000], pristine=pristine_ad[cn][:3000]),
                          seam="hvsrpy.settings default arguments")
            return False
    return True


def compare_history(ctx, ops, stats, snaps, answer, case):
    """implementation snapshots vs model deltas, after every op"""
    conf, tok, steps = answer
    if not conf:
        ctx.violation("default-kinds-of-the-class-table", dict(case=case, note="the default objects do not have the shapes of Model.settingsParams"),
                      seam="hvsrpy.settings signatures")
        return False
    view = {}
    for i, (st, d) in enumerate(steps):
        view.update(d)
        snap = snaps[i]
        if i > 0 and st != stats[i - 1]:
            ctx.violation("operation-raises", dict(case=case, op_index=i - 1, op=ops[i - 1], impl_status=stats[i - 1], model_status=st),
                          seam="hvsrpy.settings / model domain")
            return False
        mv = [view.get(g) for g in range(len(snap))]
        if len(view) != len(snap) or mv != snap:
            g = next((g for g in range(len(snap)) if view.get(g) != snap[g]), len(snap))
            op = ops[i - 1] if i > 0 else None
            tgt = op_target(op, len(snaps[i - 1])) if op else None
            if g == 0:
                clause = "defaults-of-later-objects-unchanged"
            elif op is not None and g != tgt:
                clause = "settings-do-not-share-state"
            elif op is not None and op[0] in ("L", "R", "S"):
                clause = "save-load-round-trip"
            elif op is not None and op[0] == "C":
                clause = "constructor-stores-arguments"
            else:
                clause = "attr-dict-equals-model"
            ctx.violation(clause, dict(case=case, op_index=i - 1, op=op, group=g,
                                       impl=[x[:1500] for x in (snap[g] if g < len(snap) else ("missing", ""))],
                                       model=[x[:1500] for x in (view.get(g) or ("missing", ""))]),
                          seam="hvsrpy.settings vs Model/Settings.lean")
            return False
    return True


# ----------------------------------------------------------------------------
# directed probes on the implementation
def witness_alias_args(ctx):
    """C15-c / C15-d: a caller-held dict passed as fft_settings / instrument_transfer_function is shared (known findings)"""
    s = S()
    for attr, cn in (("fft_settings", "PsdProcessingSettings"), ("instrument_transfer_function", "PsdPreProcessingSettings")):
        d = dict(n=4096)
        a = getattr(s, cn)(**{attr: d})
        b = getattr(s, cn)(**{attr: d})
        before = canon_dict(b.attr_dict)
        getattr(a, attr)["n"] = 5
        after = canon_dict(b.attr_dict)
        ctx.supporting["probe:explicit_argument"] = ctx.supporting.get("probe:explicit_argument", 0) + 1
        if before != after:
            ctx.violation("explicit-argument-not-shared",
                          dict(attr=attr, case=dict(cls=cn, program=f"d = dict(n=4096); a = {cn}({attr}=d); b = {cn}({attr}=d); a.{attr}['n'] = 5"),
                               b_before=before, b_after=after), seam="hvsrpy.settings constructors")


def probe_explicit_args(ctx, rng):
    """every class, every parameter taking a container: the same caller object given to two constructors, written through the first"""
    s = S()
    for cn in CLASSES:
        cls = getattr(s, cn)
        for p in cls().attrs:
            if p in ("hvsrpy_version", "preprocessing_method", "processing_method"):
                continue
            specs = []
            if p in ("window_type_and_width", "filter_corner_frequencies_in_hz", "azimuths_in_degrees"):
                specs = [{"L": [fl(1.0), fl(2.0)]}, {"A": [fl(1.0), fl(2.0)]}]
                if p == "window_type_and_width":
                    specs = [{"L": ["tukey", fl(0.2)]}]
            elif p == "smoothing":
                specs = [rsmoothing(rng), {"D": [["operator", "parzen"], ["bandwidth", 1], ["center_frequencies_in_hz", {"A": [fl(1.0), fl(2.0)]}]]}]
            elif p in ALIAS_MUTABLE:
                specs = [{"D": [["n", 4096]]}]
            for sp in specs:
                shared = build(sp)
                a = cls(**{p: shared})
                b = cls(**{p: shared})
                before_b, before_v = canon_dict(b.attr_dict), rend(shared, False)
                conts = list(mutable_paths(getattr(a, p)))
                path, cont = conts[-1]
                last, val = gen_write(np.random.default_rng(1), cont)
                try:
                    cont[last[1]] = build(val)
                except ERRS:
                    continue
                ctx.supporting["probe:explicit_argument"] = ctx.supporting.get("probe:explicit_argument", 0) + 1
                if canon_dict(b.attr_dict) != before_b or rend(shared, False) != before_v:
                    ctx.violation("explicit-argument-not-shared",
                                  dict(attr=p, case=dict(cls=cn, arg=sp, write=[list(map(list, path)), list(last), val]),
                                       b_before=before_b, b_after=canon_dict(b.attr_dict), caller_before=before_v, caller_after=rend(shared, False)),
                                  seam="hvsrpy.settings constructors")
                if not fresh_objects_pristine(ctx, dict(probe="explicit_args", cls=cn, param=p)):
                    return


def scramble(v, rng):
    """write into every container of an attr_dict result"""
    if isinstance(v, list):
        for x in v:
            scramble(x, rng)
        v.append("scrambled")
        if len(v) > 1:
            v[0] = "scrambled"
    elif isinstance(v, dict):
        for x in v.values():
            scramble(x, rng)
        v["scrambled"] = 1
    elif isinstance(v, np.ndarray) and v.size:
        v[...] = 0
    elif isinstance(v, tuple):
        for x in v:
            scramble(x, rng)


def probe_attr_dict_copies(ctx, rng, n):
    s = S()
    for i in range(n):
        cn = CLASSES[i % 8]
        cls = getattr(s, cn)
        kwargs = {}
        for p in cls().attrs:
            if rng.random() < 0.5 and p not in ("hvsrpy_version",):
                kwargs[p] = build(rarg(rng, cn, p))
        try:
            o = cls(**kwargs)
        except ERRS:
            continue
        before = render_obj(o)
        d = o.attr_dict
        scramble(d, rng)
        ctx.supporting["probe:attr_dict_is_a_copy"] = ctx.supporting.get("probe:attr_dict_is_a_copy", 0) + 1
        if render_obj(o) != before:
            ctx.violation("attr-dict-hands-out-copies", dict(case=dict(cls=cn, kwargs={k: spec_of(v) for k, v in kwargs.items()}), before=before, after=render_obj(o)),
                          seam="Settings.attr_dict")
            return
        a, b = cls(), cls()
        if a.attrs is b.attrs:
            ctx.violation("settings-do-not-share-state", dict(case=dict(cls=cn), note="attrs list shared between two objects"), seam="Settings.__init__")
            return


def owner_class(method):
    import hvsrpy.processing as pr
    fn = pr.TRADITIONAL_PROCESSING_REGISTER[method].__name__
    return {"traditional_single_azimuth_hvsr_processing": "HvsrTraditionalSingleAzimuthProcessingSettings",
            "traditional_rotdpp_hvsr_processing": "HvsrTraditionalRotDppProcessingSettings",
            "traditional_hvsr_processing": "HvsrTraditionalProcessingSettings"}[fn]


def roundtrip_cases(rng):
    """(class name, kwargs spec) covering every class and every registered method_to_combine_horizontals"""
    import hvsrpy.processing as pr
    s = S()
    out = []
    for cn in CLASSES:
        methods = [None]
        if "Traditional" in cn:
            methods = [m for m in sorted(pr.TRADITIONAL_PROCESSING_REGISTER) if owner_class(m) == cn]
        for m in methods:
            for rep in range(2):
                kw = {}
                for p in getattr(s, cn)().attrs:
                    if p in ("hvsrpy_version", "preprocessing_method", "processing_method", "method_to_combine_horizontals"):
                        continue
                    if rep == 1 and rng.random() < 0.6:
                        kw[p] = rarg(rng, cn, p)
                if m is not None:
                    kw["method_to_combine_horizontals"] = m
                out.append((cn, kw))
    return out


def probe_roundtrip(ctx, rng, lines_out):
    """save -> load / read_settings_object_from_file: same class, same content; also the model's dispatcher on the file content"""
    import hvsrpy.object_io as oio
    s = S()
    os.makedirs(WORK, exist_ok=True)
    pending = []
    for k, (cn, kw) in enumerate(roundtrip_cases(rng)):
        cls = getattr(s, cn)
        try:
            o = cls(**{p: build(v) for p, v in kw.items()})
        except ERRS:
            continue
        fn = os.path.join(WORK, f"c15_rt_{k}.json")
        try:
            want = canon_dict(o.attr_dict)
            try:
                (o.save if k % 2 else (lambda f: oio.write_settings_object_to_file(o, f)))(fn)
            except TypeError:
                continue
            ctx.supporting["probe:round_trip"] = ctx.supporting.get("probe:round_trip", 0) + 1
            ctx.count("roundtrip:" + cn + (":" + kw["method_to_combine_horizontals"] if "method_to_combine_horizontals" in kw else ""))
            o2 = cls()
            o2.load(fn)
            o3 = oio.read_settings_object_from_file(fn)
            rp = dict(case=dict(cls=cn, kwargs=kw), want=want[:3000])
            if canon_dict(o2.attr_dict) != want:
                ctx.violation("save-load-round-trip", dict(rp, via="load", got=canon_dict(o2.attr_dict)[:3000]), seam="Settings.save/load")
            if type(o3) is not cls:
                ctx.violation("reader-returns-same-class", dict(rp, via="read_settings_object_from_file", got_class=type(o3).__name__),
                              seam="object_io.read_settings_object_from_file")
            elif canon_dict(o3.attr_dict) != want:
                ctx.violation("save-load-round-trip", dict(rp, via="read_settings_object_from_file", got=canon_dict(o3.attr_dict)[:3000]),
                              seam="object_io.read_settings_object_from_file")
            if canon_dict(o.attr_dict) != want:
                ctx.violation("save-load-round-trip", dict(rp, via="save changed the object"), seam="Settings.save")
            with open(fn) as f:
                content = json.load(f)
            sp = spec_of(content)
            lines_out.append("settings.dispatch " + str(len(sp["D"])) + " " + " ".join(f"{kk} {enc(v)}" for kk, v in sp["D"]))
            pending.append((cn, kw))
        finally:
            if os.path.exists(fn):
                os.remove(fn)
    return pending


def synthetic_records(rng, n=3000, dt=0.01, nrec=1):
    import hvsrpy
    recs = []
    for _ in range(nrec):
        t = np.arange(n) * dt
        comps = [rng.normal(0, 1, n) + a * np.sin(2 * np.pi * f * t) for a, f in ((2.0, 1.5), (1.5, 2.5), (0.5, 4.0))]
        recs.append(hvsrpy.SeismicRecording3C(*[hvsrpy.TimeSeries(c, dt) for c in comps], degrees_from_north=float(rng.choice([0., 30.]))))
    return recs


def amplitudes(res):
    """all numeric arrays of a processing result"""
    out = []
    if isinstance(res, dict):
        for k in sorted(res):
            out += [np.asarray(res[k].frequency), np.asarray(res[k].amplitude)]
    elif hasattr(res, "hvsrs"):
        for h in res.hvsrs:
            out += [np.asarray(h.frequency), np.asarray(h.amplitude)]
        out.append(np.asarray(res.azimuths, dtype=float))
    else:
        out += [np.asarray(res.frequency), np.asarray(res.amplitude)]
    return out


def probe_processing(ctx, rng, n):
    """process a small recording with the original and with the reloaded settings: bit-identical result"""
    import hvsrpy
    import hvsrpy.object_io as oio
    s = S()
    os.makedirs(WORK, exist_ok=True)
    fcs = {"A": [fl(x) for x in np.geomspace(0.5, 20, 12)]}
    plans = []
    import hvsrpy.processing as pr
    methods = sorted(pr.TRADITIONAL_PROCESSING_REGISTER)
    methods = [m for m in methods if owner_class(m) != "HvsrTraditionalProcessingSettings"] + \
              [m for m in methods if owner_class(m) == "HvsrTraditionalProcessingSettings"]
    j = 0
    for i in range(n):
        sm = {"D": [["operator", str(rng.choice(["konno_and_ohmachi", "parzen", "log_rectangular", "savitzky_and_golay"][:3]))],
                    ["bandwidth", fl(float(rng.choice([20., 40., 0.5])))], ["center_frequencies_in_hz", fcs if rng.random() < 0.7 else {"L": fcs["A"]} if rng.random() < 0.5 else {"U": fcs["A"]}]]}
        if sm["D"][0][1] == "konno_and_ohmachi":
            sm["D"][1][1] = fl(40.0)
        elif sm["D"][0][1] != "konno_and_ohmachi":
            sm["D"][1][1] = fl(0.5)
        wtw = {("L" if rng.random() < 0.5 else "U"): ["tukey", fl(float(rng.choice([0.1, 0.2, 0.05])))]}
        kind = i % 6
        pre_cn = "HvsrPreProcessingSettings"
        if kind in (0, 1, 2):
            m = methods[j % len(methods)]
            j += 1
            cn = owner_class(m)
            kw = dict(window_type_and_width=wtw, smoothing=sm, method_to_combine_horizontals=m)
            if cn.endswith("SingleAzimuthProcessingSettings"):
                kw["azimuth_in_degrees"] = fl(float(rng.uniform(0, 180)))
            if cn.endswith("RotDppProcessingSettings"):
                kw["azimuths_in_degrees"] = rng.choice([{"A": [0, 45, 90]}, {"L": [fl(10.0), fl(100.0)]}, {"U": [0, 60, 120]}])
                kw["ppth_percentile_for_rotdpp_computation"] = fl(float(rng.choice([50., 100., 0.])))
        elif kind == 3:
            cn = "HvsrAzimuthalProcessingSettings"
            kw = dict(window_type_and_width=wtw, smoothing=sm, azimuths_in_degrees=rng.choice([{"A": [0, 45, 90]}, {"L": [fl(10.0), fl(100.0)]}, {"U": [0, 60, 120]}]))
        elif kind == 4:
            cn = "HvsrDiffuseFieldProcessingSettings"
            kw = dict(window_type_and_width=wtw, smoothing=sm)
        else:
            cn, pre_cn = "PsdProcessingSettings", "PsdPreProcessingSettings"
            kw = dict(window_type_and_width=wtw, smoothing=sm)
        pre_kw = dict(window_length_in_seconds=fl(float(rng.choice([10., 7.5]))),
                      filter_corner_frequencies_in_hz={("L" if rng.random() < 0.5 else "U"): [None if rng.random() < 0.5 else fl(0.3), None if rng.random() < 0.5 else fl(30.0)]},
                      detrend=str(rng.choice(["linear", "constant"])), orient_to_degrees_from_north=fl(float(rng.choice([0., 15.]))))
        if pre_cn == "PsdPreProcessingSettings":
            pre_kw["window_type_and_width"] = wtw
            pre_kw["differentiate"] = bool(rng.integers(0, 2))
        plans.append((cn, kw, pre_kw, pre_cn))
    for k, (cn, kw, pre_kw, pre_cn) in enumerate(plans):
        recs_seed = int(rng.integers(0, 2 ** 31))
        fn1, fn2 = os.path.join(WORK, f"c15_pp_{k}.json"), os.path.join(WORK, f"c15_pr_{k}.json")
        try:
            pre = getattr(s, pre_cn)(**{p: build(v) for p, v in pre_kw.items()})
            pro = getattr(s, cn)(**{p: build(v) for p, v in kw.items()})
            used_before = (k % 3 == 0)
            if used_before:
                # the settings were USED before being saved (on a window longer than 2**15 samples, which raises the stored FFT length):
                # everything a later run depends on must be in the file
                with quiet():
                    hvsrpy.process(synthetic_records(np.random.default_rng(recs_seed + 1), n=33001), pro)
            pre.save(fn1)
            oio.write_settings_object_to_file(pro, fn2)
            if k % 2:
                pre2 = oio.read_settings_object_from_file(fn1)
                pro2 = getattr(s, cn)()
                pro2.load(fn2)
            else:
                pre2 = getattr(s, pre_cn)()
                pre2.load(fn1)
                pro2 = oio.read_settings_object_from_file(fn2)
            outs = []
            for a, b in ((pre, pro), (pre2, pro2)):
                recs = synthetic_records(np.random.default_rng(recs_seed))
                with quiet():
                    r = hvsrpy.process(hvsrpy.preprocess(recs, a), b)
                outs.append(amplitudes(r))
            ctx.supporting["probe:processing_with_reloaded_settings"] = ctx.supporting.get("probe:processing_with_reloaded_settings", 0) + 1
            ctx.count("process:" + cn + (":" + kw["method_to_combine_horizontals"] if "method_to_combine_horizontals" in kw else ""))
            same = type(pro2) is type(pro) and type(pre2) is type(pre) and len(outs[0]) == len(outs[1]) and all(
                x.shape == y.shape and x.tobytes() == y.tobytes() for x, y in zip(*outs))
            if not same:
                ctx.violation("processing-with-reloaded-settings-identical",
                              dict(case=dict(cls=cn, kwargs=kw, pre_cls=pre_cn, pre_kwargs=pre_kw, records_seed=recs_seed, reloaded_class=type(pro2).__name__,
                                             used_on_a_33001_sample_record_before_saving=used_before),
                                   max_abs_diff=str(max([float(np.max(np.abs(x - y))) for x, y in zip(*outs) if x.shape == y.shape] + [0.0]))),
                              seam="Settings.save/load + hvsrpy.process")
        finally:
            for fn in (fn1, fn2):
                if os.path.exists(fn):
                    os.remove(fn)


# ----------------------------------------------------------------------------
def build_driver():
    rc, log = lake(["build", EXE])
    if rc != 0:
        raise InfraError("cannot build " + EXE + ":\n" + log[-2000:])


def run(ctx):
    ctx.rule = ("cases = histories of 6..22 operations over the eight real settings classes, generated online: caller creates a mutable object | "
                "construct (arguments omitted / literals incl. ndarray, list, tuple, None / caller variables) | in-place element write through an object or "
                "through a caller variable (lists, dict entries, ndarray elements, nested; ~6% raising) | assignment | save (method / object_io) | load | "
                "read_settings_object_from_file; after every op every group (default objects, caller variables, each object's attr_dict and typed attributes) "
                "is compared with Model/Settings.lean; non-trivial = the history writes in place through an object while a second object exists; distinct by op-list hash")
    ctx.trusted += ["CPython object model mirrored by Model/Settings.lean (aliasing by reference, copy.deepcopy = all containers new, list/dict item assignment)",
                    "json.dump/json.load: finite floats, ints, bools, None and str round-trip exactly; tuples are written as arrays; key order preserved",
                    "numpy: np.array(seq) copies; ndarray.tolist(); dtype inference/coercion is outside the model (homogeneous int or float sequences only)"]
    ctx.assumptions += ["noninterference covers histories in which a caller-held container is not passed to an alias-stored parameter "
                        "(fft_settings, instrument_transfer_function: known findings C15-c, C15-d) and is not assigned to an attribute by the caller"]
    rng = np.random.default_rng(ctx.seed)
    build_driver()
    default_objects()
    restore_defaults()
    # 0. deterministic witnesses of the known findings
    witness_alias_args(ctx)
    # 1. histories
    nh = ctx.budget(260, 4000)
    done = 0
    while done < nh:
        hists = []
        for h in range(done, min(done + 130, nh)):
            nops = int(rng.integers(6, 23))
            ops, stats, snaps, im, info = gen_history(rng, h, nops)
            im.cleanup()
            hists.append((ops, stats, snaps, info))
            case = dict(ops=ops)
            direct_oracles(ctx, ops, stats, snaps, info, case)
            if not fresh_objects_pristine(ctx, case):
                restore_defaults()
            ctx.count("histories")
            for op in ops:
                ctx.count("op:" + op[0])
            ctx.count("ops_raising", sum(1 for x in stats if x == "err"))
            ctx.count("history_with_unsafe_aliasing" if info["unsafe"] else "history_safe")
        done += len(hists)
        outs = run_driver([hist_line(ops) for ops, _, _, _ in hists], exe=EXE)
        for (ops, stats, snaps, info), line in zip(hists, outs):
            case = dict(ops=ops)
            ans = parse_answer(line, len(ops))
            ok = compare_history(ctx, ops, stats, snaps, ans, case)
            ctx.traces += 1
            ctx.case(ops, nontrivial=info["nontrivial"],
                     sample=dict(n_ops=len(ops), ops=[enc_op(o)[:120] for o in ops[:8]], statuses=stats[:8], agree=ok, tableOK=ans[1]))
    # 2. probes on the implementation
    probe_explicit_args(ctx, rng)
    probe_attr_dict_copies(ctx, rng, ctx.budget(40, 400))
    lines = []
    pend = probe_roundtrip(ctx, rng, lines)
    for (cn, kw), got in zip(pend, run_driver(lines, exe=EXE)):
        ctx.supporting["model_dispatch_on_real_files"] = ctx.supporting.get("model_dispatch_on_real_files", 0) + 1
        if got != cn:
            ctx.violation("reader-returns-same-class", dict(case=dict(cls=cn, kwargs=kw), model_dispatch=got), seam="Model dispatch vs file content")
    probe_processing(ctx, rng, ctx.budget(18, 120))
    fresh_objects_pristine(ctx, dict(stage="end of run"))
    cleanup_work()


def cleanup_work():
    if os.path.isdir(WORK):
        for fn in os.listdir(WORK):
            if fn.startswith("c15_"):
                try:
                    os.remove(os.path.join(WORK, fn))
                except OSError:
                    pass


def replay(case):
    """re-execute one stored history (or probe case) on the implementation and on the model"""
    build_driver()
    default_objects()
    restore_defaults()
    if "ops" not in case:
        return dict(note="probe case: re-run the check with the recorded seed", case=case)
    ops = [tuple(o) for o in json.loads(json.dumps(case["ops"]))]
    ops = [(o[0], o[1], [(p, tuple(src)) for p, src in o[2]]) if o[0] == "C" else o for o in ops]
    im = Impl("replay")
    stats, snaps = [], [im.snapshot()]
    for op in ops:
        stats.append(im.apply(op))
        snaps.append(im.snapshot())
    im.cleanup()
    line = run_driver([hist_line(ops)], exe=EXE)[0]
    conf, tok, steps = parse_answer(line, len(ops))
    view, first = {}, None
    for i, (st, d) in enumerate(steps):
        view.update(d)
        if first is None and ([view.get(g) for g in range(len(snaps[i]))] != snaps[i] or (i > 0 and st != stats[i - 1])):
            first = i - 1
    restore_defaults()
    return dict(statuses_impl=stats, statuses_model=[s for s, _ in steps[1:]], first_disagreement_at_op=first,
                final_impl=[x[1][:400] for x in snaps[-1][1:]], final_model=[(view.get(g) or ("", ""))[1][:400] for g in range(1, len(snaps[-1]))])
