"""C10 -- preprocessing applies the documented steps in order; windows tile the record.

Three ties to the real code:
 (i)   TimeSeries.split / SeismicRecording3C.split on ramp signals vs Model/Split.lean (driver `splitL`, `intervals`)
 (ii)  operation trace of hvsrpy.preprocess (methods of the real classes wrapped at run time) vs `expectedTrace`
 (iii) numerical oracle: the real scipy primitives applied outside hvsrpy in the documented order
"""
import math
from fractions import Fraction

import numpy as np

from common import *

PROP_MODULES = ["HvsrVerif.Props.C10"]
BRIDGE_MODULES = ["HvsrVerif.Bridge.PySplit"]
EXE = "drv_c10"

FS_LIST = [75, 150, 300, 1000, 500, 128, 250, 100, 200, 40, 50, 60, 1, 2, 4, 8, 20, 125, 256, 512, 600, 333, 30, 15, 3, 7]
DENS = [1, 2, 4, 5, 8, 10, 20, 25, 40, 50, 100, 125, 200, 1000, 3, 7, 9, 16]
AMBIG = Fraction(1, 1000)


def frac_s(x):
    return f"{x.numerator}/{x.denominator}"


def parse_frac(s):
    a, b = s.split("/")
    return Fraction(int(a), int(b))



def ensure_driver():
    """the commands of C10/C18 live in their own executable (lean/HvsrVerif/Drv/C10.lean); build it under the shared lock"""
    rc, log = lake(["build", EXE])
    if rc != 0:
        raise InfraError("driver build failed:\n" + log[-3000:])

# ----------------------------------------------------------------------------------------------
# (i) split
HUGE = [(12120, 600), (24240, 300), (48420, 150), (96780, 75)]     # L*fs is an integer whose float quotient L/dt lands one ulp below it


def gen_huge_case(rng, j):
    """window lengths of millions of samples (hours of data at a high rate): an exact multiple of the time step still counts in full; the snap of
    L/dt to the integer must be relative, not absolute"""
    if j < len(HUGE):
        L, fs = HUGE[j]
    else:
        fs = int(rng.choice([75, 150, 300, 600])); L = int(rng.integers(7_000_000 // fs, 9_000_000 // fs))
    k = L * fs
    return dict(kind="split", stream="huge", fs=frac_s(Fraction(fs)), L=frac_s(Fraction(L)), n=k + int(rng.integers(1, 9)), three=False)


def gen_split_case(rng, i):
    stream = ["decimal", "multiple", "rational", "dtdecimal", "error", "small"][i % 6]
    if rng.random() < 0.6:
        fs = Fraction(int(rng.choice(FS_LIST)))
    else:
        fs = Fraction(int(rng.integers(1, 1001)))
    if stream == "dtdecimal":  # the time step is the nominal decimal, fs = 1/dt is not an integer in general
        dt = Fraction(int(rng.integers(1, 400)), 10 ** int(rng.integers(2, 5)))
        fs = 1 / dt
    kmax = 3000
    if stream == "multiple":
        m = int(rng.integers(1, kmax))
        L = Fraction(m) / fs
    elif stream == "decimal" or stream == "dtdecimal" or stream == "error":
        d = int(rng.integers(0, 4))
        hi = max(2, int(min(kmax / fs, 600) * 10 ** d))
        L = Fraction(int(rng.integers(1, hi + 1)), 10 ** d)
    elif stream == "small":
        fs = Fraction(int(rng.choice([1, 2, 4, 5, 10, 75, 150, 300])))
        L = Fraction(int(rng.integers(1, 40)), int(rng.choice([1, 2, 3, 4])) * fs) * int(rng.integers(1, 4))
    else:
        q = int(rng.choice(DENS))
        hi = max(2, int(min(kmax / fs, 600) * q))
        L = Fraction(int(rng.integers(1, hi + 1)), q)
    x = L * fs
    k = math.floor(x)
    # record length around multiples of k
    if stream == "error":
        n = int(rng.integers(1, max(2, k + 1))) if k > 1 else 1
        if rng.random() < 0.3:
            n = max(1, k + int(rng.integers(-2, 2)))
    elif k == 0:
        n = int(rng.integers(1, 50))
    else:
        m = int(rng.integers(1, 9))
        if rng.random() < 0.5:
            n = m * k + int(rng.integers(-2, 3))
        else:
            n = m * k + int(rng.integers(0, k))
        n = max(1, min(n, 40000))
    return dict(kind="split", stream=stream, fs=frac_s(fs), L=frac_s(L), n=n, three=bool(i % 3 == 0))


def ambiguous(x):
    fr = x - math.floor(x)
    return fr != 0 and (fr < AMBIG or 1 - fr < AMBIG)


def digest(a):
    a = np.asarray(a)
    return [int(a[0]), int(len(a)), int(a[-1]), int(a.sum())] if len(a) else [0, 0, 0, 0]


def impl_split(case):
    from hvsrpy.timeseries import TimeSeries
    from hvsrpy.seismic_recording_3c import SeismicRecording3C
    fs, L, n = parse_frac(case["fs"]), parse_frac(case["L"]), case["n"]
    dt = float(1 / fs)
    Lf = float(L)
    ramp = np.arange(n, dtype=float)
    out = {}
    try:
        ws = TimeSeries(ramp, dt).split(Lf)
        out["ts"] = [digest(w.amplitude) for w in ws]
        out["contig"] = all(len(w.amplitude) > 0 and np.array_equal(w.amplitude, np.arange(w.amplitude[0], w.amplitude[0] + len(w.amplitude))) for w in ws)
        out["dt_kept"] = all(w.dt_in_seconds == dt for w in ws)
        out["fresh"] = not any(np.shares_memory(w.amplitude, ramp) for w in ws)
    except ValueError:
        out["ts"] = "err value"
    except ZeroDivisionError:
        out["ts"] = "err zerodiv"
    except Exception as e:   # anything else is reported as a disagreement, not a crash of the check
        out["ts"] = "err " + type(e).__name__
    if case.get("three"):
        deg = 37.5
        rec = SeismicRecording3C(TimeSeries(ramp, dt), TimeSeries(ramp + n, dt), TimeSeries(-ramp, dt), degrees_from_north=deg,
                                 meta={"tag": "c10"})
        try:
            ws = rec.split(Lf)
            out["3c"] = [[digest(w.ns.amplitude), digest(w.ew.amplitude - n), digest(-w.vt.amplitude)] for w in ws]
            out["3c_contig"] = all(np.array_equal(w.ew.amplitude - n, w.ns.amplitude) and np.array_equal(-w.vt.amplitude, w.ns.amplitude)
                                   for w in ws)
            out["3c_deg"] = all(w.degrees_from_north == deg for w in ws)
            out["3c_meta"] = all(w.meta.get("tag") == "c10" and w.meta.get("split") == Lf for w in ws)
        except ValueError:
            out["3c"] = "err value"
        except ZeroDivisionError:
            out["3c"] = "err zerodiv"
        except Exception as e:
            out["3c"] = "err " + type(e).__name__
    return out


def split_lines(case):
    fs, L = parse_frac(case["fs"]), parse_frac(case["L"])
    dt = float(1 / fs)
    return [f"intervals {L.numerator} {L.denominator} {fs.numerator} {fs.denominator}",
            f"splitL {hexf(float(L))} {hexf(dt)} {case['n']}"]


def parse_split(lines):
    t = Toks(lines[0])
    assert t.tok() == "ok", lines[0]
    kex = t.nat()
    t = Toks(lines[1])
    st = t.tok()
    if st != "ok":
        return kex, None, "err " + t.tok()
    k = int(t.tok())
    nw = t.nat()
    tail = t.nat()
    ws = [[t.nat(), t.nat(), t.nat(), t.nat()] for _ in range(nw)]
    return kex, k, dict(tail=tail, ws=ws)


def spec_split(k, n):
    """the property sentence evaluated directly (python integers): list of (start, len) or an error"""
    if k == 0:
        return "err zerodiv"
    if n < k:
        return "err value"
    nw = n // k
    return [[j * k, min(k + 1, n - j * k)] for j in range(nw)]


def check_split(ctx, case, im, mo):
    fs, L, n = parse_frac(case["fs"]), parse_frac(case["L"]), case["n"]
    x = L * fs
    kex, kmod, m = mo
    rp = dict(case=case, impl_output=im, model_output=dict(k_exact=kex, k_code=kmod, split=m))
    amb = ambiguous(x)
    if kex != math.floor(x):
        ctx.violation("model-intervals-exact", rp, found_input=True, seam="driver intervals vs python Fraction")
    # the property sentence evaluated on the implementation with the exact k (names the failing sentence first)
    sp = spec_split(kex, n)
    got = im["ts"] if isinstance(im["ts"], str) else [[w[0], w[1]] for w in im["ts"]]
    if not amb:
        ctx.supporting["spec_split_cases"] = ctx.supporting.get("spec_split_cases", 0) + 1
        if got != sp:
            clause = "exact-multiple-counts-in-full" if (x.denominator == 1 and not isinstance(got, str) and not isinstance(sp, str)
                                                         and len(got) > 0 and got[0][1] != sp[0][1]) else "windows-tile-the-record"
            ctx.violation(clause, dict(rp, spec=sp if isinstance(sp, str) else sp[:4], k_exact=kex), seam="TimeSeries.split vs exact rational k")
            return
    # correspondence code <-> model
    mo_ts = m if isinstance(m, str) else m["ws"]
    if im["ts"] != mo_ts:
        if amb:
            ctx.near_tie_skipped += 1
        else:
            ctx.violation("windows-tile-the-record", rp, seam="TimeSeries.split vs Model.Split.split")
        return
    ctx.traces += 1
    if amb:
        ctx.count("ambiguous_L_fs_excluded_from_exactness")
        return
    if not isinstance(im["ts"], str):
        ok = im["contig"] and im["dt_kept"] and all(w[2] == w[0] + w[1] - 1 for w in im["ts"])
        ok = ok and all(a[2] == b[0] for a, b in zip(im["ts"], im["ts"][1:]))
        nw = len(im["ts"])
        tail = n - (im["ts"][-1][2] + 1)
        ok = ok and 0 <= tail < kex and tail == m["tail"]
        ok = ok and all(w[1] == kex + 1 for w in im["ts"][:-1]) and (im["ts"][-1][1] == kex + 1 or (im["ts"][-1][1] == kex and n == nw * kex))
        if not ok:
            ctx.violation("windows-carry-samples-unaltered", rp, seam="TimeSeries.split")
        if not im["fresh"]:
            ctx.violation("split-windows-are-copies", rp, seam="TimeSeries.split")
    if "3c" in im:
        exp3 = im["ts"] if isinstance(im["ts"], str) else [[w, w, w] for w in im["ts"]]
        if im["3c"] != exp3 or (not isinstance(im["3c"], str) and not (im["3c_contig"] and im["3c_deg"] and im["3c_meta"])):
            ctx.violation("three-components-same-tiling", rp, seam="SeismicRecording3C.split")


# ----------------------------------------------------------------------------------------------
# (ii)+(iii) preprocess
def gen_pre_case(rng, i):
    fs = int(rng.choice([75, 150, 300, 100, 200, 128, 250, 50, 40, 500]))
    nrec = 1 if rng.random() < 0.5 else int(rng.integers(2, 4))
    dmode = [None, "none", "linear", "constant"][int(rng.integers(0, 4))]
    orient = [None, 0.0, float(rng.uniform(-720, 1080)), float(rng.integers(-8, 12) * 45)][int(rng.integers(0, 4))]
    # a third of the multi-record calls hand over recordings with DIFFERENT time steps (legal: preprocess only warns): every recording is
    # filtered and split with its own time step
    fss = [fs] * nrec
    if nrec >= 2 and rng.random() < 0.35:
        fss = [fs] + [int(rng.choice([75, 150, 300, 100, 200, 128, 250, 50, 40, 500])) for _ in range(nrec - 1)]
    fnyq = min(fss) / 2
    lo = float(round(rng.uniform(0.02, 0.2) * fnyq, 3))
    hi = float(round(rng.uniform(0.4, 0.9) * fnyq, 3))
    fc = [[None, None], [lo, None], [None, hi], [lo, hi]][int(rng.integers(0, 4))]
    if rng.random() < 0.3:
        fc = tuple(fc)
    r = rng.random()
    if r < 0.15:
        L = None
    elif r < 0.5:   # exact multiple
        L = Fraction(int(rng.integers(1, 6)), int(rng.choice([1, 2, 5])))
        if (L * fs).denominator != 1:
            L = Fraction(int(rng.integers(20, 200)), fs)
    else:
        L = Fraction(int(rng.integers(300, 5000)), 1000)
    lens = []
    for fs_r in fss:
        k = 1 if L is None else max(1, math.floor(L * fs_r))
        m = int(rng.integers(1, 6))
        n = max(64, m * k + int(rng.integers(0, max(1, k))))
        if L is not None and rng.random() < 0.08:
            n = int(rng.integers(64, max(65, k)))  # window longer than the record -> error (when k > n)
        lens.append(n)
    return dict(kind="pre", fs=fs, fss=fss, L=None if L is None else frac_s(L), lens=lens, detrend=dmode, orient=orient, fc=list(fc),
                fc_tuple=isinstance(fc, tuple), deg0=[float(rng.choice([0.0, 30.0, rng.uniform(0, 360)])) for _ in range(nrec)],
                sseed=int(rng.integers(0, 2 ** 31)), dt_corrected=bool(i % 5 == 3))


def build_records(case):
    from hvsrpy.timeseries import TimeSeries
    from hvsrpy.seismic_recording_3c import SeismicRecording3C
    r = np.random.default_rng(case["sseed"])
    recs = []
    for n, d0, fs_r in zip(case["lens"], case["deg0"], case.get("fss") or [case["fs"]] * len(case["lens"])):
        dt = 1 / fs_r
        t = np.arange(n) * dt
        comps = [r.normal(0, 1, n) + r.uniform(-3, 3) + r.uniform(-2, 2) * t + np.sin(2 * np.pi * r.uniform(0.5, 5) * t) for _ in range(3)]
        if case.get("dt_corrected"):
            # the record was created with a nominal time step (as read from a header) and the true one is assigned afterwards through the public
            # attribute: every later step (filter design, split) must use the time step the record has NOW
            rec = SeismicRecording3C(*[TimeSeries(c, dt * 2.0) for c in comps], degrees_from_north=d0)
            for x in (rec.ns, rec.ew, rec.vt):
                x.dt_in_seconds = dt
            recs.append(rec)
        else:
            recs.append(SeismicRecording3C(*[TimeSeries(c, dt) for c in comps], degrees_from_north=d0))
    return recs


def settings_of(case):
    import hvsrpy
    fc = tuple(case["fc"]) if case["fc_tuple"] else list(case["fc"])
    return hvsrpy.settings.HvsrPreProcessingSettings(orient_to_degrees_from_north=case["orient"], filter_corner_frequencies_in_hz=fc,
                                                     window_length_in_seconds=None if case["L"] is None else float(parse_frac(case["L"])),
                                                     detrend=case["detrend"])


class Tracer:
    """wraps orient_sensor_to / butterworth_filter / split / detrend of the real classes (restored on exit)"""
    METHODS = [("orient_sensor_to", "orient"), ("butterworth_filter", "filter"), ("split", "split"), ("detrend", "detrend")]

    def __init__(self):
        self.rec = []   # (op, id, n)  SeismicRecording3C level
        self.ts = []    # (op, id, n)  TimeSeries level
        self.saved = []

    def __enter__(self):
        from hvsrpy.timeseries import TimeSeries
        from hvsrpy.seismic_recording_3c import SeismicRecording3C
        for cls, log, nof in ((SeismicRecording3C, self.rec, lambda o: o.ns.n_samples), (TimeSeries, self.ts, lambda o: o.n_samples)):
            for name, tag in self.METHODS:
                if not hasattr(cls, name):
                    continue
                orig = cls.__dict__[name]
                self.saved.append((cls, name, orig))

                def make(orig, tag, log, nof):
                    def wrapper(self_, *a, **kw):
                        log.append((tag, id(self_), int(nof(self_))))
                        return orig(self_, *a, **kw)
                    return wrapper
                setattr(cls, name, make(orig, tag, log, nof))
        return self

    def __exit__(self, *exc):
        for cls, name, orig in self.saved:
            setattr(cls, name, orig)
        return False


def impl_pre(case):
    import hvsrpy
    recs = build_records(case)
    st = settings_of(case)
    arg = recs[0] if (len(recs) == 1 and case["sseed"] % 2 == 0) else recs   # a bare recording is accepted too
    err = None
    out = None
    with Tracer() as tr:
        try:
            out = hvsrpy.preprocess(arg, st)
        except ValueError:
            err = "err value"
        except ZeroDivisionError:
            err = "err zerodiv"
        except Exception as e:
            err = "err " + type(e).__name__
    return recs, out, err, tr


def trace_lines(case):
    L = None if case["L"] is None else float(parse_frac(case["L"]))
    dd = case["detrend"] is not None and case["detrend"] != "none"
    fss = case.get("fss") or [case["fs"]] * len(case["lens"])
    return [f"trace {1 if case['orient'] is not None else 0} {fopt(L)} {hexf(1 / fs_r)} {1 if dd else 0} {n}" for n, fs_r in zip(case["lens"], fss)]


def parse_trace(line):
    t = Toks(line)
    if t.tok() != "ok":
        return "err " + t.tok()
    return [(t.tok(), t.nat()) for _ in range(t.nat())]


def oracle_pre(case):
    """documented order with the real scipy primitives, outside hvsrpy; k from exact rational arithmetic"""
    from scipy.signal import butter, sosfiltfilt, detrend
    recs = build_records(case)
    L = None if case["L"] is None else parse_frac(case["L"])
    out = []
    for rec, fs in zip(recs, case.get("fss") or [case["fs"]] * len(recs)):
        ns, ew, vt = rec.ns.amplitude.copy(), rec.ew.amplitude.copy(), rec.vt.amplitude.copy()
        deg = rec.degrees_from_north
        if case["orient"] is not None:
            ang = np.radians(case["orient"] - deg)
            c, s = np.cos(ang), np.sin(ang)
            ew, ns = ew * c - ns * s, ew * s + ns * c
            deg = float(case["orient"] - 360 * (case["orient"] // 360))
        lo, hi = case["fc"]
        if lo is not None or hi is not None:
            if lo is None:
                sos = butter(5, hi, "lowpass", fs=1 / (1 / fs), output="sos")
            elif hi is None:
                sos = butter(5, lo, "highpass", fs=1 / (1 / fs), output="sos")
            else:
                sos = butter(5, [lo, hi], "bandpass", fs=1 / (1 / fs), output="sos")
            ns, ew, vt = (sosfiltfilt(sos, a) for a in (ns, ew, vt))
        if L is None:
            wins = [(ns, ew, vt)]
        else:
            k = math.floor(L * fs)
            n = len(ns)
            if k == 0 or n < k:
                return "err"
            wins = [tuple(a[j * k:j * k + k + 1] for a in (ns, ew, vt)) for j in range(n // k)]
        if case["detrend"] not in (None, "none"):
            wins = [tuple(detrend(a, type=case["detrend"]) for a in w) for w in wins]
        out += [(w, deg) for w in wins]
    return out


def check_pre(ctx, case, mo_lines):
    recs, out, err, tr = impl_pre(case)
    rp = dict(case=case)
    # ---- (ii) trace
    exp_model = []
    exp_err = None
    for n, ln in zip(case["lens"], mo_lines):
        t = parse_trace(ln)
        if isinstance(t, str):
            exp_model.append([(op, n) for op in (["orient"] if case["orient"] is not None else []) + ["filter", "split"]])
            exp_err = t
            break
        exp_model.append(t)
    flat = [x for t in exp_model for x in t]
    got = [(op, n) for op, _, n in tr.rec]
    rp["impl_trace"] = got[:40]
    rp["model_trace"] = flat[:40]
    rp["impl_error"], rp["model_error"] = err, exp_err
    if got != flat or err != exp_err:
        ctx.violation("steps-in-documented-order", rp, seam="hvsrpy.preprocess operation trace vs Model.Split.expectedTrace")
        return False
    ctx.traces += 1
    # ---- what the caller's recording objects hold after the call (also after a REFUSED call): exactly the effect of the steps that ran on them -- samples and
    # reported orientation must describe the same motion, whatever a later call is going to do with the object
    from scipy.signal import butter, sosfiltfilt
    fresh = build_records(case)
    for rec_now, rec0, fs_r in zip(recs, fresh, case.get("fss") or [case["fs"]] * len(recs)):
        ns, ew, vt = rec0.ns.amplitude.copy(), rec0.ew.amplitude.copy(), rec0.vt.amplitude.copy()
        deg = rec0.degrees_from_north
        for (op, oid, _n) in tr.rec:
            if oid != id(rec_now):
                continue
            if op == "orient":
                ang = np.radians(case["orient"] - deg)
                c_, s_ = np.cos(ang), np.sin(ang)
                ew, ns = ew * c_ - ns * s_, ew * s_ + ns * c_
                deg = float(case["orient"] - 360 * (case["orient"] // 360))
            elif op == "filter":
                lo, hi = case["fc"]
                if lo is not None or hi is not None:
                    sos = butter(5, hi if lo is None else (lo if hi is None else [lo, hi]),
                                 "lowpass" if lo is None else ("highpass" if hi is None else "bandpass"), fs=1 / (1 / fs_r), output="sos")
                    ns, ew, vt = (sosfiltfilt(sos, a) for a in (ns, ew, vt))
            elif op == "detrend" and case["detrend"] not in (None, "none"):
                from scipy.signal import detrend as _detrend      # without a window length the recording itself is the (only) window and is detrended in place
                ns, ew, vt = (_detrend(a, type=case["detrend"]) for a in (ns, ew, vt))
        sc = max(1.0, float(np.max(np.abs(ns))), float(np.max(np.abs(ew))))
        same = (len(rec_now.ns.amplitude) == len(ns) and np.allclose(rec_now.ns.amplitude, ns, rtol=0, atol=1e-9 * sc) and np.allclose(rec_now.ew.amplitude, ew, rtol=0, atol=1e-9 * sc)
                and np.allclose(rec_now.vt.amplitude, vt, rtol=0, atol=1e-9 * sc) and abs(float(rec_now.degrees_from_north) - deg) <= 1e-9)
        ctx.supporting["caller_state_after_preprocess"] = ctx.supporting.get("caller_state_after_preprocess", 0) + 1
        if not same:
            ctx.violation("steps-in-documented-order", dict(rp, why="after the call (outcome: %s) a recording object handed in does not hold the effect of the steps that ran on it: its samples and the "
                                                               "orientation it reports no longer describe the same motion" % (err or "ok"),
                                                           reported_orientation=float(rec_now.degrees_from_north), orientation_of_the_samples=deg),
                          seam="caller's recording objects after hvsrpy.preprocess")
            return False
    # object identities: orient/filter/split on the caller's recordings in order, detrend on the returned windows in order
    ids_in = [id(r) for r in recs]
    pos = 0
    ok_ids = True
    det_ids = []
    for ri, t in enumerate(exp_model):
        for (op, n) in t:
            o, oid, _ = tr.rec[pos]
            pos += 1
            if op == "detrend":
                det_ids.append(oid)
            elif oid != ids_in[ri]:
                ok_ids = False
    if out is not None and det_ids and det_ids != [id(w) for w in out]:
        ok_ids = False
    if not ok_ids:
        ctx.violation("steps-in-documented-order", dict(rp, why="operations were applied to unexpected objects"), seam="hvsrpy.preprocess object identities")
        return False
    # TimeSeries level: filter/split/detrend reach each of the three components exactly once, in the same order
    exp_ts = [(op, n) for (op, n) in flat if op != "orient" for _ in range(3)]
    if exp_err is not None:   # the refused split raises in the first component
        exp_ts = exp_ts[:-2]
    got_ts = [(op, n) for op, _, n in tr.ts]
    if got_ts != exp_ts:
        ctx.violation("steps-in-documented-order", dict(rp, why="component-level calls differ", impl_ts=got_ts[:40], model_ts=exp_ts[:40]),
                      seam="hvsrpy.preprocess component-level trace")
        return False
    # ---- (iii) numerical oracle
    orc = oracle_pre(case)
    ctx.supporting["oracle_cases"] = ctx.supporting.get("oracle_cases", 0) + 1
    if isinstance(orc, str) or err is not None:
        if not (isinstance(orc, str) and err is not None):
            if any(ambiguous(parse_frac(case["L"]) * fs_r) for fs_r in (case.get("fss") or [case["fs"]])):
                ctx.near_tie_skipped += 1
                return True
            ctx.violation("window-longer-than-record-is-an-error", dict(rp, oracle=str(orc)[:80]), seam="hvsrpy.preprocess vs scipy oracle")
            return False
        ctx.count("pre:error")
        return True
    if len(orc) != len(out):
        ctx.violation("windows-tile-the-record", dict(rp, n_windows_impl=len(out), n_windows_oracle=len(orc)), seam="hvsrpy.preprocess vs scipy oracle")
        return False
    bit = True
    for w, ((ns, ew, vt), deg) in zip(out, orc):
        for a, b in ((w.ns.amplitude, ns), (w.ew.amplitude, ew), (w.vt.amplitude, vt)):
            if len(a) != len(b):
                ctx.violation("windows-tile-the-record", dict(rp, why="window length differs from oracle"), seam="hvsrpy.preprocess vs scipy oracle")
                return False
            if not np.array_equal(a, b):
                bit = False
                sc = max(1.0, float(np.max(np.abs(b))))
                if not np.all(np.abs(a - b) <= 1e-12 * sc):
                    ctx.violation("steps-in-documented-order", dict(rp, why="samples differ from the documented order applied with scipy",
                                                                    max_abs_diff=float(np.max(np.abs(a - b)))),
                                  seam="hvsrpy.preprocess vs scipy oracle")
                    return False
        if w.degrees_from_north != deg:
            ctx.violation("steps-in-documented-order", dict(rp, why="orientation of a window differs", impl=w.degrees_from_north, oracle=deg),
                          seam="hvsrpy.preprocess vs scipy oracle")
            return False
    ctx.count("oracle:bit_for_bit" if bit else "oracle:within_1e-12")
    return True


def detrend_crosscheck(ctx, rng, n_cases):
    """scipy.signal.detrend (trusted) vs the model's closed forms"""
    from scipy.signal import detrend
    lines, cases = [], []
    for _ in range(n_cases):
        n = int(rng.integers(1, 120))
        x = rng.normal(0, 1, n) * rng.uniform(0.1, 100) + rng.uniform(-50, 50) + rng.uniform(-1, 1) * np.arange(n)
        if rng.random() < 0.2:
            x = np.round(x)
        mode = "linear" if rng.random() < 0.5 else "constant"
        cases.append((mode, x))
        lines.append(f"detrend {mode} {fvec(x)}")
    outs = run_driver(lines, exe=EXE)
    for (mode, x), ln in zip(cases, outs):
        t = Toks(ln)
        assert t.tok() == "ok"
        mo = t.vec()
        im = detrend(x, type=mode)
        sc = float(np.max(np.abs(x))) * max(1, len(x))
        ctx.supporting["detrend_closed_form_cases"] = ctx.supporting.get("detrend_closed_form_cases", 0) + 1
        if not vclose(im, mo, sc):
            ctx.violation("detrend-is-least-squares", dict(case=dict(kind="detrend", mode=mode, x=x.tolist()), impl_output=list(map(float, im)), model_output=mo),
                          seam="scipy.signal.detrend vs Model.Split.detrendConst/detrendLinear")


# ----------------------------------------------------------------------------------------------
def run(ctx):
    ctx.rule = ("(i) split: ramp records (sample = index), fs from {75,150,300,1000,500,128,250,...} or 1..1000 or 1/dt for decimal dt; nominal L = p/q "
                "carried as an exact rational (decimal, exact multiple m/fs, random rational), record lengths around multiples of k, error stream; "
                "L*fs within 1e-3 of an integer without being one is excluded as ambiguous. (ii)/(iii) preprocess: 1-3 recordings, orientation "
                "None/0/random in [-720,1080]/multiples of 45, all four filter-corner combinations (list or tuple), detrend None/'none'/linear/constant, "
                "window None/exact multiple/decimal. Non-trivial = (>= 2 windows and a non-empty discarded tail) or L*fs an exact multiple; distinct by input hash")
    ctx.trusted += ["scipy.signal.butter/sosfiltfilt (zero-phase property not proved; the filter is an arbitrary function in the theorems)",
                    "scipy.signal.detrend (cross-checked against the model's closed-form least squares on every run)",
                    "n_windows = int(n_samples / k) is a float division in the code and an integer quotient in the model (equal for n < 2^52)"]
    ensure_driver()
    rng = np.random.default_rng(ctx.seed)
    cases = [dict(c["case"], corpus=True) for c in load_corpus("C10")]
    ctx.count("corpus_cases", len(cases))
    ns_ = ctx.budget(5000, 60000)
    np_ = ctx.budget(500, 5000)
    cases += [gen_split_case(rng, i) for i in range(ns_)]
    cases += [gen_huge_case(rng, j) for j in range(ctx.budget(2, 8))]
    cases += [gen_pre_case(rng, i) for i in range(np_)]
    lines, spans = [], []
    for c in cases:
        ls = split_lines(c) if c["kind"] == "split" else trace_lines(c)
        spans.append((len(lines), len(ls)))
        lines += ls
    outs = run_driver(lines, exe=EXE)
    for c, (a, m) in zip(cases, spans):
        mo_lines = outs[a:a + m]
        if c["kind"] == "split":
            fs, L, n = parse_frac(c["fs"]), parse_frac(c["L"]), c["n"]
            x = L * fs
            k = math.floor(x)
            im = impl_split(c)
            mo = parse_split(mo_lines)
            nw = 0 if (k == 0 or n < k) else n // k
            tail = n - (nw * k + 1) if nw else 0
            nontriv = (nw >= 2 and tail > 0) or (x.denominator == 1 and nw >= 1)
            ctx.case(("split", c["fs"], c["L"], n), nontriv,
                     sample=dict(case=c, k_exact=k, impl=str(im["ts"])[:120], model=str(mo[2])[:120]))
            ctx.count("split:" + c["stream"])
            ctx.count("split:fs=" + (c["fs"][:-2] if c["fs"] in ("75/1", "150/1", "300/1", "1000/1", "500/1", "128/1", "250/1") else "other"))
            ctx.count("split:outcome=" + ("error" if isinstance(im["ts"], str) else ("multiple" if x.denominator == 1 else "fractional")))
            check_split(ctx, c, im, mo)
        else:
            L = None if c["L"] is None else parse_frac(c["L"]) * c["fs"]
            nontriv = L is None or L.denominator == 1 or any((n // max(1, math.floor(L))) >= 2 and (n - (n // max(1, math.floor(L))) * math.floor(L) - 1) > 0 for n in c["lens"])
            ctx.case(("pre", c.get("fss", c["fs"]), c["L"], c["lens"], c["detrend"], c["orient"], c["fc"], c["sseed"]), nontriv,
                     sample=dict(case=c))
            ctx.count("pre:nrec=%d" % len(c["lens"]))
            ctx.count("pre:time-steps=" + ("mixed" if len(set(c.get("fss") or [c["fs"]])) > 1 else "one"))
            ctx.count("pre:detrend=%s" % c["detrend"])
            ctx.count("pre:fc=" + "".join("N" if v is None else "v" for v in c["fc"]))
            ctx.count("pre:orient=" + ("None" if c["orient"] is None else "set"))
            ctx.count("pre:L=" + ("None" if L is None else ("multiple" if L.denominator == 1 else "fractional")))
            check_pre(ctx, c, mo_lines)
    detrend_crosscheck(ctx, rng, ctx.budget(300, 3000))
    # the wrappers are gone: the classes carry their original methods again
    from hvsrpy.timeseries import TimeSeries
    assert TimeSeries.split.__name__ == "split"


def replay(case):
    if case["kind"] == "split":
        im = impl_split(case)
        mo = parse_split(run_driver(split_lines(case), exe=EXE))
        return dict(impl=im, model=dict(k_exact=mo[0], k_code=mo[1], split=mo[2]))
    if case["kind"] == "pre":
        recs, out, err, tr = impl_pre(case)
        mo = run_driver(trace_lines(case), exe=EXE)
        return dict(impl_trace=[(op, n) for op, _, n in tr.rec], impl_error=err, model_trace=[parse_trace(l) for l in mo],
                    n_windows=None if out is None else len(out))
    return None
