"""C06 -- frequency-domain window rejection (Cox et al. 2020): decisions, count, termination"""
import numpy as np

from common import *
import hvgen
import hvhist
from hvgen import Mirror

PROP_MODULES = ["HvsrVerif.Props.C06", "HvsrVerif.Props.C06Order", "HvsrVerif.Props.C06Spec"]
BRIDGE_MODULES = ["HvsrVerif.Bridge.C06", "HvsrVerif.Bridge.PyFdwra", "HvsrVerif.Bridge.PyVec", "HvsrVerif.Bridge.PyVecBounds"]


def gen_scatter_case(rng, oid):
    """small n, many iterations, widely scattered peaks with removals on both sides: the regime in which a rejected window
    could fall back inside later (narrower or shifted) bounds -- it must stay rejected"""
    freq = hvgen.gen_freq(rng, int(rng.integers(60, 120)))
    nw = int(rng.integers(8, 16))
    rows = np.array([hvgen.gen_curve(rng, freq, "bump", f0=float(np.exp(rng.uniform(np.log(freq[3]), np.log(freq[-4]))))) for _ in range(nw)])
    m = Mirror.trad(oid, freq, rows)
    par = dict(n=float(rng.choice([0.9, 1.0, 1.1, 1.2, 1.3])), maxit=50, dfn=str(rng.choice(hvgen.DISTS + ["log-normal"])),
               dmc=str(rng.choice(hvgen.DISTS + ["log-normal"])), range=(None, None))
    return m, par


def gen_fdwra_case(rng, oid, kind):
    freq = hvgen.gen_freq(rng, int(rng.integers(60, 160)))
    nw = int(rng.integers(5, 41)) if kind == "T" else int(rng.integers(4, 14))
    if kind == "T":
        rows = hvgen.gen_curve_set(rng, freq, nw)
        if rng.random() < 0.15:
            # an exact zero (amplitudes >= 0 are legal) in one window, at the frequency where the mean curve peaks: under the lognormal
            # assumption the mean curve is 0 there (log 0 = -inf is a value, not a missing sample)
            rows[int(rng.integers(0, nw)), int(np.argmax(rows.mean(axis=0)))] = 0.0
        m = Mirror.trad(oid, freq, rows)
    else:
        naz = int(rng.integers(1, 5))
        azs = sorted(float(a) for a in rng.choice(np.arange(0, 180, 5), naz, replace=False))
        m = Mirror.az(oid, freq, [hvgen.gen_curve_set(rng, freq, nw) for _ in range(naz)], azs)
    if rng.random() < (0.5 if kind == "A" else 0.15):
        # the object arrives from a time-domain rejection (sta_lta / maximum_value with hvsr=...), which wrote its selection into the masks
        # of every azimuth: the frequency-domain run must then treat every azimuth's masks as that azimuth's own
        mask = [bool(b) for b in (rng.random(nw) < 0.8)]
        if sum(mask) >= 3:
            m.tmask(mask)
    par = dict(n=float(rng.choice([0.5, 1.0, 1.5, 2.0, 2.5, 3.0])), maxit=int(rng.choice([1, 2, 3, 50])),
               dfn=str(rng.choice(hvgen.DISTS + ["log-normal"])), dmc=str(rng.choice(hvgen.DISTS + ["log-normal"])),
               range=hvgen.gen_range(rng, freq) if rng.random() < 0.4 else (None, None))
    return m, par


def gen_two_resonance_case(rng, oid):
    """every window shows TWO resonances (a deep, higher one and a shallower one above it in frequency); the object is first rejected over the full range and
    then -- the judged call -- over a range that holds only the second resonance (or the other way round): the peak of the mean curve, the rejection bounds and
    the stopping rule of the second call must all refer to ITS range, although the accepted sets of the two calls coincide at entry"""
    freq = np.geomspace(0.2, 20.0, int(rng.integers(70, 110)))
    nw = int(rng.integers(12, 30))
    fa, fb = float(rng.uniform(0.5, 1.0)), float(rng.uniform(4.0, 8.0))
    rows = []
    for j in range(nw):
        out = rng.random() < 0.2
        f1 = fa * float(np.exp(rng.normal(0, 0.35 if out else 0.05)))
        f2 = fb * float(np.exp(rng.normal(0, 0.35 if out else 0.05)))
        c = 1.0 + 4.0 * np.exp(-0.5 * (np.log(freq / f1) / 0.15) ** 2) + 2.5 * np.exp(-0.5 * (np.log(freq / f2) / 0.15) ** 2)
        rows.append(c * np.exp(rng.normal(0, 0.03, len(freq))))
    m = Mirror.trad(oid * 5, freq, np.array(rows))
    split = float(np.sqrt(fa * fb))
    first, second = ((None, None), (split, None)) if rng.random() < 0.6 else ((split, None), (None, split))
    par0 = dict(n=2.0, maxit=50, dfn=str(rng.choice(hvgen.DISTS)), dmc=str(rng.choice(hvgen.DISTS)))
    m.pre_ops = [["fdwra", par0, list(first), False, None]]
    m.strict_mc = True
    par = dict(par0, n=float(rng.choice([1.5, 2.0])), range=second)
    return m, par


def gen_sub_azimuth_case(rng, oid):
    """an azimuthal object of which ONE azimuth (not the first) was analysed on its own over a restricted range; the judged call then rejects over the range the
    other azimuths still hold, with find_peaks_kwargs={}: every azimuth must be brought to the requested range by comparing with ITS OWN stored range"""
    freq = hvgen.gen_freq(rng, int(rng.integers(60, 120)))
    naz = int(rng.integers(2, 5))
    nw = int(rng.integers(5, 12))
    azs = sorted(float(a) for a in rng.choice(np.arange(0, 180, 5), naz, replace=False))
    m = Mirror.az(oid, freq, [hvgen.gen_curve_set(rng, freq, nw) for _ in range(naz)], azs)
    k = int(rng.integers(1, naz))
    cut = float(freq[int(rng.integers(len(freq) // 3, 2 * len(freq) // 3))])
    r1 = [(cut, None), (None, cut)][int(rng.integers(0, 2))]
    par0 = dict(n=float(rng.choice([1.5, 2.0, 2.5])), maxit=int(rng.choice([2, 50])), dfn=str(rng.choice(hvgen.DISTS)), dmc=str(rng.choice(hvgen.DISTS)))
    m.pre_ops = [["subfdwra", par0, list(r1), True, k]] if rng.random() < 0.6 else [["subupdate", k, list(r1), bool(rng.random() < 0.5)]]
    par = dict(par0, n=float(rng.choice([1.5, 2.0, 3.0])), range=(None, None), kw=True)
    return m, par


def gen_exact_zero_case(rng, oid):
    """integer frequencies, triangular curves peaking on integer frequencies, normal distributions: |mean fn - mean-curve peak| can be EXACTLY zero
    while windows still lie outside mean +- n std -- the published algorithm removes them before it looks at the stopping rule"""
    freq = np.arange(1.0, 16.0)
    c = int(rng.integers(6, 10))
    d1 = int(rng.integers(3, 5)); d2 = d1 if rng.random() < 0.7 else int(rng.integers(3, 5))
    peaks = [c - 1] * 3 + [c] * 4 + [c + 1] * 3 + [c - d1, c + d2]   # symmetric core + one outlier each side (mostly symmetric too: mean fn = c exactly)
    peaks = [peaks[j] for j in rng.permutation(len(peaks))]
    rows = np.array([1.0 + np.maximum(0.0, 3.0 - np.abs(freq - p)) for p in peaks])
    m = Mirror.trad(oid * 5, freq, rows)      # oid * 5: plain float64 containers
    m.exact_zero = True
    par = dict(n=2.0, maxit=int(rng.choice([1, 2, 50])), dfn="normal", dmc="normal", range=(None, None))
    return m, par


def gen_exact_tie_case(rng, oid):
    """frequencies k * 2**-e, main peaks on grid samples, normal distribution for fn: the first pass removes one outlier and moves mean fn by EXACTLY one
    hundredth of its distance to the mean-curve peak (2 of 200 samples, or 4 of 400) -- the relative change is the double 0.01, which is not below 0.01, so the
    published algorithm makes another pass (seed C06-V of round 9 stopped there)"""
    k = int(rng.integers(1, 3)); e = int(rng.integers(10, 13))
    nf = 512 * k + int(rng.integers(0, 64))
    freq = np.arange(1, nf + 1) * 2.0 ** -e
    p0 = int(rng.integers(20, 90)); a = p0 + 200 * k
    offs = [-4 * k, -3 * k, -1 * k, 0, 8 * k]     # mean a; without the outlier a - 2k
    offs = [offs[j] for j in rng.permutation(5)]
    rows = np.full((5, nf), 1.0)
    for r, o in zip(rows, offs):
        r[p0] = 1.9                                 # a bump common to all windows: the peak of the mean curve
        r[a + o] = 2.0
    m = Mirror.trad(oid * 5, freq, rows)
    m.exact_zero = True
    m.exact_tie = True
    par = dict(n=1.0, maxit=int(rng.choice([2, 50])), dfn="normal", dmc=str(rng.choice(hvgen.DISTS)), range=(None, None))
    return m, par


TRACE_KEYS = ["mean_fn_before", "std_fn_before", "mc_peak_frq_before", None, None, "mean_fn_after", "std_fn_after", "mc_peak_frq_after"]


def gen_pre_history(rng, m):
    """what happened to the SAME object before the call that is judged: an earlier rejection with another search range (the accepted sets may coincide
    with those of the second call), a peak update or an analysis of ONE azimuth on its own; ops are JSON-able lists"""
    ops = []
    u = rng.random()
    if m.kind == "A" and len(m.rows_per_az) >= 2 and rng.random() < 0.5:
        u = 0.75 + 0.25 * u          # azimuthal objects: half of the histories touch ONE azimuth on its own
    par0 = dict(n=float(rng.choice([1.5, 2.0, 2.5, 3.0])), maxit=int(rng.choice([1, 2, 50])), dfn=str(rng.choice(hvgen.DISTS)), dmc=str(rng.choice(hvgen.DISTS)))
    if u < 0.45:
        ops.append(["fdwra", par0, list(hvgen.gen_range(rng, m.freq)) if rng.random() < 0.6 else [None, None], False, None])
    elif u < 0.6:
        ops.append(["fdwra", par0, list(hvgen.gen_range(rng, m.freq)), True, None])
    elif u < 0.75:
        ops.append(["update", list(hvgen.gen_range(rng, m.freq)), bool(rng.random() < 0.5)])
    elif m.kind == "A" and len(m.rows_per_az) >= 2:
        az = int(rng.integers(0, len(m.rows_per_az)))
        if rng.random() < 0.5:
            ops.append(["subfdwra", par0, list(hvgen.gen_range(rng, m.freq)), True, az])
        else:
            ops.append(["subupdate", az, list(hvgen.gen_range(rng, m.freq)), bool(rng.random() < 0.5)])
    return ops


def apply_pre_history(m, ops):
    """returns False when a decision of the earlier call was within rounding distance of its threshold (the two worlds may then legitimately part)"""
    for op in ops:
        if op[0] in ("fdwra", "subfdwra"):
            _, p0, r0, kw, az = op
            if kw or az is not None:
                r_ = m.fdwra_kw(p0["n"], p0["maxit"], p0["dfn"], p0["dmc"], tuple(r0), kw_empty=kw, az=az)
            else:
                r_ = m.fdwra(p0["n"], p0["maxit"], p0["dfn"], p0["dmc"], tuple(r0))
            # an earlier call that RAISED (no peak in its range) leaves the object half updated (range and peaks written, rejection not run); the model's
            # store keeps the previous state on an error -- such histories are not judged
            if m.last_near_tie or r_ == "err":
                return False
        elif op[0] == "update":
            m.update(tuple(op[1]), kw_empty=op[2])
        elif op[0] == "subupdate":
            m.sub_update(op[1], tuple(op[2]), kw_empty=op[3])
    return True


def run_one(m, par):
    if par.get("kw"):
        ret = m.fdwra_kw(par["n"], par["maxit"], par["dfn"], par["dmc"], par["range"], kw_empty=True)
    else:
        ret = m.fdwra(par["n"], par["maxit"], par["dfn"], par["dmc"], par["range"])
    return ret, m.last_debug


def case_json(m, par):
    d = dict(kind=m.kind, freq=m.freq.tolist(), params=dict(par, range=list(par["range"])), pre=getattr(m, "pre_ops", []))
    if m.kind == "T":
        d["rows"] = m.rows.tolist()
    else:
        d["rows_per_az"] = [r.tolist() for r in m.rows_per_az]
        d["azimuths"] = m.azimuths
    return d


def masks_of(obj):
    import hvsrpy
    hs = obj.hvsrs if isinstance(obj, hvsrpy.HvsrAzimuthal) else [obj]
    return [[bool(b) for b in h.valid_peak_boolean_mask] for h in hs], [[bool(b) for b in h.valid_window_boolean_mask] for h in hs]


def run(ctx):
    import hvsrpy
    ctx.rule = ("cases = curve sets with planted outliers (traditional 5-40 windows; azimuthal 1-4 azimuths x 4-13 windows; half of the azimuthal and 15 % of the "
                "traditional objects arrive from a time-domain rejection with hvsr=...), n in {0.5..3}, "
                "max_iterations in {1,2,3,50}, 4 distribution pairs, search ranges; compared: return value, both masks, per-iteration DEBUG "
                "trace (statistics and mean-curve peak); probes on the implementation: permutation of windows, rescaling of amplitudes, "
                "monotone masks; non-trivial = >=1 window rejected or the iteration limit reached; distinct by input hash")
    ctx.trusted += ["exact float ties between a peak frequency and a rejection bound are decided by rounding (margins: near ties are skipped and counted)"]
    rng = np.random.default_rng(ctx.seed)
    n = ctx.budget(160, 2500)
    cases = []
    lines = []
    nsc = ctx.budget(500, 6000)
    for i in range(n + nsc):
        kind = "T" if i % 3 != 2 else "A"
        if i % 40 == 7:
            m, par = gen_exact_zero_case(rng, i + 1)
        elif i % 40 == 27:
            m, par = gen_exact_tie_case(rng, i + 1)
            ctx.count("exact_tie_with_the_0.01_limit")
        elif i % 20 in (11, 17) and i < n:
            m, par = gen_two_resonance_case(rng, i + 1) if i % 20 == 11 else gen_sub_azimuth_case(rng, i + 1)
            if not apply_pre_history(m, m.pre_ops):
                ctx.near_tie_skipped += 1
                continue
            ctx.count("pre_history:" + ("two-resonances" if i % 20 == 11 else "one-azimuth-on-its-own"))
            ret, dbg = run_one(m, par)
            idx = len(lines) + len(m.lines) - 1
            lines += m.lines
            cases.append((m, par, ret, dbg, idx, (m.last_near_index if m.last_near_tie else None)))
            continue
        else:
            m, par = gen_fdwra_case(rng, i + 1, kind) if i < n else gen_scatter_case(rng, i + 1)
        entry = None
        # a third of the generic cases: the object has a HISTORY (an earlier rejection with another range, a peak update, an azimuth analysed on its own);
        # half of those pass find_peaks_kwargs={} to the judged call (the entry peak search may then be skipped per azimuth, by that azimuth's own stored range)
        m.pre_ops = []
        if i < n and i % 40 not in (7, 27) and rng.random() < (0.6 if m.kind == "A" else 0.34):
            m.pre_ops = gen_pre_history(rng, m)
            if not apply_pre_history(m, m.pre_ops):
                ctx.near_tie_skipped += 1
                ctx.count("near_tie_or_error_in_pre_history")
                continue
            if m.pre_ops:
                par = dict(par, kw=bool(rng.random() < 0.5))
                ctx.count("pre_history:" + m.pre_ops[0][0] + ("+kw" if par["kw"] else ""))
        ret, dbg = run_one(m, par)
        idx = len(lines) + len(m.lines) - 1
        lines += m.lines
        cases.append((m, par, ret, dbg, idx, (m.last_near_index if m.last_near_tie else None)))
    outs = run_driver(lines)
    for (m, par, ret, dbg, idx, near) in cases:
        if near is not None:
            # a decision of iteration `near` is within rounding distance of its threshold: final masks and count are not
            # compared, but the statistics of all earlier iterations (which reflect every earlier decision) still are
            ctx.near_tie_skipped += 1
            ctx.count("near_tie_cases")
            tt = Toks(outs[idx])
            if m.kind == "T" and tt.tok() == "ok" and near > 0:
                tt.nat(); hvgen.parse_obj(tt)
                if tt.tok() == "trace":
                    nt = tt.nat()
                    for j in range(min(nt, near)):
                        vals = [tt.oflt(), tt.oflt(), tt.flt(), tt.oflt(), tt.oflt(), tt.oflt(), tt.oflt(), tt.flt()]
                        for key, v in zip(TRACE_KEYS, vals):
                            if key is None or key not in dbg[j] or key.startswith("mc_peak"):
                                continue
                            a = dbg[j][key]; a = None if a != a else a
                            if not close(a, v, float(np.max(m.freq)), 1e-8):
                                ctx.violation("iteration-statistics", dict(case=case_json(m, par), iteration=j + 1, key=key, impl=a, model=v, before_near_tie_iteration=near + 1),
                                              seam="DEBUG trace of hvsrpy.window_rejection")
                    ctx.supporting["trace_iterations_compared_before_near_tie"] = ctx.supporting.get("trace_iterations_compared_before_near_tie", 0) + min(nt, near)
            continue
        t = Toks(outs[idx])
        tag = t.tok()
        cj = case_json(m, par)
        ctx.traces += 1
        vp, vw = masks_of(m.obj)
        rejected = sum(1 for mk in vp for b in mk if not b)
        ctx.case(cj, nontrivial=(ret != "err" and (rejected > 0 or ret == par["maxit"])),
                 sample=dict(kind=m.kind, n_windows=m.nwin(), params=cj["params"], returned=ret, rejected=rejected))
        ctx.count("ret:" + ("err" if ret == "err" else "limit" if ret == par["maxit"] else "converged"))
        ctx.count("kind:" + m.kind)
        if tag == "err":
            if ret != "err":
                ctx.violation("decisions-and-count-equal-published-algorithm", dict(case=cj, impl_return=ret, model="err " + " ".join(t.rest())),
                              seam="frequency_domain_window_rejection")
            continue
        k = t.nat()
        mo = hvgen.parse_obj(t)
        if ret == "err":
            ctx.violation("decisions-and-count-equal-published-algorithm", dict(case=cj, impl_return="exception", model_return=k),
                          seam="frequency_domain_window_rejection")
            continue
        mo_h = mo["hvsrs"] if mo["kind"] == "A" else [mo]
        mo_vp = [h["vpeak"] for h in mo_h]
        mo_vw = [h["vwin"] for h in mo_h]
        if k != ret or mo_vp != vp or mo_vw != vw:
            # a window whose peak sits within rounding distance of a bound may legitimately flip
            near = False
            for it in dbg:
                pass
            ctx.violation("decisions-and-count-equal-published-algorithm",
                          dict(case=cj, impl_return=ret, model_return=k, impl_valid_peak=vp, model_valid_peak=mo_vp,
                               impl_valid_window=vw, model_valid_window=mo_vw), seam="frequency_domain_window_rejection")
            continue
        if not (1 <= ret <= par["maxit"]):
            ctx.violation("at-most-max-iterations", dict(case=cj, impl_return=ret), seam="frequency_domain_window_rejection")
        # trace (traditional only: the model reports one trace entry per iteration)
        if m.kind == "T" and t.tok() == "trace":
            nt = t.nat()
            for j in range(nt):
                vals = [t.oflt(), t.oflt(), t.flt(), t.oflt(), t.oflt(), t.oflt(), t.oflt(), t.flt()]
                if j < len(dbg):
                    for key, v in zip(TRACE_KEYS, vals):
                        if key is None or key not in dbg[j]:
                            continue
                        a = dbg[j][key]
                        a = None if a != a else a
                        # the peak of the mean curve per iteration is an argmax of a computed curve (rounding ties): compared only where the two resonances of
                        # the planted curves are an octave apart (strict_mc), and at the final state below
                        if not close(a, v, float(np.max(m.freq)), 1e-8) and not (key.startswith("mc_peak") and not getattr(m, "strict_mc", False)):
                            ctx.violation("iteration-statistics", dict(case=cj, iteration=j + 1, key=key, impl=a, model=v),
                                          seam="DEBUG trace of hvsrpy.window_rejection")
                if j == nt - 1 and j < len(dbg) and "mc_peak_frq_after" in dbg[j]:
                    # the peak of the mean curve of the FINAL state: compared too, unless the mean curve has two (nearly) equally high maxima
                    a, v = dbg[j]["mc_peak_frq_after"], vals[7]
                    if not close(a, v, float(np.max(m.freq)), 1e-8):
                        try:
                            dmc = {"log-normal": "lognormal"}.get(par["dmc"], par["dmc"])
                            mc = np.asarray(m.obj.mean_curve(distribution=dmc), dtype=float)
                            ia, iv = int(np.argmin(np.abs(m.freq - a))), int(np.argmin(np.abs(m.freq - v)))
                            tie = abs(mc[ia] - mc[iv]) <= 1e-9 * max(abs(mc[ia]), abs(mc[iv]))
                        except Exception:  # noqa
                            tie = False
                        if tie:
                            ctx.near_tie_skipped += 1
                        else:
                            ctx.violation("iteration-statistics", dict(case=cj, iteration=j + 1, key="mc_peak_frq_after", impl=a, model=v,
                                                                       note="peak of the mean curve of the final state"),
                                          seam="DEBUG trace of hvsrpy.window_rejection")
            ctx.supporting["trace_iterations_compared"] = ctx.supporting.get("trace_iterations_compared", 0) + min(nt, len(dbg))
    # metamorphic probes on the implementation (supporting tests)
    npb = ctx.budget(40, 400)
    for i in range(npb):
        m, par = gen_fdwra_case(rng, 1, "T")
        rows, freq = m.rows, m.freq
        base = hvsrpy.HvsrTraditional(freq, rows)
        base.update_peaks_bounded(search_range_in_hz=par["range"])
        entry_vp = base.valid_peak_boolean_mask.copy()

        nears = []

        def go(r):
            h = hvsrpy.HvsrTraditional(freq, r)
            k, _dbg, near = hvgen.fdwra_with_trace(h, par["n"], par["maxit"], par["dfn"], par["dmc"], par["range"])
            nears.append(near)
            if k == "err":
                return "err", None
            return k, h.valid_peak_boolean_mask.copy()
        k0, m0 = go(rows)
        if k0 == "err":
            continue
        ctx.supporting["metamorphic_cases"] = ctx.supporting.get("metamorphic_cases", 0) + 1
        if np.any(m0 & ~entry_vp):
            ctx.violation("never-re-accepts", dict(case=case_json(m, par), entry_mask=entry_vp.tolist(), final_mask=m0.tolist()),
                          seam="frequency_domain_window_rejection")
        perm = rng.permutation(len(rows))
        k1, m1 = go(rows[perm])
        c = float(rng.choice([0.125, 0.5, 2.0, 8.0, 1024.0]))
        k2, m2 = go(rows * c)
        if any(nears):
            ctx.near_tie_skipped += 1
            continue
        if k1 != "err" and (k1 != k0 or not np.array_equal(m1, m0[perm])):
            ctx.violation("order-of-windows-irrelevant", dict(case=case_json(m, par), permutation=perm.tolist(), base=[k0, m0.tolist()],
                                                             permuted=[k1, m1.tolist()]), seam="frequency_domain_window_rejection")
        if k2 != "err" and (k2 != k0 or not np.array_equal(m2, m0)):
            ctx.violation("amplitude-rescaling-irrelevant", dict(case=case_json(m, par), factor=c, base=[k0, m0.tolist()],
                                                                scaled=[k2, m2.tolist()]), seam="frequency_domain_window_rejection")


def replay(case):
    par = dict(case["params"], range=tuple(case["params"]["range"]))
    m = Mirror.trad(1, case["freq"], case["rows"]) if case["kind"] == "T" else Mirror.az(1, case["freq"], case["rows_per_az"], case["azimuths"])
    apply_pre_history(m, case.get("pre", []))
    ret, dbg = run_one(m, par)
    outs = run_driver(m.lines)
    return dict(impl_return=ret, impl_masks=masks_of(m.obj), model=outs[-1][:400])
