"""C02 -- smoothing operators are the published normalised kernels: compiled and interpreted code vs Model/Smoothing.lean"""
import numpy as np

from common import *

PROP_MODULES = ["HvsrVerif.Props.C02"]
BRIDGE_MODULES = ["HvsrVerif.Bridge.C02", "HvsrVerif.Bridge.PyWindows"]

OPS = ["konno_and_ohmachi", "parzen", "savitzky_and_golay", "linear_rectangular", "log_rectangular", "linear_triangular", "log_triangular"]
LOGBW = {"konno_and_ohmachi", "log_rectangular", "log_triangular"}


def gen_bw(rng, name, df):
    if name == "konno_and_ohmachi":
        return float(rng.choice([5, 10, 20, 40, 80, rng.uniform(3, 120)]))
    if name in ("log_rectangular", "log_triangular"):
        return float(rng.choice([0.02, 0.05, 0.1, 0.3, rng.uniform(0.01, 0.6)]))
    if name == "savitzky_and_golay":
        return float(rng.choice([1, 3, 5, 9, 21, 4, 9.7]))
    return float(rng.choice([0.5, 2 * df, 5 * df, 0.1, rng.uniform(df * 0.5, df * 12)]))


def gen_case(rng, name):
    n = int(rng.integers(8, 130))
    dt = float(rng.choice([1 / 50, 1 / 75, 1 / 100, 1 / 128, 1 / 250, 0.01, 0.004]))
    freq = np.fft.rfftfreq(n, dt)
    if name != "savitzky_and_golay" and rng.random() < 0.15:
        freq = np.sort(rng.uniform(0, freq[-1], len(freq)))     # non-FFT grid
    nf = len(freq)
    df = float(freq[1] - freq[0]) if nf > 1 else 1.0
    order = None
    if name != "savitzky_and_golay" and rng.random() < 0.12:
        # the samples of a spectrum may be stored in any order (descending, shuffled): the kernels are sums over samples
        order = np.arange(nf)[::-1] if rng.random() < 0.5 else rng.permutation(nf)
    nrows = int(rng.integers(1, 6))
    kind = rng.choice(["noise", "const", "poly", "spiky"])
    if kind == "const":
        rows = np.full((nrows, nf), 1.0) * rng.uniform(0.1, 10, (nrows, 1))
    elif kind == "poly":
        x = freq / max(freq[-1], 1e-9)
        rows = np.array([np.abs(rng.uniform(-2, 2) * x ** 3 + rng.uniform(-2, 2) * x ** 2 + rng.uniform(-2, 2) * x + rng.uniform(1, 3)) for _ in range(nrows)])
    elif kind == "spiky":
        rows = np.abs(rng.normal(0, 1, (nrows, nf))) ** 3
    else:
        rows = np.abs(rng.normal(0, 1, (nrows, nf))) * 10.0 ** rng.integers(-6, 7)
    nc = int(rng.integers(3, 25))
    fcs = []
    for _ in range(nc):
        u = rng.random()
        if u < 0.35:
            fcs.append(float(freq[int(rng.integers(0, nf))]))                     # on grid (incl. 0 Hz)
        elif u < 0.7:
            fcs.append(float(rng.uniform(0, freq[-1])))                            # off grid
        elif u < 0.78:
            fcs.append(float(rng.uniform(0, freq[1] if nf > 1 else 1) * 0.5))       # below the first bin
        elif u < 0.86:
            fcs.append(float(freq[-1] * rng.uniform(1.0, 1.5)))                     # above the last
        elif u < 0.92:
            fcs.append(float(rng.choice([0.0, 5e-7, 9.9e-7, 1.1e-6])))              # around the 1e-6 guard
        else:
            fcs.append(float(freq[int(rng.integers(0, nf))] + rng.choice([-1, 1]) * 5e-7))   # within 1e-6 of a bin
    bw = gen_bw(rng, name, df)
    if name != "savitzky_and_golay" and rng.random() < 0.1 and nf > 3:
        # a bin that holds inf or NaN (a spectral ratio with an empty denominator): only the centre frequencies whose window contains that
        # bin may be affected -- samples outside a window have no weight at all
        rows = rows.copy()
        rows[int(rng.integers(0, nrows)), int(rng.integers(1, nf))] = float(rng.choice([np.inf, np.nan]))
        kind = "nonfinite"
    if order is not None:
        freq = freq[order]; rows = rows[:, order]
    case = dict(op=name, bw=bw, freq=freq.tolist(), rows=rows.tolist(), fcs=fcs, kind=str(kind), n=n, dt=dt, sample_order=("as-generated" if order is None else "permuted"))
    if rng.random() < 0.12 and freq[-1] >= 3:
        # whole-number centre frequencies handed over as an integer (or single-precision) array, as np.array([1, 2, 5, 10]) or
        # np.arange(...) in a settings object gives: the values are the same numbers, so must the result be
        top = int(np.floor(freq[-1]))
        case["fcs"] = [float(x) for x in sorted(set(int(v) for v in rng.integers(1, top + 1, nc)))]
        case["fcs_dtype"] = str(rng.choice(["int64", "int32", "float32"]))
    return case


def gen_exact_case(rng, name):
    """dyadic grid (df = 0.25 Hz), on-grid centre frequencies and a bandwidth that is an even multiple of df: samples sit
    EXACTLY on both window edges; every quantity in the limit test is exactly representable, so the case is compared exactly"""
    n = int(rng.choice([200, 400, 800])); dt = {200: 0.02, 400: 0.01, 800: 0.005}[n]
    freq = np.fft.rfftfreq(n, dt)                      # multiples of 0.25
    nf = len(freq)
    nrows = int(rng.integers(1, 4))
    rows = rng.integers(1, 9, (nrows, nf)).astype(float)
    if rng.random() < 0.5:
        rows = 1.0 + np.tile(freq, (nrows, 1))          # ramp: an asymmetric window shifts the average
    fcs = [float(freq[int(rng.integers(8, nf - 8))]) for _ in range(6)]
    bw = float(0.25 * 2 * int(rng.integers(1, 5)))      # 0.5, 1.0, 1.5, 2.0
    if rng.random() < 0.5:
        # centre frequencies half way between two bins and a bandwidth that is an odd multiple of df: again samples exactly on both edges; with bw = df the
        # two edge samples are the ONLY ones reached, and a triangular window gives both the weight 0 -- a column without any weight is 0, not 0/0
        # (seed C02-W of round 9)
        fcs = [f + 0.125 if j % 3 else f for j, f in enumerate(fcs)]
        bw = float(0.25 * (2 * int(rng.integers(0, 4)) + 1))   # 0.25, 0.75, 1.25, 1.75
    return dict(op=name, bw=bw, freq=freq.tolist(), rows=rows.tolist(), fcs=fcs, kind="exact", n=n, dt=dt)


def impl(case, interpreted):
    import hvsrpy.smoothing as sm
    f = np.array(case["freq"]); rows = np.array(case["rows"]); fcs = np.array(case["fcs"], dtype=case.get("fcs_dtype", "float64"))
    fn = sm.SMOOTHING_OPERATORS[case["op"]]
    try:
        if interpreted:
            if hasattr(fn, "py_func"):
                out = fn.py_func(f, rows, fcs, case["bw"])
            else:
                old = sm._savitzky_and_golay
                sm._savitzky_and_golay = old.py_func
                try:
                    out = fn(f, rows, fcs, case["bw"])
                finally:
                    sm._savitzky_and_golay = old
        else:
            out = fn(f, rows, fcs, case["bw"])
        return np.asarray(out, dtype=float)
    except (ValueError, IndexError, ZeroDivisionError) as e:
        return "err"


def impl_compiled(case):
    return impl(case, False)


def model_line(case):
    return f"smooth {case['op']} {hexf(case['bw'])} {fvec(case['freq'])} {fmat(case['rows'])} {fvec(case['fcs'])}"


def parse(line):
    t = Toks(line)
    if t.tok() != "ok":
        return "err"
    return np.array(t.mat(), dtype=float)


def window_margin(case):
    """smallest relative distance of any sample from a window limit / guard (python mirror, used only to classify near ties)"""
    f = np.array(case["freq"]); bw = case["bw"]; name = case["op"]
    m = 1e9
    for fc in case["fcs"]:
        m = min(m, abs(fc - 1e-6) / 1e-6)
        if fc < 1e-6:
            continue
        g = f[f > 0]
        m = min(m, float(np.min(np.abs(f - 1e-6))) / 1e-6)
        m = min(m, float(np.min(np.abs(np.abs(f - fc) - 1e-6))) / 1e-6)
        if name in ("linear_rectangular", "linear_triangular"):
            m = min(m, float(np.min(np.abs(np.abs(f - fc) - bw / 2))) / max(bw / 2, 1e-300))
        elif name == "parzen":
            up = np.sqrt(6) * (np.pi * 280 / (2 * 151)) / bw
            m = min(m, float(np.min(np.abs(np.abs(f - fc) - up))) / up)
        elif name == "konno_and_ohmachi" and len(g):
            m = min(m, float(np.min(np.abs(np.abs(np.log10(g / fc)) - 3 / bw))) / (3 / bw))
        elif len(g):
            m = min(m, float(np.min(np.abs(np.abs(np.log10(g / fc)) - bw / 2))) / (bw / 2))
    return m


def sg_margin(case):
    f = np.array(case["freq"])
    if len(f) < 2:
        return 1e9
    x = (np.array(case["fcs"]) - f.min()) / (f[1] - f[0])
    return float(np.min(np.abs(x - np.floor(x) - 0.5)))


def spec_probes(ctx, case, out):
    """clauses of the property evaluated on the implementation output (find the failing input when model and code drift)"""
    if isinstance(out, str):
        return
    rows = np.array(case["rows"]); name = case["op"]
    if not np.all(np.isfinite(rows)):
        return          # the bounds / linearity probes are stated for finite spectra
    scale = float(np.max(rows)) if rows.size else 1.0
    # row independence: smoothing one row alone gives the same row
    if len(rows) > 1:
        k = 0
        alone = impl(dict(case, rows=[case["rows"][k]]), False)
        if not isinstance(alone, str) and not np.allclose(alone[0], out[k], rtol=1e-12, atol=0):
            ctx.violation("rows-smoothed-independently", dict(case=case, row=k, joint=out[k].tolist(), alone=alone[0].tolist()),
                          seam="SMOOTHING_OPERATORS[%s]" % name)
    # constant spectrum reproduced wherever the window is not empty; bounds for the non-negative kernels
    if case["kind"] == "const":
        c = rows[:, :1]
        bad = ~((np.abs(out - c) <= 1e-9 * c) | (out == 0))
        if np.any(bad):
            ctx.violation("constant-spectrum-reproduced", dict(case=case, output=out.tolist()), seam="SMOOTHING_OPERATORS[%s]" % name)
    if name != "savitzky_and_golay":
        lo, hi = rows.min(axis=1, keepdims=True), rows.max(axis=1, keepdims=True)
        if np.any(out < lo * (1 - 1e-9) - 1e-300) and np.any((out < lo * (1 - 1e-9)) & (out != 0)) or np.any(out > hi * (1 + 1e-9)):
            ctx.violation("output-between-min-and-max", dict(case=case, output=out.tolist()), seam="SMOOTHING_OPERATORS[%s]" % name)
    # linearity
    a = 3.0
    out2 = impl(dict(case, rows=(rows * a).tolist()), False)
    if not isinstance(out2, str) and not np.allclose(out2, a * out, rtol=1e-10, atol=1e-300):
        ctx.violation("operator-is-linear", dict(case=case, factor=a), seam="SMOOTHING_OPERATORS[%s]" % name)


def run(ctx):
    ctx.rule = ("cases = operator x grid (rfftfreq(n, dt) incl. the 0 Hz bin, some irregular grids) x spectra (1-5 rows: noise over 12 decades, constant, "
                "cubic polynomial, spiky) x centre frequencies (on grid, off grid, below first bin, above last, around the 1e-6 guard, within 1e-6 of a bin; whole numbers passed as int64/int32/float32 arrays) x sample order (ascending; descending / shuffled in 12 %) x "
                "bandwidths over 2-3 decades (SG: m in {1,3,5,9,21}, even and fractional m); compiled AND interpreted (.py_func) implementation vs model; "
                "non-trivial = >=1 centre frequency with >=2 contributing samples and a non-constant row; distinct by input hash")
    ctx.trusted += ["np.power(10, x) vs exp(x ln 10) and libm sin/log10: 1e-9 relative tolerance; samples within 1e-9 (relative) of a window limit are near ties"]
    rng = np.random.default_rng(ctx.seed)
    n = ctx.budget(420, 6000)
    cases = [gen_case(rng, OPS[i % len(OPS)]) for i in range(n)]
    cases += [gen_exact_case(rng, ["linear_rectangular", "linear_triangular"][i % 2]) for i in range(ctx.budget(30, 300))]
    # twins: the SAME operator, grid, bandwidth and spectra called again right afterwards with other centre frequencies that agree with the first call's in
    # number, first and last value only (a result may depend on this call's arguments alone -- nothing may be remembered from the call before)
    with_twins = []
    for i, c in enumerate(cases):
        with_twins.append(c)
        if i % 5 == 0 and c["kind"] != "exact" and len(c["fcs"]) >= 3 and "fcs_dtype" not in c:
            lo, hi = min(c["fcs"][0], c["fcs"][-1]), max(c["fcs"][0], c["fcs"][-1])
            inner = [float(x) for x in rng.uniform(lo, hi, len(c["fcs"]) - 2)] if hi > lo else c["fcs"][1:-1][::-1]
            with_twins.append(dict(c, fcs=[c["fcs"][0]] + inner + [c["fcs"][-1]], twin=True))
    # a REFUSED call (Savitzky-Golay with an even number of points) followed by the legitimate call with one point fewer on the same data: a refusal leaves
    # nothing behind
    with_after = []
    for c in with_twins:
        with_after.append(c)
        if c["op"] == "savitzky_and_golay" and float(c["bw"]) == int(c["bw"]) and int(c["bw"]) % 2 == 0 and int(c["bw"]) >= 2 and not c.get("twin"):
            with_after.append(dict(c, bw=float(int(c["bw"]) - 1), twin=True))
    cases = with_after
    outs = run_driver([model_line(c) for c in cases])
    for i, (c, o) in enumerate(zip(cases, outs)):
        mo = parse(o)
        comp = impl(c, False)
        interp = impl(c, True) if (i % 3 == 0 or ctx.tier == "thorough") else None
        rows = np.array(c["rows"])
        scale = float(np.max(rows[np.isfinite(rows)])) if np.any(np.isfinite(rows)) else 1.0
        nz = (not isinstance(comp, str)) and bool(np.any(comp != 0))
        ctx.case((c["op"], c["bw"], c["freq"], c["rows"], c["fcs"]), nontrivial=nz and c["kind"] != "const",
                 sample=dict(op=c["op"], bw=c["bw"], nfreq=len(c["freq"]), nrows=len(c["rows"]), fcs=c["fcs"][:4], kind=c["kind"],
                             impl_first_row=(comp[0][:4].tolist() if not isinstance(comp, str) else comp)))
        ctx.count("op:" + c["op"])
        if c.get("twin"):
            ctx.count("second-call-twin")
        ctx.count("kind:" + c["kind"])
        ctx.count("fcs_dtype:" + c.get("fcs_dtype", "float64"))
        ctx.count("sample_order:" + c.get("sample_order", "as-generated"))
        ctx.count("result:" + ("err" if isinstance(comp, str) else "zero-cols" if np.any(np.all(comp == 0, axis=0)) else "full"))
        ctx.traces += 1

        def differs(a, b):
            if isinstance(a, str) or isinstance(b, str):
                return not (isinstance(a, str) and isinstance(b, str))
            if a.shape != b.shape:
                return True
            fin = np.isfinite(a) & np.isfinite(b)
            # non-finite entries (a spectrum may hold inf / NaN bins) must be non-finite of the same kind on both sides
            same_nonfinite = (np.isnan(a) & np.isnan(b)) | ((a == b) & ~fin)
            with np.errstate(invalid="ignore"):
                close_fin = np.abs(a - b) <= RTOL * np.maximum(np.abs(a), np.abs(b)) + ATOL_SCALE * scale
            return not np.all(np.where(fin, close_fin, same_nonfinite))
        for label, im in (("compiled", comp), ("interpreted", interp)):
            if im is None:
                continue
            if differs(im, mo):
                near = (sg_margin(c) < 1e-6) if c["op"] == "savitzky_and_golay" else (window_margin(c) < 1e-9)
                if near and c["kind"] != "exact":
                    ctx.near_tie_skipped += 1
                    continue
                ctx.violation("weight-normalised-average-under-published-kernel",
                              dict(case=c, which=label, impl=(im if isinstance(im, str) else im.tolist()),
                                   model=(mo if isinstance(mo, str) else mo.tolist())), seam="SMOOTHING_OPERATORS[%s] (%s)" % (c["op"], label))
        if interp is not None and differs(comp, interp):
            ctx.violation("compiled-equals-interpreted", dict(case=c), seam="numba kernel vs py_func")
        if i % 4 == 0:
            spec_probes(ctx, c, comp)
            ctx.supporting["spec_probe_cases"] = ctx.supporting.get("spec_probe_cases", 0) + 1
    reverse_order_probe(ctx, "c02", "impl_compiled", cases, "weight-normalised-average-under-published-kernel", "SMOOTHING_OPERATORS called in another order / fresh interpreter")


def replay(case):
    comp, interp = impl(case, False), impl(case, True)
    mo = parse(run_driver([model_line(case)])[0])
    f = lambda x: x if isinstance(x, str) else x.tolist()
    return dict(compiled=f(comp), interpreted=f(interp), model=f(mo))
