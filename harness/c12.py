"""C12 -- HVSR results survive a write/read round trip after any history"""
import json
import os
import numpy as np

from common import *
import hvgen
import hvhist
from hvgen import Mirror

PROP_MODULES = ["HvsrVerif.Props.C12"]
BRIDGE_MODULES = ["HvsrVerif.Bridge.C12", "HvsrVerif.Bridge.PyObjectIO"]


def parse_file(fname):
    """independent parse of the text format: json header, label line, numeric columns"""
    with open(fname) as f:
        lines = f.readlines()
    hdr = [l[2:] for l in lines if l.startswith("#")]
    meta = json.loads("\n".join(hdr[:-1]))
    labels = hdr[-1].strip().split(",")
    data = np.array([[float(x) for x in l.split(",")] for l in lines if not l.startswith("#")])
    return meta, labels, data


def bits_equal(a, b):
    a = np.ascontiguousarray(a, dtype=np.float64); b = np.ascontiguousarray(b, dtype=np.float64)
    return a.shape == b.shape and np.array_equal(a.view(np.uint64), b.view(np.uint64))


def check_roundtrip(ctx, h, rng, idx):
    import hvsrpy
    m = h["mirror"]
    obj = m.obj
    case = hvhist.history_json(h)
    dmc, dfn = str(rng.choice(hvgen.DISTS)), str(rng.choice(hvgen.DISTS))
    case["distribution_mc"] = dmc
    os.makedirs(WORK, exist_ok=True)
    fname = os.path.join(WORK, f"c12_{idx}.csv")
    ctx.count("kind:" + m.kind)
    # preconditions of the property: at least two accepted windows (per azimuth)
    hs = obj.hvsrs if m.kind == "A" else [obj]
    if any(int(np.sum(x.valid_window_boolean_mask)) < 2 or int(np.sum(x.valid_peak_boolean_mask)) < 1 for x in hs):
        ctx.count("skipped:fewer-than-two-accepted")
        return None
    if m.kind == "A" and any(not np.array_equal(x.valid_window_boolean_mask, x.valid_peak_boolean_mask) for x in hs):
        ctx.count("skipped:window-and-peak-masks-differ-azimuthal")     # azimuthal mean curve is undefined then (shape error)
        return None
    obj.meta["processing_method"] = "traditional" if m.kind == "T" else "azimuthal"   # set by process() for real results
    before_stats = {d: hvgen.impl_stats(obj, d) for d in hvgen.DISTS}
    before_state = hvgen.impl_state(obj)
    try:
        hvsrpy.write_hvsr_object_to_file(obj, fname, distribution_mc=dmc, distribution_fn=dfn)
    except hvgen.STAT_ERRS as e:
        ctx.violation("write-succeeds-for-valid-object", dict(case=case, error=type(e).__name__ + ": " + str(e)[:100]), seam="write_hvsr_object_to_file")
        return None
    ctx.traces += 1
    meta, labels, data = parse_file(fname)
    rows = np.vstack([x.amplitude for x in hs])
    # columns: frequency, curves (bit for bit), derived columns of the object written
    if not (bits_equal(data[:, 0], obj.frequency) and bits_equal(data[:, 1:-2].T, rows)):
        ctx.violation("same-curves-bit-for-bit", dict(case=case, where="file columns"), seam="file columns")
    mc, sc = np.asarray(obj.mean_curve(dmc)), np.asarray(obj.std_curve(dmc))
    if not (np.allclose(data[:, -2], mc, rtol=1e-15, atol=0) and np.allclose(data[:, -1], sc, rtol=1e-15, atol=0)):
        ctx.violation("derived-columns-are-those-of-the-object-written", dict(case=case, file_mean=data[:5, -2].tolist(), object_mean=mc[:5].tolist()), seam="file columns")
    back = hvsrpy.read_hvsr_object_from_file(fname)
    os.remove(fname)
    after_state = hvgen.impl_state(back)
    bad = hvgen.cmp_state(before_state, after_state)
    bhs = back.hvsrs if m.kind == "A" else [back]
    if len(bhs) != len(hs) or not all(bits_equal(a.amplitude, b.amplitude) and bits_equal(a.frequency, b.frequency) for a, b in zip(hs, bhs)):
        bad.append("amplitude")
    if m.kind == "A" and [float(a) for a in back.azimuths] != [float(a) for a in obj.azimuths]:
        bad.append("azimuths")
    if bad:
        ctx.violation("read-back-equals-written-object", dict(case=case, differing=bad, before=before_state, after=after_state), seam="read_hvsr_object_from_file")
        return None
    for d in hvgen.DISTS:
        st = hvgen.impl_stats(back, d)
        bk, _ = hvgen.cmp_stats(before_stats[d], st, rtol=0.0)
        if bk:
            ctx.violation("same-value-of-every-statistic", dict(case=case, distribution=d, differing=bk), seam="statistics after read")
    return dict(dmc=dmc, derived_mean=data[:, -2].tolist(), derived_std=data[:, -1].tolist(), state=before_state)


def witness_c12c():
    """corpus: witness of repaired defect C12-c (azimuthal meta range stale after FDWRA) -- always runs first"""
    freq = np.geomspace(0.4, 17.0, 24)
    wr = np.random.default_rng(12)
    rows = [hvgen.gen_curve_set(wr, freq, 4, outliers=False) for _ in range(2)]
    m = Mirror.az(1, freq, rows, [0.0, 90.0])
    steps = [dict(op=None, ret=None, state=hvgen.impl_state(m.obj))]
    for op in [("update", (None, float(freq[20])), False), ("fdwra", 3.0, 1, "normal", "normal", (None, None))]:
        ret = hvgen.apply_op(m, op)
        steps.append(dict(op=op, ret=ret, state=hvgen.impl_state(m.obj), near_tie=bool(op[0] == "fdwra" and m.last_near_tie)))
    return dict(mirror=m, steps=steps)


def witness_c12d(ctx):
    """corpus: witness of repaired defect C12-d -- two ADJACENT equal azimuths (one direction measured twice) were merged into one block by the reader,
    which started a new azimuth only where the label changed -- runs first on every run (the shared history generator produces such lists too)"""
    import hvsrpy
    freq = np.geomspace(0.4, 17.0, 24)
    wr = np.random.default_rng(124)
    rows = [hvgen.gen_curve_set(wr, freq, 3, outliers=False) for _ in range(2)]
    m = Mirror.az(1, freq, rows, [15.0, 15.0])
    m.obj.meta["processing_method"] = "azimuthal"
    fname = os.path.join(WORK, "c12_witness_d.csv")
    try:
        hvsrpy.write_hvsr_object_to_file(m.obj, fname)
        back = hvsrpy.read_hvsr_object_from_file(fname)
        n_back = len(back.hvsrs)
        bad = [] if n_back == 2 and [len(x.amplitude) for x in back.hvsrs] == [3, 3] and list(back.azimuths) == [15.0, 15.0] else ["n_azimuths"]
        bad += hvgen.cmp_state(hvgen.impl_state(m.obj), hvgen.impl_state(back)) if not bad else []
        err = None
    except Exception as e:     # noqa: a reader that fails on the merged block is the same finding
        n_back, bad, err = None, ["n_azimuths"], f"{type(e).__name__}: {e}"[:120]
    finally:
        if os.path.exists(fname):
            os.remove(fname)
    ctx.supporting["witness_c12d_azimuths_read_back"] = n_back
    if bad:
        ctx.violation("read-back-equals-written-object",
                      dict(case=dict(kind="A", freq=freq.tolist(), rows_per_az=[r.tolist() for r in rows], azimuths=[15.0, 15.0], ops=[]),
                           adjacent_equal_azimuths=True, differing=bad, azimuths_written=2, azimuths_read_back=n_back, error=err),
                      seam="read_hvsr_object_from_file")


def single_window_blocks(ctx, rng):
    """azimuths that hold ONE window each, next to one another and next to longer blocks (a single long window per azimuth is what an azimuthal analysis of
    one recording gives): the curve numbering of every block then reads 1, 1, 1, ... (seed C12-W of round 9 split blocks where the numbering decreases)"""
    import hvsrpy
    for j in range(ctx.budget(8, 60)):
        naz = int(rng.integers(2, 7))
        counts = [1] * naz if j % 3 == 0 else [int(rng.choice([1, 1, 2, 3])) for _ in range(naz)]
        freq = hvgen.gen_freq(rng)
        rows = [hvgen.gen_curve_set(rng, freq, k, outliers=False) for k in counts]
        azs = sorted(float(a) for a in rng.choice(np.arange(0, 180, 5), naz, replace=False))
        if j % 2 == 0:
            # ... and equal neighbours among them ([30, 30, 120] holding [1, 3, 2] windows): only the restart of the numbering at one separates the two blocks
            # (seed C12-Y of round 10 compared "numbering drops", which misses a one-window block in front of its twin)
            k = int(rng.integers(0, naz - 1))
            azs[k + 1] = azs[k]
        if j % 4 == 1:
            azs[0] = float(rng.choice([1e-05, 2.5e-06, 1e-10]))     # printed without a decimal point ('1e-05'): the witness class of repaired defect C12-b
        m = Mirror.az(7000 + j, freq, rows, azs)
        m.obj.meta["processing_method"] = "azimuthal"
        fname = os.path.join(WORK, f"c12_s{j}.csv")
        case = dict(kind="A", freq=np.asarray(freq).tolist(), rows_per_az=[np.asarray(r).tolist() for r in rows], azimuths=azs, ops=[])
        try:
            hvsrpy.write_hvsr_object_to_file(m.obj, fname)
            back = hvsrpy.read_hvsr_object_from_file(fname)
            bad = hvgen.cmp_state(hvgen.impl_state(m.obj), hvgen.impl_state(back))
            got = [len(h.amplitude) for h in back.hvsrs]
        except hvgen.STAT_ERRS + (KeyError, IndexError) as e:
            bad, got = ["error: " + type(e).__name__ + ": " + str(e)[:80]], None
        finally:
            if os.path.exists(fname):
                os.remove(fname)
        ctx.supporting["single_window_block_roundtrips"] = ctx.supporting.get("single_window_block_roundtrips", 0) + 1
        if bad:
            ctx.violation("read-back-equals-written-object", dict(case=case, windows_per_azimuth_written=counts, windows_per_azimuth_read_back=got, differing=bad),
                          seam="read_hvsr_object_from_file")


def run(ctx):
    ctx.rule = ("histories (range updates, FDWRA, time masks, manual rejections) on traditional and azimuthal objects, then write -> independent parse of the file "
                "(json header, labels, numeric columns) -> read back; compared bit for bit: frequencies, curves, masks, search range, peaks, every statistic; derived columns "
                "vs the object's own statistics and vs the model; the model replays the history and performs readTrad/readAz(write ...); plus diffuse-field curves; "
                "non-trivial = >=2 accepted and >=1 rejected window (per azimuth) with >=2 distinct peak frequencies; distinct by history hash")
    ctx.trusted += ["'%.18e' text, json and np.loadtxt are the identity on doubles (checked bit for bit on every case)", "Python float repr of the azimuth labels"]
    import hvsrpy
    rng = np.random.default_rng(ctx.seed)
    n = ctx.budget(100, 1500)
    witness_c12d(ctx)
    single_window_blocks(ctx, np.random.default_rng(ctx.seed + 12))
    hists = [witness_c12c()]
    for i in range(1, n):
        kind = "T" if i % 2 == 0 else "A"
        hists.append(hvhist.build_history(rng, i + 1, kind, int(rng.integers(0, 6)), with_stats=False))
    info = []
    for i, h in enumerate(hists):
        m = h["mirror"]
        if h["steps"] and any(s.get("near_tie") or s.get("ret") == "err" for s in h["steps"]):
            info.append(None)   # model state may legitimately differ after a near-tie/errored FDWRA run: implementation-only checks
            check_roundtrip(ctx, h, rng, i)
            continue
        r = check_roundtrip(ctx, h, rng, i)
        info.append(r)
        if r is not None:
            m.lines.append(f"hv.roundtrip {m.oid} {r['dmc']}")
    # model side
    lines, base = [], []
    for h in hists:
        base.append(len(lines)); lines += h["mirror"].lines
    outs = run_driver(lines)
    for h, b, r in zip(hists, base, info):
        m = h["mirror"]
        st = h["steps"][-1]["state"] if h["steps"] else None
        nt = False
        if st is not None:
            sts = st["hvsrs"] if st["kind"] == "A" else [st]
            nt = all(sum(x["vpeak"]) >= 2 and sum(x["vpeak"]) < len(x["vpeak"]) for x in sts)
        ctx.case(hvhist.history_json(h), nontrivial=nt, sample=dict(kind=m.kind, ops=[hvgen.op_json(s["op"])[0] for s in h["steps"][1:]], written=r is not None))
        if r is None:
            continue
        t = Toks(outs[b + len(m.lines) - 1])
        if t.tok() != "ok":
            ctx.violation("model-roundtrip", dict(case=hvhist.history_json(h), model=outs[b + len(m.lines) - 1][:200]), found_input=False, seam="driver")
            continue
        mo_state = hvgen.parse_obj(t)
        bad = hvgen.cmp_state(r["state"], mo_state)
        assert t.tok() == "derived"
        tag = t.tok(); mean = t.ovec() if tag == "ok" else None
        tag2 = t.tok(); std = t.ovec() if tag2 == "ok" else None
        scale = float(np.max(m.freq))
        if mean is None or not vclose(r["derived_mean"], mean, scale, 1e-8):
            bad.append("derived-mean")
        if std is None or not vclose(r["derived_std"], std, scale, 1e-8):
            bad.append("derived-std")
        if m.kind == "A":
            assert t.tok() == "runs"
            runs = t.nvec()
            if runs != [len(x) for x in m.rows_per_az]:
                bad.append("label-runs")
        if bad:
            ctx.violation("read-back-equals-written-object", dict(case=hvhist.history_json(h), differing=bad, impl_state=r["state"], model_state=mo_state), seam="model readTrad/readAz")
    # archived find_peaks keyword arguments (not modelled in Lean: implementation-side round trip)
    for j in range(ctx.budget(24, 240)):
        kind = "T" if j % 2 == 0 else "A"
        h = hvhist.build_history(rng, 5000 + j, kind, 0, with_stats=False)
        m = h["mirror"]; obj = m.obj
        obj.meta["processing_method"] = "traditional" if kind == "T" else "azimuthal"
        kw = [dict(prominence=float(rng.uniform(0.2, 2.0))), dict(height=float(rng.uniform(1.5, 4.0))), dict(distance=int(rng.integers(2, 6)))][j % 3]
        r = hvgen.gen_range(rng, m.freq) if j % 4 else (None, None)
        kw_caller = dict(kw)
        obj.update_peaks_bounded(search_range_in_hz=r, find_peaks_kwargs=kw_caller)
        if j % 2 == 1 or j % 4 == 0:
            # the caller goes on using ITS dictionary (for the next site): the object and the file must keep what was used
            for key in list(kw_caller):
                kw_caller[key] = 10 ** 6
            kw_caller["width"] = 10 ** 6
        hs = obj.hvsrs if kind == "A" else [obj]
        if any(int(np.sum(x.valid_window_boolean_mask)) < 2 or not np.array_equal(x.valid_window_boolean_mask, x.valid_peak_boolean_mask) for x in hs):
            continue
        fname = os.path.join(WORK, f"c12_k{j}.csv")
        try:
            hvsrpy.write_hvsr_object_to_file(obj, fname)
            back = hvsrpy.read_hvsr_object_from_file(fname)
        except hvgen.STAT_ERRS as e:
            ctx.violation("read-back-equals-written-object", dict(case=dict(kind=kind, freq=m.freq.tolist(), find_peaks_kwargs=kw, range=list(r)), error=str(e)[:100]),
                          seam="round trip with find_peaks_kwargs")
            continue
        finally:
            if os.path.exists(fname):
                os.remove(fname)
        ctx.supporting["kwargs_roundtrips"] = ctx.supporting.get("kwargs_roundtrips", 0) + 1
        bad = hvgen.cmp_state(hvgen.impl_state(obj), hvgen.impl_state(back))
        if bad:
            ctx.violation("read-back-equals-written-object", dict(case=dict(hvhist.history_json(h), find_peaks_kwargs=kw, range=list(r)), differing=bad),
                          seam="round trip with find_peaks_kwargs")
    # the caller passes ITS dictionary a second time after changing it in place: the second update must take effect (the object must not
    # have kept the caller's dictionary and then compare it with itself), and what is written must read back as the object's state
    for j in range(ctx.budget(16, 160)):
        kind = "T" if j % 2 == 0 else "A"
        h = hvhist.build_history(rng, 7000 + j, kind, 0, with_stats=False)
        m = h["mirror"]; obj = m.obj
        h2 = hvhist.build_history(np.random.default_rng(0), 7000 + j, kind, 0, with_stats=False)
        obj.meta["processing_method"] = "traditional" if kind == "T" else "azimuthal"
        key, v1, v2 = [("prominence", 0.05, float(rng.uniform(0.8, 3.0))), ("height", 0.0, float(rng.uniform(2.0, 5.0))), ("distance", 1, int(rng.integers(3, 9)))][j % 3]
        r = hvgen.gen_range(rng, m.freq) if j % 4 else (None, None)
        kw = {key: v1}
        obj.update_peaks_bounded(search_range_in_hz=r, find_peaks_kwargs=kw)
        kw[key] = v2                                           # edited in place ...
        obj.update_peaks_bounded(search_range_in_hz=r, find_peaks_kwargs=kw)      # ... and passed again with the same range
        fresh = hvgen.Mirror.trad(1, m.freq, m.rows).obj if kind == "T" else hvgen.Mirror.az(1, m.freq, m.rows_per_az, m.azimuths).obj
        fresh.update_peaks_bounded(search_range_in_hz=r, find_peaks_kwargs={key: v2})
        ctx.supporting["kwargs_second_update_cases"] = ctx.supporting.get("kwargs_second_update_cases", 0) + 1
        bad = hvgen.cmp_state(hvgen.impl_state(obj), hvgen.impl_state(fresh))
        if bad:
            ctx.violation("read-back-equals-written-object", dict(case=dict(hvhist.history_json(h), find_peaks_kwargs_first={key: v1}, find_peaks_kwargs_second={key: v2}, range=list(r)),
                                                                  differing=bad, note="state after the second update differs from a fresh object updated once with the second options"),
                          seam="update_peaks_bounded called twice with one dictionary edited in place")
            continue
        hs = obj.hvsrs if kind == "A" else [obj]
        if any(int(np.sum(x.valid_window_boolean_mask)) < 2 or not np.array_equal(x.valid_window_boolean_mask, x.valid_peak_boolean_mask) for x in hs):
            continue
        fname = os.path.join(WORK, f"c12_k2_{j}.csv")
        try:
            hvsrpy.write_hvsr_object_to_file(obj, fname)
            back = hvsrpy.read_hvsr_object_from_file(fname)
        except hvgen.STAT_ERRS:
            continue
        finally:
            if os.path.exists(fname):
                os.remove(fname)
        bad = hvgen.cmp_state(hvgen.impl_state(obj), hvgen.impl_state(back))
        if bad:
            ctx.violation("read-back-equals-written-object", dict(case=dict(hvhist.history_json(h), find_peaks_kwargs={key: v2}, range=list(r)), differing=bad),
                          seam="round trip after two updates with one dictionary")
    # the two accept masks are independent attributes: any combination must survive the round trip, each under its own name
    for j in range(ctx.budget(16, 160)):
        kind = "T" if j % 2 == 0 else "A"
        h = hvhist.build_history(rng, 8000 + j, kind, int(rng.integers(0, 3)), with_stats=False)
        m = h["mirror"]; obj = m.obj
        obj.meta["processing_method"] = "traditional" if kind == "T" else "azimuthal"
        for x in (obj.hvsrs if kind == "A" else [obj]):
            n = x.n_curves
            vw = rng.random(n) < 0.75
            vp = vw & (rng.random(n) < 0.7)
            if vw.sum() < 2 or vp.sum() < 2 or np.array_equal(vw, vp):
                vw[:] = True; vp[:] = True; vp[int(rng.integers(0, n))] = False
            x.valid_window_boolean_mask = vw
            x.valid_peak_boolean_mask = vp
        fname = os.path.join(WORK, f"c12_m{j}.csv")
        try:
            hvsrpy.write_hvsr_object_to_file(obj, fname)
            back = hvsrpy.read_hvsr_object_from_file(fname)
        except hvgen.STAT_ERRS as e:
            continue
        finally:
            if os.path.exists(fname):
                os.remove(fname)
        ctx.supporting["independent_mask_roundtrips"] = ctx.supporting.get("independent_mask_roundtrips", 0) + 1
        a, b = hvgen.impl_state(obj), hvgen.impl_state(back)
        bad = hvgen.cmp_state(a, b)
        if bad:
            ctx.violation("read-back-equals-written-object", dict(case=hvhist.history_json(h), differing=bad, written=a, read_back=b),
                          seam="round trip with independent window / peak masks")
    # diffuse field
    for j in range(ctx.budget(20, 200)):
        freq = hvgen.gen_freq(rng); amp = hvgen.gen_curve(rng, freq)
        obj = hvsrpy.HvsrDiffuseField(freq, amp, meta=dict(processing_method="diffuse_field"))
        r = hvgen.gen_range(rng, freq)
        obj.update_peaks_bounded(search_range_in_hz=r)
        obj.meta["processing_method"] = "diffuse_field"
        fname = os.path.join(WORK, f"c12_d{j}.csv")
        hvsrpy.write_hvsr_object_to_file(obj, fname)
        back = hvsrpy.read_hvsr_object_from_file(fname)
        os.remove(fname)
        ctx.supporting["diffuse_roundtrips"] = ctx.supporting.get("diffuse_roundtrips", 0) + 1
        same_peak = (back.peak_frequency == obj.peak_frequency) or (back.peak_frequency != back.peak_frequency and obj.peak_frequency != obj.peak_frequency)
        if not (bits_equal(back.amplitude, obj.amplitude) and bits_equal(back.frequency, obj.frequency) and same_peak
                and tuple(back._search_range_in_hz) == tuple(obj._search_range_in_hz)):
            ctx.violation("read-back-equals-written-object", dict(case=dict(kind="D", freq=freq.tolist(), amp=amp.tolist(), range=list(r))), seam="diffuse field round trip")


def replay(case):
    import c05
    return c05.replay(case)
