"""C16 -- SESAME reliability and clarity verdicts: correspondence of hvsrpy.sesame with Model/Sesame.lean"""
import numpy as np

from common import *

PROP_MODULES = ["HvsrVerif.Props.C16"]
BRIDGE_MODULES = ["HvsrVerif.Bridge.C16", "HvsrVerif.Bridge.PySesame"]
EDGES = [0.2, 0.5, 1.0, 2.0]


def gen_case(rng, kind):
    n = int(rng.integers(12, 70))
    if rng.random() < 0.5:
        freq = np.geomspace(rng.uniform(0.03, 0.3), rng.uniform(5, 40), n)
    else:
        freq = np.linspace(rng.uniform(0.03, 0.3), rng.uniform(3, 20), n)
    # peak position: a grid index away from the ends
    pi = int(rng.integers(2, n - 2))
    if kind == "edge":
        # snap the peak frequency exactly onto a band edge, or one ulp either side
        e = float(rng.choice(EDGES))
        v = [e, np.nextafter(e, 0), np.nextafter(e, 10)][int(rng.integers(0, 3))]
        pi = int(np.argmin(np.abs(freq - e)))
        pi = min(max(pi, 2), n - 3)
        freq[pi] = v
        freq = np.sort(freq)
        pi = int(np.where(freq == v)[0][0])
        if pi < 1 or pi > n - 2:
            return None
    f0 = freq[pi]
    a0 = float(rng.choice([rng.uniform(1.1, 8.0), 2.0, 4.0]))
    width = rng.uniform(0.05, 0.6)
    base = rng.uniform(0.5, 1.5)
    mc = base + (a0 - base) * np.exp(-0.5 * (np.log(freq / f0) / width) ** 2)
    if rng.random() < 0.5:  # secondary bump / noise
        f1 = freq[int(rng.integers(1, n - 1))]
        mc = mc + rng.uniform(0, 0.8) * (a0 - base) * np.exp(-0.5 * (np.log(freq / f1) / rng.uniform(0.05, 0.3)) ** 2)
    if rng.random() < 0.3:
        mc = mc * np.exp(rng.normal(0, 0.05, n))
    if rng.random() < 0.15:  # integer valued curve with ties/plateaus
        mc = np.round(mc * 2) / 2 + 0.5
    mc = np.maximum(mc, 0.05)
    sd = np.abs(rng.uniform(0.05, 1.3) * (1 + 0.5 * np.sin(np.linspace(0, rng.uniform(1, 9), n))))
    lw = float(rng.choice([5, 10, 20, 30, 60, 120, rng.uniform(5, 200)]))
    nw = float(rng.integers(1, 120))
    fn_std = float(rng.choice([rng.uniform(0, 0.4) * f0, 0.05 * f0, 0.1 * f0, 0.15 * f0, 0.2 * f0, 0.25 * f0]))
    rk = int(rng.integers(0, 6))
    lo = float(rng.uniform(freq[0] * 0.5, f0))
    hi = float(rng.uniform(f0, freq[-1] * 1.5))
    if rng.random() < 0.3:  # on-grid limits
        lo = float(freq[int(rng.integers(0, max(pi, 1)))])
        hi = float(freq[int(rng.integers(pi, n))])
    rng_ = [(None, None), (lo, None), (None, hi), (lo, hi), (hi, lo), (None, None)][rk]
    if kind == "exact":
        # dyadic data so that criteria i, ii, cla-iii, v hit exact ties
        lw = float(rng.choice([8, 16, 20, 32, 40]))
        nw = float(rng.choice([5, 10, 20, 25, 50]))
        f0x = float(rng.choice([10 / lw, 200 / (lw * nw), 0.5, 1.0, 2.0, 0.25]))
        freq = f0x * np.array([0.125, 0.25, 0.5, 1.0, 2.0, 4.0, 8.0])
        mc = np.array([1.0, 1.0, 1.5, float(rng.choice([2.0, 4.0, 3.0])), 1.5, 1.0, 0.5])
        sd = np.full(7, float(rng.choice([0.25, 0.5, 1.0])))
        # samples EXACTLY on the ends of the guideline's open bands carry the decisive value: sigma_A only matters for 0.5 f0 < f < 2 f0,
        # the amplitude drop is looked for in (f0/4, f0) and (f0, 4 f0) as the code (and the model) delimit them
        v = int(rng.integers(0, 5))
        if v == 1:
            sd[4] = 50.0          # at exactly 2 f0
        elif v == 2:
            sd[2] = 50.0          # at exactly f0 / 2
        elif v == 3:
            mc = np.array([2.5, 1.0, 2.5, 4.0, 2.5, 2.5, 2.5])     # the only sample below A0/2 sits at exactly f0 / 4
        elif v == 4:
            mc = np.array([2.5, 2.5, 2.5, 4.0, 2.5, 1.0, 2.5])     # ... at exactly 4 f0
        (eps, _th) = [(0.25, 3), (0.2, 2.5), (0.15, 2), (0.1, 1.78), (0.05, 1.58)][int(np.searchsorted(EDGES, f0x, side="right"))]
        fn_std = float(rng.choice([eps * f0x, np.nextafter(eps * f0x, 0), np.nextafter(eps * f0x, 10), 0.0]))   # 0.0: all windows peak on one sample
        rng_ = (None, None)
    order = "ascending"
    if tuple(rng_) == (None, None) and rng.random() < 0.2:
        # a curve tabulated by ascending period: the criteria are stated on frequency values, not on array positions
        freq, mc, sd = freq[::-1].copy(), np.asarray(mc)[::-1].copy(), np.asarray(sd)[::-1].copy()
        order = "descending"
    return dict(kind=kind, lw=lw, nw=nw, freq=np.asarray(freq).tolist(), mc=np.asarray(mc).tolist(), sd=np.asarray(sd).tolist(), fn_std=fn_std,
                range=list(rng_), order=order)


def impl(case, verbose=0):
    import hvsrpy.sesame as ses
    f = np.array(case["freq"])
    m = np.array(case["mc"])
    s = np.array(case["sd"])
    r = tuple(case["range"])
    f0, m0, s0 = f.copy(), m.copy(), s.copy()
    out = {}
    # the SAME arrays are handed to every call (as a caller holding one mean curve does): "cla2" repeats the clarity call, which must
    # see the curve it was given, not one rescaled or trimmed in place by an earlier call
    for name, fn in (("rel", lambda: ses.reliability(case["lw"], case["nw"], f, m, s, search_range_in_hz=r, verbose=verbose)),
                     ("cla", lambda: ses.clarity(f, m, s, case["fn_std"], search_range_in_hz=r, verbose=verbose)),
                     ("cla2", lambda: ses.clarity(f, m, s, case["fn_std"], search_range_in_hz=r, verbose=verbose)),
                     ("rel2", lambda: ses.reliability(case["lw"], case["nw"], f, m, s, search_range_in_hz=r, verbose=verbose))):
        try:
            with quiet():
                v = fn()
            out[name] = [bool(x > 0) for x in v]
        except (ValueError, IndexError, TypeError) as e:
            out[name] = "err"
    history = dict(repeat_differs=(out.pop("cla2") != out["cla"] or out.pop("rel2") != out["rel"]),
                   inputs_modified=not (np.array_equal(f, f0) and np.array_equal(m, m0) and np.array_equal(s, s0)))
    out.pop("cla2", None); out.pop("rel2", None)
    HISTORY[id(case)] = history
    return out


HISTORY = {}


def impl_plain(case):
    return impl(dict(case), verbose=0)


def model_lines(case):
    f, m, s = case["freq"], case["mc"], case["sd"]
    lo, hi = case["range"]
    return [f"sesame.rel {hexf(case['lw'])} {hexf(case['nw'])} {fvec(f)} {fvec(m)} {fvec(s)} {fopt(lo)} {fopt(hi)}",
            f"sesame.cla {fvec(f)} {fvec(m)} {fvec(s)} {hexf(case['fn_std'])} {fopt(lo)} {fopt(hi)}"]


def parse_model(line):
    t = Toks(line)
    st = t.tok()
    if st != "ok":
        return "err"
    return t.bvec()


def margins(case):
    """relative distance of every real comparison from its threshold (python mirror, used only to classify near ties)"""
    import hvsrpy.sesame as ses
    f = np.array(case["freq"]); m = np.array(case["mc"]); s = np.array(case["sd"])
    lo, hi = case["range"]
    if lo is not None or hi is not None:
        lim = (min(f) if lo is None else lo, max(f) if hi is None else hi)
        f, m, s = ses.trim_curve(lim, f, m, s)
    big = 1e9
    out = dict(rel=[big] * 3, cla=[big] * 6)
    try:
        pi = ses.peak_index(m)
        if pi is None:
            return out
        f0, a0 = f[pi], m[pi]

        def rel(a, b):
            return abs(a - b) / max(abs(a), abs(b), 1e-300)
        sig = np.exp(np.log(m) + s) / m
        band = sig[np.logical_and(f > 0.5 * f0, f < 2 * f0)]
        # band membership is NOT a rounding tie: 0.5 f0, 2 f0, f0/4 and 4 f0 are exact in binary floating point and the samples are the same
        # doubles on both sides, so `f < 2 f0` etc. are decided identically by the code and the model (a sample exactly on a band end is a
        # legitimate, decisive input)
        bt = big
        out["rel"] = [rel(f0, 10 / case["lw"]), rel(case["lw"] * case["nw"] * f0, 200),
                      min(min(rel(np.max(band), 2), rel(np.max(band), 3), rel(f0, 0.5)) if len(band) else big, bt)]
        lowband = highband = big
        amp = min(rel(x, a0 / 2) for x in m)
        up = np.exp(np.log(m) + s); dn = np.exp(np.log(m) - s)
        pu, pl = ses.peak_index(up), ses.peak_index(dn)
        m4 = big
        if pu is not None and pl is not None:
            m4 = min(rel(f[pu], 0.95 * f0), rel(f[pu], 1.05 * f0), rel(f[pl], 0.95 * f0), rel(f[pl], 1.05 * f0))
        eps, th = [(0.25, 3), (0.2, 2.5), (0.15, 2), (0.1, 1.78), (0.05, 1.58)][int(np.searchsorted(EDGES, f0, side="right"))]
        out["cla"] = [min(lowband, amp), min(highband, amp), rel(a0, 2), m4, rel(case["fn_std"], eps * f0), rel(sig[pi], th)]
    except Exception:
        pass
    return out


def peak_ties(case):
    """argmax ties between local maxima computed in floating point (exp/log) can differ legitimately"""
    return False


def compare(ctx, case, im, mo, exact_only=None):
    bad = []
    mg = None
    for name in ("rel", "cla"):
        a, b = im[name], mo[name]
        if a == b:
            continue
        if a == "err" or b == "err":
            bad.append((name, "error-kind", a, b))
            continue
        for k, (x, y) in enumerate(zip(a, b)):
            if x != y:
                if mg is None:
                    mg = margins(case)
                if case["kind"] == "exact" and (name, k) in (("rel", 0), ("rel", 1), ("cla", 2), ("cla", 4)):
                    bad.append((name, k, a, b))       # exactly representable: compared exactly
                elif mg[name][k] < MARGIN:
                    ctx.near_tie_skipped += 1
                else:
                    bad.append((name, k, a, b))
    return bad


def run(ctx):
    ctx.rule = ("cases = (frequency grid, mean curve with a dominant peak, sigma curve, window length/count, fn std, search range); "
                "streams: generic, band-edge snapped (peak on 0.2/0.5/1/2 Hz and +-1 ulp), exact dyadic ties; "
                "non-trivial = the 9-verdict vector differs from the previous case's or the peak sits on a band edge; distinct by input hash")
    ctx.trusted += ["scipy.signal.find_peaks default algorithm is modelled by its input/output contract (plateau midpoints)"]
    rng = np.random.default_rng(ctx.seed)
    n = ctx.budget(400, 6000)
    cases = [dict(c["case"], corpus=True) for c in load_corpus("C16")]
    ctx.count("corpus_cases", len(cases))
    for i in range(n):
        kind = ["generic", "generic", "edge", "exact"][i % 4]
        c = gen_case(rng, kind)
        if c is not None:
            cases.append(c)
    lines = []
    for c in cases:
        lines += model_lines(c)
    outs = run_driver(lines)
    prev = None
    import hvsrpy.sesame as ses
    reverse_order_probe(ctx, "c16", "impl_plain", cases, "verdict-depends-only-on-the-curve-given", "sesame.reliability/clarity in another order / fresh interpreter")
    for i, c in enumerate(cases):
        im = impl(c, verbose=0)
        mo = dict(rel=parse_model(outs[2 * i]), cla=parse_model(outs[2 * i + 1]))
        vec = (str(im["rel"]), str(im["cla"]))
        ctx.case((c["freq"], c["mc"], c["sd"], c["lw"], c["nw"], c["fn_std"], c["range"]),
                 nontrivial=(vec != prev or c["kind"] == "edge"),
                 sample=dict(kind=c["kind"], n=len(c["freq"]), lw=c["lw"], nw=c["nw"], range=c["range"], impl=im, model=mo))
        prev = vec
        ctx.count("kind:" + c["kind"]); ctx.count("order:" + c.get("order", "ascending"))
        ctx.count("range:" + "".join("N" if x is None else "v" for x in c["range"]))
        ctx.count("verdict:" + "".join("E" if im[k] == "err" else "".join("1" if b else "0" for b in im[k]) for k in ("rel", "cla")))
        ctx.traces += 1
        hist = HISTORY.get(id(c), {})
        if hist.get("repeat_differs") or hist.get("inputs_modified"):
            ctx.violation("verdict-depends-only-on-the-curve-given", dict(case=c, first=im, **hist), seam="sesame.reliability/clarity called twice on the same arrays")
        bad = compare(ctx, c, im, mo)
        if bad:
            ctx.violation("verdict-equals-guideline",
                          dict(case=c, impl_output=im, model_output=mo, mismatches=[list(map(str, b)) for b in bad]),
                          seam="hvsrpy.sesame.reliability/clarity")
        # property probes on the implementation (supporting tests, not proof)
        if i % 5 == 0 or c.get("corpus"):
            v1, v2 = impl(c, verbose=1), impl(c, verbose=2)
            ctx.supporting["verbosity_cases"] = ctx.supporting.get("verbosity_cases", 0) + 1
            if v1 != im or v2 != im:
                ctx.violation("verbosity-irrelevant", dict(case=c, verbose0=im, verbose1=v1, verbose2=v2), seam="sesame verbose")
            if im["rel"] != "err":
                c2 = dict(c, lw=c["lw"] * 2, nw=c["nw"] + 3)
                r2 = impl(c2)["rel"]
                ctx.supporting["monotone_cases"] = ctx.supporting.get("monotone_cases", 0) + 1
                if r2 != "err" and im["rel"][1] and not r2[1]:
                    ctx.violation("criterion-ii-monotone", dict(case=c, more_windows=c2, before=im["rel"], after=r2), seam="sesame.reliability")
            if im["cla"] != "err":
                c3 = dict(c, fn_std=c["fn_std"] * 0.5)
                r3 = impl(c3)["cla"]
                if r3 != "err" and im["cla"][4] and not r3[4]:
                    ctx.violation("criterion-v-monotone", dict(case=c, smaller_std=c3, before=im["cla"], after=r3), seam="sesame.clarity")


def replay(case):
    im = impl(case)
    outs = run_driver(model_lines(case))
    mo = dict(rel=parse_model(outs[0]), cla=parse_model(outs[1]))
    return im, mo
