"""History runner for M-HV: random op sequences on real objects mirrored op by op in the driver."""
import numpy as np

from common import *
import hvgen
from hvgen import Mirror, DISTS


def build_history(rng, oid, kind, nops, with_stats=True, op_filter=None, freq=None, rows=None):
    """returns dict(mirror, steps); impl side is executed here, model lines are collected"""
    freq = hvgen.gen_freq(rng) if freq is None else freq
    if kind == "T":
        nrows = int(rng.integers(3, 13))
        rows = hvgen.gen_curve_set(rng, freq, nrows) if rows is None else rows
        m = Mirror.trad(oid, freq, rows)
    else:
        naz = int(rng.integers(1, 6))
        nw = int(rng.integers(2, 9))
        rows_per_az = [hvgen.gen_curve_set(rng, freq, nw) for _ in range(naz)]
        azs = sorted(float(a) for a in rng.choice(np.arange(0, 180, 5), naz, replace=False))
        if naz > 1 and rng.random() < 0.2:
            # both inclusive ends of the legal range (np.linspace(0, 180, n)), or one direction measured twice: every entry of the list is an azimuth of its
            # own for the statistics (the number of azimuths is the length of the list)
            if rng.random() < 0.6:
                azs[0], azs[-1] = 0.0, 180.0
            else:
                # possibly next to each other ([15.0, 15.0]): two adjacent equal azimuths were merged by the reader (defect C12-d, repaired)
                azs[-1] = azs[0]
        if naz > 1 and rng.random() < 0.3:      # an azimuthal object assembled by hand: the azimuths need not be ascending
            azs = [azs[j] for j in rng.permutation(naz)]
        m = Mirror.az(oid, freq, rows_per_az, azs)
    steps = []

    def snap(op, ret):
        st = dict(op=op, ret=ret, state=hvgen.impl_state(m.obj), state_idx=len(m.lines))
        m.lines.append(m.state_line())
        if with_stats:
            st["stats"] = {}
            st["stat_idx"] = {}
            for d in DISTS:
                st["stats"][d] = hvgen.impl_stats(m.obj, d)
                st["stat_idx"][d] = len(m.lines)
                m.lines.append(m.stat_line(d))
        steps.append(st)

    snap(None, None)
    for _ in range(nops):
        op = hvgen.gen_op(rng, m)
        if op_filter and not op_filter(op):
            continue
        op_idx = len(m.lines)
        ret = hvgen.apply_op(m, op)
        snap(op, ret)
        steps[-1]["op_idx"] = op_idx
        steps[-1]["near_tie"] = bool(op[0] == "fdwra" and m.last_near_tie)
    return dict(mirror=m, steps=steps)


def history_json(h, upto=None):
    m = h["mirror"]
    d = dict(kind=m.kind, freq=m.freq.tolist())
    if m.kind == "T":
        d["rows"] = m.rows.tolist()
    else:
        d["rows_per_az"] = [r.tolist() for r in m.rows_per_az]
        d["azimuths"] = m.azimuths
    ops = [hvgen.op_json(s["op"]) for s in h["steps"][1:(None if upto is None else upto + 1)]]
    d["ops"] = ops
    return d


def run_histories(ctx, hists, stat_clause, state_clause, nontrivial_fn=None):
    """send all model lines, compare every step"""
    lines = []
    base = []
    for h in hists:
        base.append(len(lines))
        lines += h["mirror"].lines
    outs = run_driver(lines)
    for h, b in zip(hists, base):
        m = h["mirror"]
        failed = False
        for k, st in enumerate(h["steps"]):
            ctx.traces += 1
            t = Toks(outs[b + st["state_idx"]])
            if t.tok() != "ok":
                ctx.violation(state_clause, dict(case=history_json(h, k), step=k, model_line=outs[b + st["state_idx"]][:200]),
                              seam="driver state")
                failed = True
                break
            mo_state = hvgen.parse_obj(t)
            bad = []
            both_err = False
            if st.get("near_tie"):
                # a decision of this FDWRA run sits within rounding distance of its threshold: not compared further
                ctx.near_tie_skipped += 1
                break
            if st["op"] is not None and st["op"][0] == "fdwra":
                t2 = Toks(outs[b + st["op_idx"]])
                tag = t2.tok()
                mo_ret = "err" if tag == "err" else t2.nat()
                ctx.count("fdwra_ret:" + ("err" if st["ret"] == "err" else "limit" if st["ret"] == st["op"][2] else "conv"))
                if mo_ret != st["ret"]:
                    bad.append("fdwra-return")
                elif mo_ret == "err":
                    # after an exception the masks are whatever the loop left behind; the model commits
                    # no state on error, so this history is not compared any further
                    both_err = True
            if both_err:
                break
            bad += hvgen.cmp_state(st["state"], mo_state)
            if bad:
                ctx.violation(state_clause, dict(case=history_json(h, k), step=k, differing=bad, impl_state=st["state"],
                                                 model_state=mo_state),
                              seam="object state after op")
                failed = True
                break
            if "stats" in st:
                for d in DISTS:
                    mo = hvgen.parse_stats(outs[b + st["stat_idx"][d]])
                    badk, near = hvgen.cmp_stats(st["stats"][d], mo, scale=float(np.max(m.freq)))
                    ctx.near_tie_skipped += len(near)
                    if st["state"].get("kind") == "A" and badk:
                        # C11 quantifies over states "with at least one accepted window per azimuth": with an azimuth that has no valid peak (no accepted
                        # window) the resonance (curve) statistics are outside the property -- the unchanged code raises there, a rewrite may return NaN or a
                        # number; neither is judged (a false alarm on the neutral seed C11-X of round 9 corrected)
                        hs_ = st["state"]["hvsrs"]
                        if any(not any(h_["vpeak"]) for h_ in hs_):
                            dropped = [x for x in badk if x in ("mf", "sf", "ma", "sa", "nf+", "nf-", "na+", "na-", "cov")]
                            badk = [x for x in badk if x not in dropped]
                            ctx.count("out_of_domain:azimuth_without_valid_peak", len(dropped))
                        if any(not any(h_["vwin"]) for h_ in hs_):
                            dropped = [x for x in badk if x in ("mc", "sc", "mcp")]
                            badk = [x for x in badk if x not in dropped]
                            ctx.count("out_of_domain:azimuth_without_accepted_window", len(dropped))
                    if badk:
                        ctx.violation(stat_clause, dict(case=history_json(h, k), step=k, distribution=d, differing=badk,
                                                        impl={x: st["stats"][d][x] for x in badk}, model={x: mo.get(x) for x in badk}),
                                      seam="statistics accessors")
                        failed = True
                        break
            if failed:
                break
        nt = nontrivial_fn(h) if nontrivial_fn else True
        ctx.case(history_json(h), nontrivial=nt,
                 sample=dict(kind=m.kind, nfreq=len(m.freq), ops=[hvgen.op_json(s["op"])[0] for s in h["steps"][1:]],
                             final_state=h["steps"][-1]["state"]))
        for s in h["steps"][1:]:
            ctx.count("op:" + s["op"][0])
