"""Entry point: ./check <Cxx> [--tier quick|thorough] [--replay FILE]

exit 0: property held on everything explored; exit 1: VIOLATION line(s) printed;
exit 2: infrastructure failure / timeout (never reported as a violation).
"""
import sys
import os
import json
import importlib
import traceback

sys.path.insert(0, os.path.dirname(os.path.abspath(__file__)))
import common
from common import Ctx, InfraError, lean_phase, cleanup


def main(argv):
    if not argv:
        print(__doc__)
        return 2
    prop = argv[0]
    tier = os.environ.get("VERIF_TIER", "quick")
    replay = None
    i = 1
    while i < len(argv):
        if argv[i] == "--tier":
            tier = argv[i + 1]; i += 2
        elif argv[i] == "--replay":
            replay = argv[i + 1]; i += 2
        else:
            print("unknown argument", argv[i]); return 2
    seed = int(os.environ.get("VERIF_SEED", "20260929"))
    try:
        mod = importlib.import_module(prop.lower())
    except ImportError as e:
        print(f"no harness for {prop}: {e}")
        return 2
    if replay:
        with open(replay) as f:
            rp = json.load(f)
        rc, log = common.lake(["build", "hvsrdrv"])
        if rc != 0:
            print(log[-2000:]); return 2
        if rp.get("clause") == "translator-validation":
            import pyvalidate
            res = pyvalidate.replay_vec(rp["case"]) if str(rp["case"].get("target", "")).startswith("pyvec:") else pyvalidate.replay(rp["case"])
        else:
            res = mod.replay(rp["case"]) if "case" in rp else None
        print(json.dumps(dict(replayed=rp.get("clause"), result=res), indent=1, default=str))
        return 0
    ctx = Ctx(prop, tier, seed)
    try:
        lean_phase(ctx, mod.PROP_MODULES, mod.BRIDGE_MODULES)
        try:
            mod.run(ctx)
        except (InfraError, OSError, MemoryError, KeyboardInterrupt, ImportError):
            raise
        except Exception:
            # the correspondence itself could not be carried out on this tree (it runs to the end on the unchanged tree): typically the implementation handed
            # back something of an unexpected shape or type. That is a correspondence that no longer checks -- reported as such, with the traceback as the replay;
            # violations with a failing input that were found before the crash are reported as usual
            tb = traceback.format_exc()
            ctx.violation("correspondence-could-not-be-carried-out", dict(traceback=tb[-3000:], note="harness/%s.py raised while executing or judging the implementation; "
                          "on the unchanged tree it runs to the end" % prop.lower()), found_input=False, seam="harness")
        # the translated kernels this property's bridges are about: run the original Python statements and the generated Lean
        # definitions on the same inputs (validation of the translator, harness/pyvalidate.py)
        groups = [m.split(".Bridge.Py")[1] for m in mod.BRIDGE_MODULES if ".Bridge.Py" in m]
        if groups:
            import numpy as _np
            import pyvalidate
            pyvalidate.validate(ctx, groups, _np.random.default_rng(seed + 7919))
            vgroups = [g for g in groups if g.startswith("Vec")]
            if vgroups:
                pyvalidate.validate_vec(ctx, _np.random.default_rng(seed + 104729), vgroups=vgroups)
        code = ctx.finish()
    except InfraError as e:
        print(f"INFRA-ERROR {prop}: {e}")
        code = 2
    except Exception:
        traceback.print_exc()
        print(f"INFRA-ERROR {prop}: harness crashed")
        code = 2
    finally:
        cleanup()
    return code


if __name__ == "__main__":
    sys.exit(main(sys.argv[1:]))
