"""C03 -- one curve per window, in input order, independent of the other windows"""
import itertools
import numpy as np

from common import *
import procgen as pg

PROP_MODULES = ["HvsrVerif.Props.C03"]
BRIDGE_MODULES = ["HvsrVerif.Bridge.C03", "HvsrVerif.Bridge.PyNyquist"]


def gen_case(rng, i):
    fam = ["trad", "saz", "rot", "trad", "saz", "rot", "trad", "az"][i % 8]
    nrec = int(rng.integers(1, 8)) if fam != "az" else int(rng.integers(2, 4))    # the azimuthal path always ends at n = 2**15: few, short records
    ndt = int(rng.integers(1, 4))
    dts = [float(x) for x in rng.choice(pg.DTS, ndt, replace=False)]
    if ndt >= 2 and rng.random() < 0.25:
        # two DIFFERENT time steps that are close to each other (4000 Hz next to 4096 Hz; a nominal next to a measured rate): distinct
        # floats are distinct time steps for the grouping, for both keeping policies and for the Nyquist guard
        a, b = [(1 / 4000, 1 / 4096), (0.01, 0.010000001), (1 / 500, 1 / 500 + 4e-6), (1 / 4096, 1 / 4000)][int(rng.integers(0, 4))]
        dts[0], dts[1] = float(a), float(b)
    arrangement = [dts[int(rng.integers(0, ndt))] for _ in range(nrec)]
    # sensors of one list may be deployed at different angles (read(..., degrees_from_north=[...])): the single-azimuth and
    # RotDpp families must resolve the orientation per record
    mixed_deg = fam in ("saz", "rot", "az") and rng.random() < 0.6
    same_n = int(rng.integers(16, 90 if fam != "az" else 40)) if rng.random() < 0.4 else None     # windows cut from one recording share their length
    recs = [pg.gen_record(rng, n=(same_n or int(rng.integers(16, 90 if fam != "az" else 40))), dt=d, scale=float(10.0 ** (rng.integers(-2, 3) if rng.random() < 0.7 else rng.integers(-11, -8))),    # counts ... ground velocity in m/s
                          deg=(float(rng.choice([0.0, 10.0, 33.5, 90.0, 180.0, 271.25, 350.0])) if mixed_deg else 0.0)) for d in arrangement]
    max_n = max(len(r["vt"]) for r in recs)
    fft = dict(n=None)
    sm = pg.gen_smoothing(rng, max_n, arrangement, op=str(rng.choice([o for o in pg.OPS if o != "savitzky_and_golay"])))
    if sm is None:
        return None
    if rng.random() < 0.12:  # one centre frequency above the Nyquist frequency of the largest time step
        sm["center_frequencies_in_hz"].append(float(1 / (2 * max(arrangement)) * rng.uniform(1.0001, 1.5)))
    order = rng.random()    # the centre frequencies are a user-supplied array: any order is legitimate
    if order < 0.15:
        sm["center_frequencies_in_hz"] = sm["center_frequencies_in_hz"][::-1]
    elif order < 0.35:
        sm["center_frequencies_in_hz"] = [sm["center_frequencies_in_hz"][j] for j in rng.permutation(len(sm["center_frequencies_in_hz"]))]
    u = rng.random()
    if u < 0.08:      # an all-zero vertical (dead channel): 0/0 or x/0 must be refused, never reported as a curve
        k = int(rng.integers(0, nrec)); recs[k]["vt"] = [0.0] * len(recs[k]["vt"])
    elif u < 0.12:    # an all-zero record
        k = int(rng.integers(0, nrec))
        for comp in ("ns", "ew", "vt"):
            recs[k][comp] = [0.0] * len(recs[k][comp])
    case = dict(family=fam, smoothing=sm, width=float(rng.choice(pg.WIDTHS)), fft=fft, policy=pg.POLICIES[int(rng.integers(0, 3))], records=recs)
    if fam == "trad":
        case["method"] = pg.COMBINE_NAMES[int(rng.integers(0, len(pg.COMBINE_NAMES)))]
    elif fam == "saz":
        case["azimuth"] = float(rng.uniform(0, 180))
    elif fam == "az":
        case["azimuths"] = [0.0, 75.0]
    else:
        case["pct"] = float(rng.choice([0, 50, 100])); case["azimuths"] = [0.0, 60.0, 120.0]
    return case


def gen_nyquist_case(rng, i):
    """mixed time steps with one centre frequency just above the Nyquist frequency of the COARSEST kept record, and a
    smoothing window wide enough to still see samples there (otherwise 0/0 hides a missing guard)"""
    fam = ["trad", "saz", "rot"][i % 3]
    d_small, d_big = sorted(float(x) for x in rng.choice(pg.DTS, 2, replace=False))
    arrangement = [d_big, d_small, d_small, d_big][: int(rng.integers(2, 5))]
    recs = [pg.gen_record(rng, n=int(rng.integers(40, 90)), dt=d, scale=1.0, deg=float(rng.choice([0.0, 0.0, 25.0, 300.0]))) for d in arrangement]
    fny = 1 / (2 * d_big)
    # how far above the Nyquist frequency: from the next representable number to a few per cent (a tolerance in the guard is a defect:
    # "above" is refused, "equal" is accepted)
    k = i % 6
    over = [float(np.nextafter(fny, np.inf)), fny * (1 + 1e-9), fny * (1 + 3e-6), fny * float(rng.uniform(1.0005, 1.08)), fny * float(rng.uniform(1.0005, 1.08)),
            fny * float(rng.uniform(1.0005, 1.08))][k]
    fcs = sorted([float(fny * rng.uniform(0.3, 0.9)), float(fny * rng.uniform(0.5, 0.95)), float(over)])
    if i % 2 == 1:   # the offending frequency is not the last one (descending or shuffled user array)
        fcs = [fcs[j] for j in ([2, 1, 0] if i % 4 == 1 else [0, 2, 1])]
    sm = dict(operator="konno_and_ohmachi", bandwidth=float(rng.choice([8.0, 10.0, 12.0])), center_frequencies_in_hz=fcs)
    case = dict(family=fam, smoothing=sm, width=0.1, fft=dict(n=None), policy=pg.POLICIES[0], records=recs)
    if fam == "trad":
        case["method"] = "squared_average"
    elif fam == "saz":
        case["azimuth"] = 30.0
    else:
        case["pct"] = 50.0; case["azimuths"] = [0.0, 60.0, 120.0]
    return case


def expected_kept(case):
    """the property's own statement of the three policies, evaluated independently of the model"""
    dts = [r["dt"] for r in case["records"]]
    if case["policy"] == "frequency_domain_resampling":
        return [list(range(len(dts)))]
    if case["policy"] == "keeping_smallest_time_step":
        m = min(dts)
        return [[i for i, d in enumerate(dts) if d == m]]
    cnt = {d: dts.count(d) for d in dts}
    best = max(cnt.values())
    return [[i for i, d in enumerate(dts) if d == m] for m in cnt if cnt[m] == best]   # "a most frequent" time step


def run(ctx):
    ctx.rule = ("cases = lists of 1-7 records with 1-3 distinct time steps in every arrangement x three dissimilar-dt policies x "
                "{frequency-domain combination, single azimuth, RotDpp}; each compared with the model and with process([record_i]) alone at the same fixed "
                "FFT length, with a permuted list and a sub-list; a centre frequency above Nyquist in ~12 % of the cases; centre frequencies descending / shuffled in 35 %; records of one list deployed at different "
                "degrees_from_north in 60 % of the single-azimuth / RotDpp cases; non-trivial = >=2 records and "
                ">=2 distinct time steps or a refused case; distinct by input hash")
    rng = np.random.default_rng(ctx.seed)
    n = ctx.budget(70, 900)
    cases = [c for c in (gen_case(rng, i) for i in range(n)) if c is not None]
    cases += [gen_nyquist_case(rng, i) for i in range(ctx.budget(18, 120))]
    reverse_order_probe(ctx, "procgen", "impl_result_only", cases, "curve-independent-of-other-records", "hvsrpy.process in another order / fresh interpreter", sample=24)
    outs = run_driver([pg.model_line(c) for c in cases])
    for c, o in zip(cases, outs):
        im = pg.run_impl(c)
        mo = pg.parse_model(c, o)
        res = im["result"]
        dts = [r["dt"] for r in c["records"]]
        fnyq_min = 1 / (2 * max(dts))
        above = max(c["smoothing"]["center_frequencies_in_hz"]) > fnyq_min
        ctx.case((c["family"], c["policy"], c["smoothing"], c["records"]), nontrivial=(len(set(dts)) >= 2 and len(dts) >= 2) or isinstance(res, str),
                 sample=dict(family=c["family"], policy=c["policy"], dts=dts, lengths=[len(r["vt"]) for r in c["records"]],
                             result=("err: " + str(im.get("error")) if isinstance(res, str) else list(np.asarray(res).shape))))
        ctx.count("policy:" + c["policy"]); ctx.count("n_dt:%d" % len(set(dts))); ctx.count("result:" + ("err" if isinstance(res, str) else "ok"))
        ctx.traces += 1
        if not isinstance(res, str) and ctx.evaluations % 3 == 0:
            # history on the recording objects: processed, edited in place, processed again (same objects, same settings) vs fresh objects with the edited samples
            bad = pg.edited_reprocess_probe(c, np.random.default_rng(ctx.seed + ctx.evaluations))
            ctx.supporting["edited_reprocess_cases"] = ctx.supporting.get("edited_reprocess_cases", 0) + 1
            if bad is not None:
                ctx.violation("curve-independent-of-other-records", dict(case=c, why="the same recording objects, edited in place after a first process() and processed again, "
                                                                                    "do not give the curves of fresh objects holding the edited samples", **bad),
                              seam="hvsrpy.process called twice on edited recording objects")
        ok, what = pg.results_agree(c, im, mo)
        nfft = max(len(r["vt"]) for r in c["records"])
        if not ok:
            if what in ("amplitude", "error-vs-value") and pg.smoothing_margin(c, nfft) < 1e-9:
                ctx.near_tie_skipped += 1
                continue
            ctx.violation("one-curve-per-record-in-order", dict(case=c, differs_in=what, impl=(res if isinstance(res, str) else np.asarray(res).tolist()),
                                                               impl_error=im.get("error"), model=(mo["result"] if isinstance(mo["result"], str) else np.asarray(mo["result"]).tolist()),
                                                               model_error=mo.get("error")), seam="hvsrpy.process")
            continue
        # --- property sentences evaluated on the implementation (independent of the model)
        kept_options = expected_kept(c)
        if isinstance(res, str):
            # refused: only legitimate when a centre frequency exceeds the Nyquist frequency of a kept record, or a smoothing window is empty
            continue
        if c["family"] == "az":
            # one HvsrTraditional per azimuth, each with exactly one curve per retained recording
            for hz in res:
                if not any(len(k) == len(hz) for k in kept_options):
                    ctx.violation("keeping-policy-retains-exactly", dict(case=c, n_curves=len(hz), expected_one_of=kept_options), seam="hvsrpy.process (azimuthal)")
                    break
                if not (np.all(np.isfinite(hz)) and np.all(hz >= 0)):
                    ctx.violation("finite-non-negative-amplitudes", dict(case=c), seam="result.amplitude")
                    break
            continue
        kept = next((k for k in kept_options if len(k) == len(res)), None)
        if kept is None:
            ctx.violation("keeping-policy-retains-exactly", dict(case=c, n_curves=len(res), expected_one_of=kept_options), seam="hvsrpy.process")
            continue
        fcs = np.array(c["smoothing"]["center_frequencies_in_hz"])
        if not np.array_equal(np.asarray(im["frequency"]), fcs):
            ctx.violation("sampled-at-requested-centre-frequencies", dict(case=c, got=np.asarray(im["frequency"]).tolist()), seam="result.frequency")
        if not (np.all(np.isfinite(res)) and np.all(res >= 0)):
            ctx.violation("finite-non-negative-amplitudes", dict(case=c), seam="result.amplitude")
        if any(f > 1 / (2 * c["records"][i]["dt"]) for f in fcs for i in kept):
            ctx.violation("above-nyquist-is-refused", dict(case=c, kept=kept), seam="hvsrpy.process")
        # alone / permuted at one fixed FFT length: only the default length 2**15 can be fixed through the public API
        # (a user value below 2**15 is raised to 2**15), so these runs use fft_settings=None on the implementation
        smd = pg.gen_smoothing(rng, 32768, dts, op=c["smoothing"]["operator"])
        cd = dict(c, fft=None, smoothing=smd)
        joint = pg.run_impl(cd)["result"]
        if isinstance(joint, str) or len(joint) != len(kept):
            continue
        for pos, i in enumerate(kept):
            alone = pg.run_impl(dict(cd, records=[c["records"][i]], policy=pg.POLICIES[0]))["result"]
            ctx.supporting["alone_runs"] = ctx.supporting.get("alone_runs", 0) + 1
            if isinstance(alone, str) or not pg.mat_close(alone[0], joint[pos], 1e-12):
                ctx.violation("curve-independent-of-other-records", dict(case=cd, record=i, joint=np.asarray(joint[pos]).tolist(),
                                                                        alone=(alone if isinstance(alone, str) else np.asarray(alone[0]).tolist())), seam="hvsrpy.process")
                break
        if ctx.evaluations % 2 == 0:
            # a list in which ONE recording object occurs at several positions ([a, b, a]; a window repeated on purpose, or the same object appended
            # twice by a loop): every position yields its own curve, equal to what distinct objects holding the same samples yield (seed C03-W of round 9
            # keyed the positions by id(record))
            k = len(c["records"])
            idx = list(range(k)) + [0] if k == 1 else [0, 1, 0] + list(range(2, k)) + ([1] if k % 2 else [])
            ca = dict(cd, records=[c["records"][j] for j in idx])
            objs = [pg.make_srecord(r) for r in c["records"]]
            ra = pg.run_impl(ca, srecords=[objs[j] for j in idx])["result"]
            rf = pg.run_impl(ca)["result"]
            ctx.supporting["aliased_list_runs"] = ctx.supporting.get("aliased_list_runs", 0) + 1
            same = (isinstance(ra, str) and isinstance(rf, str)) or (not isinstance(ra, str) and not isinstance(rf, str) and len(ra) == len(rf)
                                                                       and all(pg.mat_close(a, b, 1e-12) for a, b in zip(ra, rf)))
            if not same:
                ctx.violation("one-curve-per-record-in-order", dict(case=dict(ca, shared_positions=idx, n_objects=k), positions_of_shared_objects=idx,
                                                                    why="a list holding one recording object at several positions does not give the curves of "
                                                                        "distinct objects with the same samples at those positions",
                                                                    shared=(ra if isinstance(ra, str) else np.asarray(ra).tolist()),
                                                                    distinct=(rf if isinstance(rf, str) else np.asarray(rf).tolist())),
                              seam="hvsrpy.process with one object at several positions")
        if len(c["records"]) >= 2:
            perm = [int(x) for x in rng.permutation(len(c["records"]))]
            pr = pg.run_impl(dict(cd, records=[c["records"][j] for j in perm]))["result"]
            ctx.supporting["permuted_runs"] = ctx.supporting.get("permuted_runs", 0) + 1
            pkept_opts = expected_kept(dict(c, records=[c["records"][j] for j in perm]))
            ambiguous = any(set(perm[q] for q in pk) != set(kept) for pk in pkept_opts)   # tie between most frequent time steps
            if isinstance(pr, str):
                if not ambiguous:
                    ctx.violation("order-independence", dict(case=cd, permutation=perm, permuted="err"), seam="hvsrpy.process")
            else:
                okp = False
                for pk in pkept_opts:
                    if len(pk) == len(pr):
                        orig = [perm[q] for q in pk]
                        if set(orig) == set(kept):
                            okp = all(pg.mat_close(pr[a], joint[kept.index(o)], 1e-12) for a, o in enumerate(orig))
                        else:
                            okp = True   # another most-frequent time step was legitimately chosen
                        if okp:
                            break
                if not okp:
                    ctx.violation("order-independence", dict(case=cd, permutation=perm), seam="hvsrpy.process")


def replay(case):
    import c01
    if "shared_positions" in case:
        idx = case["shared_positions"]
        objs = {}
        for pos, j in enumerate(idx):
            objs.setdefault(j, pg.make_srecord(case["records"][pos]))
        f = lambda r: r if isinstance(r, str) else np.asarray(r).tolist()
        return dict(shared_objects=f(pg.run_impl(case, srecords=[objs[j] for j in idx])["result"]), distinct_objects=f(pg.run_impl(case)["result"]))
    return c01.replay(case)
