"""Fresh-interpreter, reversed-order evaluation of implementation results (used by common.reverse_order_probe).

usage: revprobe.py MODULE FUNC   (stdin: JSON list of cases; stdout: 'REVPROBE ' + JSON list of canonical results, in the ORIGINAL order)
The cases are evaluated last to first in a process that has evaluated nothing else: a result that depends on what the library did
before (a cache with an incomplete key, a mutated module-level default, a memoised array) shows up as a difference from the in-process,
first-to-last evaluation."""
import importlib
import json
import os
import sys

sys.path.insert(0, os.path.dirname(os.path.abspath(__file__)))


def main():
    import common
    mod = importlib.import_module(sys.argv[1])
    fn = getattr(mod, sys.argv[2])
    cases = json.load(sys.stdin)
    out = [None] * len(cases)
    for k in range(len(cases) - 1, -1, -1):
        out[k] = common.canon_result(fn(cases[k]))
    sys.stdout.write("REVPROBE " + json.dumps(out))


if __name__ == "__main__":
    main()
