"""C19 -- command-line batch output equals the library pipeline for each file.

Correspondence of the real `hvsrpy` command line interface (run in subprocesses on generated
miniSEED batches) with (a) the library pipeline read -> preprocess -> process -> write executed
in-process for every file alone with freshly loaded settings files (byte comparison of
`<stem>.csv`) and (b) Model/Cli.lean (`cliBatch`, `alone`, `chunks`, `prepareFft`, `nextpow2`).
"""
import itertools
import json
import os
import shutil
import subprocess
import sys
import types
import concurrent.futures as cf

import numpy as np

from common import *

PROP_MODULES = ["HvsrVerif.Props.C19"]
BRIDGE_MODULES = ["HvsrVerif.Bridge.PyFft"]
EXE = "drv_c19"
RATES = [100, 250, 500]
MAX_PARALLEL = 8
CLI_TIMEOUT = 900

# the console script `hvsrpy` is `hvsrpy.cli:cli` (setup.py entry_points)
LAUNCH_PLAIN = "from hvsrpy.cli import cli; cli()"
# same, but the chunk handed to a worker by Pool.starmap is logged (observation only:
# the original `starmapstar` does the work)
LAUNCH_OBSERVE = """
import os, json, multiprocessing.pool as _mpp
_orig = _mpp.starmapstar
def starmapstar(args):
    chunk = args[1]
    rec = dict(pid=os.getpid(), files=[str(a[0]) for a in chunk],
               one_settings_object=len(set(id(a[2]) for a in chunk)) == 1)
    fd = os.open("c19_chunks.log", os.O_WRONLY | os.O_APPEND | os.O_CREAT, 0o644)
    os.write(fd, (json.dumps(rec) + "\\n").encode()); os.close(fd)
    return _orig(args)
_mpp.starmapstar = starmapstar
from hvsrpy.cli import cli; cli()
"""

METHODS = ["geometric_mean", "squared_average", "arithmetic_mean", "total_horizontal_energy",
           "maximum_horizontal_value", "single_azimuth", "rotdpp", "azimuthal", "diffuse_field"]
SMOOTH = [("konno_and_ohmachi", 40), ("parzen", 0.5), ("log_rectangular", 0.1), ("linear_triangular", 0.6)]
FFTS = ["unset", "nokey", "nnone", 1024, 65536, 100000]

WITNESS_CFG = dict(wl=100.0, detrend="linear", filt=[None, None], method="geometric_mean", fft="unset",
                   op="konno_and_ohmachi", bw=40, nfc=24, width=0.1, azimuths=[], dist_mc="lognormal",
                   dist_fn="lognormal")


# ----------------------------------------------------------------------------
# inputs
def fft_value(tok):
    return {"unset": None, "nokey": {}, "nnone": {"n": None}}.get(tok, {"n": tok} if isinstance(tok, int) else None)


def fft_token(v):
    if v is None:
        return "unset"
    if "n" not in v:
        return "nokey"
    return "nnone" if v["n"] is None else str(int(v["n"]))


def reps_of(cfg):
    """number of prepare_fft_settings calls on the task's settings object during hvsrpy.process"""
    return 1 + len(cfg["azimuths"]) if cfg["method"] == "azimuthal" else 1


def gen_cfg(rng, nontrivial_bias=True):
    method = METHODS[int(rng.integers(0, len(METHODS)))]
    op, bw = SMOOTH[int(rng.integers(0, len(SMOOTH)))]
    fft = FFTS[int(rng.integers(0, len(FFTS)))]
    wl = float(rng.choice([100.0, 150.0] if nontrivial_bias else [60.0, 100.0, 150.0]))
    if wl == 60.0:
        fft = "nnone"     # n = samples per window: distinct per sampling rate also below 2^15
    az = []
    if method in ("rotdpp", "azimuthal"):
        az = [float(a) for a in np.arange(0, 180, [45, 60, 90][int(rng.integers(0, 3))])]
    elif method == "single_azimuth":
        az = [float(rng.choice([0.0, 20.0, 75.0, 130.0]))]
    return dict(wl=wl, detrend=str(rng.choice(["linear", "constant", "none"])),
                filt=[None, None] if rng.random() < 0.6 else [0.1, 30.0],
                method=method, fft=fft, op=op, bw=bw, nfc=int(rng.integers(12, 33)),
                width=float(rng.choice([0.1, 0.2, 0.5])), azimuths=az,
                dist_mc=str(rng.choice(["lognormal", "normal"])), dist_fn=str(rng.choice(["lognormal", "normal"])))


def gen_specs(rng, cfg, rates, tag):
    """file specs (different sampling rates, 2-3 windows plus an incomplete tail => different lengths)"""
    specs = []
    for i, fs in enumerate(rates):
        nwin = int(rng.integers(2, 4))
        per = int(round(cfg["wl"] * fs))
        tail = int(rng.integers(0, int(0.3 * per))) if rng.random() < 0.5 else 0
        # station-style names with dots in the stem (net.sta.loc.mseed) for every other file: the stem is the name without its LAST extension
        specs.append(dict(stem=(f"{tag}{i}_{fs}hz" if i % 2 == 0 else f"{tag}.st{i}.{fs}hz"), fs=int(fs), nsamp=nwin * per + 1 + tail, seed=int(rng.integers(0, 2**31))))
    return specs


def make_file(path, spec):
    import obspy
    rng = np.random.default_rng(spec["seed"])
    n, fs = spec["nsamp"], spec["fs"]
    t = np.arange(n) / fs
    f0 = rng.uniform(0.6, 6.0)
    st = obspy.Stream()
    for ch in "ENZ":
        x = rng.normal(0, 800, n)
        if ch != "Z":
            x = x + 1500 * np.sin(2 * np.pi * f0 * t + rng.uniform(0, 6.28)) * rng.uniform(0.5, 1.5)
        tr = obspy.Trace(data=np.round(x).astype(np.int32))
        tr.stats.sampling_rate = fs
        tr.stats.network, tr.stats.station, tr.stats.channel = "XX", "C19", "BH" + ch
        st.append(tr)
    st.write(path, format="MSEED")


def write_settings(cfg, root):
    from hvsrpy import settings as S
    pre = S.HvsrPreProcessingSettings(window_length_in_seconds=cfg["wl"], detrend=cfg["detrend"],
                                      filter_corner_frequencies_in_hz=list(cfg["filt"]))
    common_kw = dict(window_type_and_width=["tukey", cfg["width"]],
                     smoothing=dict(operator=cfg["op"], bandwidth=cfg["bw"],
                                    center_frequencies_in_hz=np.geomspace(0.3, 20, cfg["nfc"])),
                     fft_settings=fft_value(cfg["fft"]))
    m = cfg["method"]
    if m == "azimuthal":
        pro = S.HvsrAzimuthalProcessingSettings(azimuths_in_degrees=list(cfg["azimuths"]), **common_kw)
    elif m == "diffuse_field":
        pro = S.HvsrDiffuseFieldProcessingSettings(**common_kw)
    elif m == "rotdpp":
        pro = S.HvsrTraditionalRotDppProcessingSettings(azimuths_in_degrees=list(cfg["azimuths"]), **common_kw)
    elif m == "single_azimuth":
        pro = S.HvsrTraditionalSingleAzimuthProcessingSettings(azimuth_in_degrees=cfg["azimuths"][0], **common_kw)
    else:
        pro = S.HvsrTraditionalProcessingSettings(method_to_combine_horizontals=m, **common_kw)
    pre.save(os.path.join(root, "pre.json"))
    pro.save(os.path.join(root, "pro.json"))


def build_scenario(root, cfg, specs):
    os.makedirs(os.path.join(root, "data"), exist_ok=True)
    os.makedirs(os.path.join(root, "ref"), exist_ok=True)
    write_settings(cfg, root)
    for s in specs:
        p = data_path(root, s)
        os.makedirs(os.path.dirname(p), exist_ok=True)
        if not os.path.exists(p):
            make_file(p, s)


def data_path(root, spec):
    return os.path.join(root, "data", spec.get("dir", ""), spec["stem"] + ".mseed")


# ----------------------------------------------------------------------------
# the two implementations
def reference(root, cfg, spec):
    """library pipeline for the file alone with freshly loaded settings files"""
    import hvsrpy
    from hvsrpy.object_io import read_settings_object_from_file
    path = data_path(root, spec)
    out = os.path.join(root, "ref", spec["stem"] + ".csv")
    try:
        with quiet():
            pre = read_settings_object_from_file(os.path.join(root, "pre.json"))
            pro = read_settings_object_from_file(os.path.join(root, "pro.json"))
            rec = hvsrpy.read([[path]])
            rec = hvsrpy.preprocess(rec, pre)
            hv = hvsrpy.process(rec, pro)
            hvsrpy.write_hvsr_object_to_file(hv, out, distribution_mc=cfg["dist_mc"], distribution_fn=cfg["dist_fn"])
        with open(out, "rb") as f:
            data = f.read()
        return dict(ok=True, samples=int(max(r.vt.n_samples for r in rec)), windows=len(rec),
                    n_after=fft_token(pro.fft_settings), csv=data)
    except Exception as e:  # the library pipeline itself failed: reported, never silently skipped
        return dict(ok=False, error=f"{type(e).__name__}: {e}")


REF_SCRIPT = r"""
import sys, json, base64
sys.path.insert(0, sys.argv[1])
sys.path.insert(0, sys.argv[2])
import c19
root, cfg, spec = sys.argv[3], json.loads(sys.argv[4]), json.loads(sys.argv[5])
r = c19.reference(root, cfg, spec)
if r.get("csv") is not None:
    r["csv"] = base64.b64encode(r["csv"]).decode()
sys.stdout.write("C19REF " + json.dumps(r))
"""


def references_fresh(jobs):
    """the library pipeline for every (root, cfg, spec) in ITS OWN fresh interpreter (so that no module-level state -- caches, mutated
    defaults -- left by an earlier file can leak into the reference), run concurrently; returns results in order"""
    import base64
    from concurrent.futures import ThreadPoolExecutor
    env = dict(os.environ)
    env["PYTHONPATH"] = REPO + (os.pathsep + env["PYTHONPATH"] if env.get("PYTHONPATH") else "")
    env["PYTHONDONTWRITEBYTECODE"] = "1"

    def one(job):
        root, cfg, spec = job
        try:
            p = subprocess.run([sys.executable, "-W", "ignore", "-c", REF_SCRIPT, os.path.dirname(os.path.abspath(__file__)), REPO, root, json.dumps(cfg), json.dumps(spec)],
                               env=env, stdout=subprocess.PIPE, stderr=subprocess.PIPE, timeout=CLI_TIMEOUT)
            out = p.stdout.decode(errors="replace")
            k = out.rfind("C19REF ")
            if k < 0:
                return dict(ok=False, error="reference process failed: " + p.stderr.decode(errors="replace")[-300:])
            r = json.loads(out[k + 7:])
            if r.get("csv") is not None:
                r["csv"] = base64.b64decode(r["csv"])
            return r
        except subprocess.TimeoutExpired:
            return dict(ok=False, error="reference process timed out")
    with ThreadPoolExecutor(max_workers=8) as ex:
        return list(ex.map(one, jobs))


def run_cli(rundir, root, cfg, specs, nproc, observe):
    os.makedirs(rundir, exist_ok=True)
    env = dict(os.environ)
    env["PYTHONPATH"] = REPO + (os.pathsep + env["PYTHONPATH"] if env.get("PYTHONPATH") else "")
    env["PYTHONDONTWRITEBYTECODE"] = "1"
    cmd = [sys.executable, "-W", "ignore", "-c", LAUNCH_OBSERVE if observe else LAUNCH_PLAIN]
    cmd += [data_path(root, s) for s in specs]
    cmd += ["--preprocessing_settings_file", os.path.join(root, "pre.json"),
            "--processing_settings_file", os.path.join(root, "pro.json"),
            "--no_figure", "--nproc", str(nproc),
            "--distribution_mc", cfg["dist_mc"], "--distribution_fn", cfg["dist_fn"]]
    try:
        p = subprocess.run(cmd, cwd=rundir, env=env, stdout=subprocess.PIPE, stderr=subprocess.PIPE, timeout=CLI_TIMEOUT)
        rc, so, se = p.returncode, p.stdout.decode(errors="replace"), p.stderr.decode(errors="replace")
    except subprocess.TimeoutExpired:
        rc, so, se = "timeout", "", ""
    res = dict(rc=rc, stdout=so[-1500:], stderr=se[-1500:], files={}, extra=[], chunks=None)
    for fn in sorted(os.listdir(rundir)):
        p = os.path.join(rundir, fn)
        if fn == "c19_chunks.log":
            with open(p) as f:
                res["chunks"] = [json.loads(ln) for ln in f if ln.strip()]
        elif fn.endswith(".csv") and fn[:-4] in [s["stem"] for s in specs]:
            with open(p, "rb") as f:
                res["files"][fn[:-4]] = f.read()
        else:
            res["extra"].append(fn)
    return res


def header_fft(data):
    """fft_settings recorded in the JSON header of a csv written by write_hvsr_object_to_file"""
    lines = [ln[2:] for ln in data.decode("utf-8", errors="replace").split("\n") if ln.startswith("# ")]
    try:
        meta = json.loads("\n".join(lines[:-1]))
    except Exception:
        return "unreadable"
    return fft_token(meta.get("fft_settings"))


def model_lines(cfg, samples, nproc):
    k = " ".join(str(s) for s in samples)
    head = f"{max(nproc, 0)} %s {reps_of(cfg)} {cfg['fft']} {len(samples)} {k}"
    return [f"cli.batch {head % 'fresh'}", f"cli.batch {head % 'shared'}"] + \
           [f"cli.alone {reps_of(cfg)} {cfg['fft']} {s}" for s in samples]


def parse_batch(line):
    t = Toks(line)
    if t.tok() != "ok":
        return dict(err=" ".join(t.rest()))
    ns = [t.tok() for _ in range(t.nat())]
    return dict(n=ns, chunks=t.nvec())


def first_diff(a, b):
    la, lb = a.split(b"\n"), b.split(b"\n")
    for i, (x, y) in enumerate(zip(la, lb)):
        if x != y:
            return dict(line=i + 1, cli=x[:160].decode(errors="replace"), ref=y[:160].decode(errors="replace"))
    return dict(line=min(len(la), len(lb)) + 1, cli=f"{len(la)} lines", ref=f"{len(lb)} lines")


def judge(case, cli, refs, mo):
    """all disagreements of one CLI run: list of (clause, seam, detail)"""
    specs, bad = case["files"], []
    fresh, shared = parse_batch(mo[0]), parse_batch(mo[1])
    alone = [Toks(x).rest()[-1] for x in mo[2:]]
    if cli["rc"] != 0:
        if "err" in fresh and cli["rc"] not in ("timeout",) and "ValueError" in cli["stderr"] and "ValueError" in fresh["err"]:
            return bad      # no file / nproc < 1: both refuse
        bad.append(("output-written-for-every-file", "cli exit status", dict(rc=cli["rc"], stderr=cli["stderr"][-600:])))
    if "err" in fresh:
        if cli["rc"] == 0:
            bad.append(("output-written-for-every-file", "cli exit status", dict(model=fresh, rc=0)))
        return bad
    for i, s in enumerate(specs):
        ref = refs[s["stem"]]
        if not ref["ok"]:
            bad.append(("library-pipeline-runs", "hvsrpy.read/preprocess/process/write", dict(file=s, error=ref["error"])))
            continue
        if ref["n_after"] != alone[i]:
            bad.append(("fft-length-as-modelled", "library pipeline: settings.fft_settings after process",
                        dict(file=s, samples=ref["samples"], impl=ref["n_after"], model_alone=alone[i])))
        got = cli["files"].get(s["stem"])
        if got is None:
            bad.append(("output-written-for-every-file", "<stem>.csv in the working directory",
                        dict(file=s, present=sorted(cli["files"]), other_files=cli["extra"], stdout=cli["stdout"][-400:], stderr=cli["stderr"][-400:])))
            continue
        hn = header_fft(got)
        if got != ref["csv"]:
            bad.append(("batch-output-equals-library-pipeline", "<stem>.csv bytes",
                        dict(file=s, position=i, first_difference=first_diff(got, ref["csv"]), fft_n_cli=hn, fft_n_alone=ref["n_after"],
                             model_fresh=fresh["n"][i], model_shared=shared["n"][i],
                             explained_by_shared_settings_model=(hn == shared["n"][i] and hn != fresh["n"][i]))))
        if hn != fresh["n"][i]:
            bad.append(("fft-length-as-modelled", "csv header fft_settings.n",
                        dict(file=s, position=i, impl=hn, model=fresh["n"][i], model_shared=shared["n"][i])))
    if cli["extra"]:
        bad.append(("output-written-for-every-file", "unexpected files in the working directory", dict(extra=cli["extra"])))
    if cli["chunks"] is not None and cli["rc"] == 0:
        pos = {s["stem"]: i for i, s in enumerate(specs)}
        obs = []
        for c in cli["chunks"]:
            obs.append([pos.get(os.path.splitext(os.path.basename(f))[0], -1) for f in c["files"]])
        obs.sort()
        want, k = [], 0
        for ln in fresh["chunks"]:
            want.append(list(range(k, k + ln)))
            k += ln
        if obs != want:
            bad.append(("chunking-as-modelled", "multiprocessing.Pool.starmap chunks", dict(observed=obs, model=want)))
    return bad


# ----------------------------------------------------------------------------
def unit_probes(ctx, rng):
    """nextpow2 / prepare_fft_settings of the real module against the model (in-process, cheap)"""
    from hvsrpy import processing as P
    from hvsrpy.settings import HvsrTraditionalProcessingSettings
    n = ctx.budget(150, 1500)
    lines, impl, cases = [], [], []
    for i in range(n):
        m = int(rng.choice([2**15, 2**15, 1, 2, 3, 1000, 2**int(rng.integers(0, 18))]))
        x = int(rng.choice([rng.integers(0, 300000), m * 2**int(rng.integers(0, 6)), m * 2**int(rng.integers(0, 6)) - 1, m - 1, m]))
        x = max(x, 0)
        lines.append(f"nextpow2 {x} {m}")
        impl.append(f"ok {P.nextpow2(x, minimum_power_of_two=m)}")
        cases.append(dict(op="nextpow2", n=x, min=m))
    for i in range(n):
        maxn = int(rng.choice([rng.integers(1, 140000), 2**15, 2**15 - 1, 2**16, 2**16 - 1, 300]))
        st = ["unset", "nokey", "nnone", int(rng.choice([rng.integers(1, 200000), 2**15, 2**16, maxn, 1024]))][int(rng.integers(0, 4))]
        reps = int(rng.integers(1, 4))
        ks = [int(rng.integers(1, maxn + 1)) for _ in range(int(rng.integers(0, 3)))] + [maxn]
        rng.shuffle(ks)
        recs = [types.SimpleNamespace(vt=types.SimpleNamespace(n_samples=k)) for k in ks]
        s = HvsrTraditionalProcessingSettings(fft_settings=fft_value(st))
        seq = []
        for _ in range(reps):
            P.prepare_fft_settings(recs, s)
            seq.append(fft_token(s.fft_settings))
        lines.append(f"prepfft {st} {reps} {maxn}")
        impl.append("ok " + " ".join(seq))
        cases.append(dict(op="prepfft", state=st, reps=reps, samples=ks))
        ctx.count("prepfft:" + (st if isinstance(st, str) else "n"))
    outs = run_driver(lines, exe=EXE)
    for c, a, b in zip(cases, impl, outs):
        ctx.supporting["unit_fft_cases"] = ctx.supporting.get("unit_fft_cases", 0) + 1
        if a != b:
            ctx.violation("fft-length-as-modelled", dict(case=dict(kind="unit", **c), impl_output=a, model_output=b),
                          seam="processing.nextpow2/prepare_fft_settings")


def plan(ctx, rng):
    """scenarios = (settings, file pool); runs = (scenario, order of the files, nproc, observe chunks)"""
    scen, runs = [], []
    # S0: the witness of the repaired defect C19-a: 500 Hz then 100 Hz, 100 s windows, --nproc 1
    s0 = [dict(stem="w0_500hz", fs=500, nsamp=2 * 50000 + 1, seed=int(rng.integers(0, 2**31))),
          dict(stem="w1_100hz", fs=100, nsamp=2 * 10000 + 1 + 777, seed=int(rng.integers(0, 2**31))),
          dict(stem="w2_250hz", fs=250, nsamp=3 * 25000 + 1, seed=int(rng.integers(0, 2**31)))]
    scen.append((dict(WITNESS_CFG), s0))
    if ctx.quick():
        runs += [(0, [0, 1], 1, False), (0, [0, 2, 1], 1, True), (0, [1, 0, 2], 2, True), (0, [0, 1], 3, True)]
        cfg = gen_cfg(rng)
        cfg["dist_mc"], cfg["dist_fn"] = "normal", "lognormal"     # non-default --distribution_mc for EVERY file of a chunk; options must not be mixed up
        cfg["filt"] = [0.1, 30.0]     # a band-pass on files of different sampling rates within one worker (per-file filter design)
        k = int(rng.integers(4, 6))
        rates = [500, 100] + [int(rng.choice(RATES)) for _ in range(k - 2)]
        rng.shuffle(rates)
        scen.append((cfg, gen_specs(rng, cfg, rates, "a")))
        for j, nproc in enumerate([2, 1, 3]):
            runs.append((1, [int(i) for i in rng.permutation(k)], nproc, j != 1))
        cfg = gen_cfg(rng, nontrivial_bias=False)
        cfg["dist_mc"], cfg["dist_fn"] = "lognormal", "normal"
        k = int(rng.integers(2, 4))
        scen.append((cfg, gen_specs(rng, cfg, [int(x) for x in rng.permutation(RATES)[:k]], "b")))
        runs += [(2, list(range(k)), 1, True), (2, list(range(k))[::-1], 2, False)]
    else:
        runs += [(0, [0, 1], 1, False), (0, [0, 1], 2, True), (0, [0, 1], 3, True), (0, [1, 0], 0, False)]
        for j, (order, nproc) in enumerate(itertools.product(itertools.permutations(range(3)), [1, 2, 3])):
            runs.append((0, list(order), nproc, j % 2 == 0))
        for si in range(1, 9):
            cfg = gen_cfg(rng, nontrivial_bias=(si % 3 != 0))
            k = int(rng.integers(2, 6))
            rates = ([500, 100] if si % 3 != 0 else []) + [int(rng.choice(RATES)) for _ in range(k)]
            rates = rates[:k]
            rng.shuffle(rates)
            scen.append((cfg, gen_specs(rng, cfg, rates, "abcdefghij"[si])))
            orders = list(itertools.permutations(range(k))) if k == 2 else [tuple(int(i) for i in rng.permutation(k)) for _ in range(4)]
            # sub-batches: which other files are in the batch
            if k >= 3:
                orders[-1] = orders[-1][:k - 1]
            for j, order in enumerate(orders):
                runs.append((si, list(order), [1, 2, 3][int(rng.integers(0, 3))], j % 2 == 1))
    return scen, runs


def run(ctx):
    ctx.rule = ("scenario = processing/preprocessing settings files (method, smoothing, taper, fft_settings in {None, {}, {n: None}, {n: k}}, "
                "window length) + 2-5 generated three-component miniSEED files (100/250/500 Hz, 2-3 windows + incomplete tail); "
                "case = one run of the real CLI (subprocess, --no_figure) on an ordered sub-batch with --nproc in {1,2,3}; every <stem>.csv is "
                "compared byte-for-byte with read->preprocess->process->write executed in-process for that file alone with freshly loaded "
                "settings, its header fft n with the model (`alone`/`cliBatch`), observed Pool chunks with `chunks`; "
                "non-trivial = batch with >= 2 files whose stand-alone FFT lengths differ; distinct by (settings, ordered files, nproc)")
    ctx.trusted += ["C19: which OS process executes which chunk, the order in which chunks are executed, pickling/unpickling of the task "
                    "arguments (one settings object per chunk) and the CPython implementation of multiprocessing.Pool.starmap are not modelled; "
                    "`chunks` mirrors Pool._get_tasks and is compared with the chunks observed in instrumented runs, `batch_eq_alone` holds "
                    "for every list of chunks",
                    "C19: the per-file computation (obspy reading, detrend, FFT, smoothing, statistics, np.savetxt) is an uninterpreted function "
                    "of (file, FFT length) in the model; its equality between CLI and library is established by byte comparison only on the generated batches",
                    "C19: click option parsing"]
    ctx.assumptions += ["the input files of a batch have pairwise distinct stems (the CLI writes `<stem>.csv` into the working directory)",
                        "the same path string is given to the CLI and to hvsrpy.read (it is recorded in the csv header)"]
    rng = np.random.default_rng(ctx.seed)
    unit_probes(ctx, rng)
    root = os.path.join(WORK, "c19")
    shutil.rmtree(root, ignore_errors=True)
    try:
        scen, runs = plan(ctx, rng)
        roots = []
        for i, (cfg, specs) in enumerate(scen):
            r = os.path.join(root, f"s{i}")
            build_scenario(r, cfg, specs)
            roots.append(r)
        with cf.ThreadPoolExecutor(max_workers=MAX_PARALLEL) as ex:
            futs = []
            for j, (si, order, nproc, observe) in enumerate(runs):
                cfg, specs = scen[si]
                futs.append(ex.submit(run_cli, os.path.join(roots[si], f"run{j}"), roots[si], cfg,
                                      [specs[k] for k in order], nproc, observe))
            # outside the assumption "distinct stems": two inputs named x.mseed in different directories (recorded, not judged)
            dup = [dict(scen[0][1][0], dir="d1", stem="x"), dict(scen[0][1][1], dir="d2", stem="x")]
            build_scenario(roots[0], scen[0][0], dup)
            dupf = ex.submit(run_cli, os.path.join(roots[0], "run_same_stem"), roots[0], scen[0][0], dup, 1, False)
            # meanwhile: the reference for every (settings, file), in this process
            jobs = [(roots[i], cfg, s) for i, (cfg, specs) in enumerate(scen) for s in specs]
            flat = references_fresh(jobs)
            refs, k = [], 0
            for i, (cfg, specs) in enumerate(scen):
                refs.append({s["stem"]: flat[k + j] for j, s in enumerate(specs)})
                k += len(specs)
            # a file whose name contains glob metacharacters, next to one that the pattern would match: the file NAMED is the one processed
            br = [dict(scen[0][1][1], stem="b[1]_100hz"), dict(scen[0][1][1], stem="b1_100hz", seed=scen[0][1][1]["seed"] + 1)]
            build_scenario(roots[0], scen[0][0], br)
            brf = ex.submit(run_cli, os.path.join(roots[0], "run_brackets"), roots[0], scen[0][0], br[:1], 1, False)
            clis = [f.result() for f in futs]
            dupr = dupf.result()
            brr = brf.result()
            bref = references_fresh([(roots[0], scen[0][0], br[0])])[0]
            ctx.supporting["bracket_name_probe"] = 1
            got = brr["files"].get(br[0]["stem"])
            if brr["rc"] != 0 or got is None or not bref.get("ok") or got != bref.get("csv") or any(x.endswith(".csv") for x in brr["extra"]):
                ctx.violation("output-written-for-every-file", dict(case=dict(cfg=scen[0][0], files=br[:1], nproc=1, also_present_in_directory=br[1]["stem"] + ".mseed"),
                                                                 detail=dict(rc=brr["rc"], csv_written=sorted(brr["files"]), other_files=brr["extra"], stderr=brr["stderr"][-300:],
                                                                             equals_reference=(got == bref.get("csv")) if got is not None else None)),
                              seam="CLI on a file name containing '[' ']'")
        ctx.notes.append("same-stem probe (outside the stated assumption): `cli d1/x.mseed d2/x.mseed --nproc 1` exit=%s wrote %d csv file(s) "
                         "for 2 input files (both results go to ./x.csv, the later one survives)" % (dupr["rc"], len(dupr["files"])))
        ctx.count("same_stem_probe_csv_files:%d" % len(dupr["files"]))
        if len(dupr["files"]) < 2:
            # known finding C19-b: the result for one of the two files is lost (depends on the other file of the batch)
            ctx.violation("same-stem-files-collide", dict(same_stem=True, case=dict(files=["d1/x.mseed", "d2/x.mseed"], nproc=1), csv_files_written=len(dupr["files"])),
                          seam="hvsrpy CLI output naming")
        lines, idx = [], []
        for (si, order, nproc, observe) in runs:
            cfg, specs = scen[si]
            smp = [refs[si][specs[k]["stem"]].get("samples", 0) for k in order]
            ml = model_lines(cfg, smp, nproc)
            idx.append((len(lines), len(ml)))
            lines += ml
        outs = run_driver(lines, exe=EXE)
        seen = {}
        for j, ((si, order, nproc, observe), cli) in enumerate(zip(runs, clis)):
            cfg, specs = scen[si]
            files = [specs[k] for k in order]
            case = dict(kind="batch", cfg=cfg, files=files, nproc=nproc, observe=observe)
            mo = outs[idx[j][0]: idx[j][0] + idx[j][1]]
            alone = [Toks(x).rest()[-1] for x in mo[2:]]
            fresh, shared = parse_batch(mo[0]), parse_batch(mo[1])
            nontriv = len(set(alone)) >= 2
            ctx.case((cfg, [(f["stem"], f["fs"], f["nsamp"], f["seed"]) for f in files], nproc), nontriv,
                     sample=dict(method=cfg["method"], fft=cfg["fft"], wl=cfg["wl"], nproc=nproc,
                                 files=[(f["fs"], f["nsamp"]) for f in files], fft_n_alone=alone,
                                 chunks_model=fresh.get("chunks"), chunks_observed=None if cli["chunks"] is None else [len(c["files"]) for c in cli["chunks"]],
                                 csv_equal=[cli["files"].get(f["stem"]) == refs[si][f["stem"]].get("csv") for f in files]))
            ctx.count(f"nproc:{nproc}")
            ctx.count(f"nfiles:{len(files)}")
            ctx.count("method:" + cfg["method"])
            ctx.count("fft:" + (cfg["fft"] if isinstance(cfg["fft"], str) else "n"))
            ctx.count("chunksize:" + str(max(fresh.get("chunks", [0]) or [0])))
            if fresh.get("n") != shared.get("n"):
                ctx.count("runs_where_shared_settings_would_differ")
            if observe:
                ctx.count("runs_with_observed_chunks")
                if cli["chunks"] and all(c["one_settings_object"] for c in cli["chunks"]):
                    ctx.count("chunks_with_one_settings_object", len(cli["chunks"]))
            ctx.traces += len(files)
            for clause, seam, detail in judge(case, cli, refs[si], mo):
                ctx.violation(clause, dict(case=case, detail=detail, model_output=mo), seam=seam)
            # the property sentence directly on the implementation: the bytes written for a file are the same in every batch
            for f in files:
                got = cli["files"].get(f["stem"])
                if got is None:
                    continue
                key = (si, f["stem"])
                if key in seen:
                    ctx.supporting["same_file_in_two_batches_pairs"] = ctx.supporting.get("same_file_in_two_batches_pairs", 0) + 1
                    if seen[key][0] != got:
                        ctx.violation("independent-of-batch-order-nproc",
                                      dict(case=case, other_case=seen[key][1], detail=dict(file=f, first_difference=first_diff(got, seen[key][0]))),
                                      seam="<stem>.csv bytes of two CLI runs")
                else:
                    seen[key] = (got, case)
    finally:
        shutil.rmtree(root, ignore_errors=True)
        _rmdir_if_empty(WORK)


def _rmdir_if_empty(d):
    try:
        os.rmdir(d)
    except OSError:
        pass


def replay(case):
    if case.get("kind") == "unit":
        from hvsrpy import processing as P
        from hvsrpy.settings import HvsrTraditionalProcessingSettings
        if case["op"] == "nextpow2":
            return dict(impl=P.nextpow2(case["n"], minimum_power_of_two=case["min"]),
                        model=run_driver([f"nextpow2 {case['n']} {case['min']}"], exe=EXE))
        recs = [types.SimpleNamespace(vt=types.SimpleNamespace(n_samples=k)) for k in case["samples"]]
        s = HvsrTraditionalProcessingSettings(fft_settings=fft_value(case["state"]))
        seq = []
        for _ in range(case["reps"]):
            P.prepare_fft_settings(recs, s)
            seq.append(fft_token(s.fft_settings))
        return dict(impl=seq, model=run_driver([f"prepfft {case['state']} {case['reps']} {max(case['samples'])}"], exe=EXE))
    root = os.path.join(WORK, "c19_replay")
    shutil.rmtree(root, ignore_errors=True)
    try:
        cfg, files = case["cfg"], case["files"]
        build_scenario(root, cfg, files)
        refs = {s["stem"]: r for s, r in zip(files, references_fresh([(root, cfg, s) for s in files]))}
        cli = run_cli(os.path.join(root, "run"), root, cfg, files, case["nproc"], case.get("observe", False))
        mo = run_driver(model_lines(cfg, [refs[s["stem"]].get("samples", 0) for s in files], case["nproc"]), exe=EXE)
        bad = judge(case, cli, refs, mo)
        return dict(disagreements=[dict(clause=c, seam=s, detail=d) for c, s, d in bad], model_output=mo,
                    cli=dict(rc=cli["rc"], stdout=cli["stdout"], chunks=cli["chunks"], written=sorted(cli["files"]), other=cli["extra"]),
                    csv_equal={s["stem"]: cli["files"].get(s["stem"]) == refs[s["stem"]].get("csv") for s in files})
    finally:
        shutil.rmtree(root, ignore_errors=True)
        _rmdir_if_empty(WORK)
