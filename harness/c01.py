"""C01 -- HVSR curves equal the defined spectral ratio for every combination method"""
import numpy as np

from common import *
import procgen as pg

PROP_MODULES = ["HvsrVerif.Props.C01", "HvsrVerif.Props.C01Laws", "HvsrVerif.Props.C01Methods", "HvsrVerif.Props.C01Rot", "HvsrVerif.Props.C01Diffuse"]
BRIDGE_MODULES = ["HvsrVerif.Bridge.C01", "HvsrVerif.Bridge.PyCombine", "HvsrVerif.Bridge.PyAzimuth", "HvsrVerif.Bridge.PyFft"]


def gen_case(rng, i):
    fam = ["trad", "trad", "trad", "saz", "rot", "trad", "diff", "trad", "saz", "rot", "az", "diff"][i % 12]
    default_n = (i % 9 == 8) or fam == "az"       # the azimuthal path always ends at n >= 2**15 (prepare_fft_settings runs twice)
    nrec = int(rng.integers(1, 7)) if not default_n else int(rng.integers(1, 3))      # 4+ windows: arrangements of two time steps whose grouping is not an involution ([a,b,b,a])
    dt = float(rng.choice(pg.DTS))
    nmax = 40 if default_n else 200
    dts = [dt] * nrec
    if nrec >= 2 and fam in ("trad", "saz", "rot", "az") and rng.random() < 0.35:    # windows with different time steps in one call
        pool = [float(x) for x in rng.choice(pg.DTS, 2 if rng.random() < 0.6 else 3, replace=False)]
        dts = [pool[int(rng.integers(0, len(pool)))] for _ in range(nrec)]
    force_resampling = False
    if not default_n and fam in ("trad", "saz", "rot") and i % 5 == 2:
        # an arrangement of two time steps whose grouping permutation is NOT its own inverse (the curves of such a list come back in the order given only
        # if the rows are put back with the inverse of the grouping), under the policy that keeps every window
        a_, b_ = [float(x) for x in rng.choice(pg.DTS, 2, replace=False)]
        dts = [[a_, b_, b_, a_], [a_, b_, a_, a_], [b_, a_, a_, b_, a_], [a_, b_, b_, a_, b_, a_]][int(rng.integers(0, 4))]
        nrec = len(dts)
        force_resampling = True
    recs = [pg.gen_record(rng, n=int(rng.integers(16, nmax)), dt=d, deg=float(rng.choice([0.0, 0.0, 30.0, 215.0]))) for d in dts]
    max_n = max(len(r["vt"]) for r in recs)
    fft = (None if rng.random() < 0.5 else dict(n=int(max_n + rng.integers(0, 40)))) if default_n else dict(n=None)
    if fam == "az" and rng.random() < 0.5:
        fft = dict(n=None)
    nfft = pg.predicted_nfft(fft, max_n)
    op = pg.OPS[int(rng.integers(0, 7))] if not default_n else str(rng.choice(["konno_and_ohmachi", "parzen", "log_triangular", "linear_rectangular"]))
    if len(set(dts)) > 1 and op == "savitzky_and_golay":
        op = "konno_and_ohmachi"
    sm = pg.gen_smoothing(rng, nfft, dts, op=op, nfc=(6 if default_n else None))
    if sm is None:
        return None
    policy = pg.POLICIES[int(rng.integers(0, 3))] if (len(set(dts)) > 1 and fam != "diff") else pg.POLICIES[0]
    if force_resampling:
        policy = "frequency_domain_resampling"
    case = dict(family=fam, smoothing=sm, width=float(rng.choice(pg.WIDTHS)), fft=fft, policy=policy, records=recs)
    if fam == "trad":
        case["method"] = pg.COMBINE_NAMES[int(rng.integers(0, len(pg.COMBINE_NAMES)))]
    elif fam == "saz":
        case["azimuth"] = float(rng.choice([0.0, 20.0, 90.0, 137.5, rng.uniform(0, 180)]))
        case["method"] = str(rng.choice(["single_azimuth", "directional_energy"]))
    elif fam == "rot":
        case["pct"] = float(rng.choice([0, 17.5, 50, 84, 100]))
        case["azimuths"] = [float(a) for a in np.arange(0, 180, int(rng.choice([45, 60]) if default_n else rng.choice([30, 45, 60])))]
        if not default_n and rng.random() < 0.3:
            # the azimuth list is the user's: a full circle, or a direction listed twice (a weighted list) -- the percentile is taken over the list as given
            case["azimuths"] = ([float(a) for a in np.arange(0, 360, int(rng.choice([45, 60, 90])))] if rng.random() < 0.5
                                else case["azimuths"] + [case["azimuths"][int(rng.integers(0, len(case["azimuths"])))] + float(rng.choice([0.0, 180.0]))])
    elif fam == "az":
        case["azimuths"] = [float(a) for a in sorted(rng.choice(np.arange(0, 180, 15), int(rng.integers(1, 3)), replace=False))]
    return case


def seams(ctx, rng):
    """L1 taper, L2 |rfft|, L3 combine functions vs the model"""
    import hvsrpy
    from hvsrpy.processing import COMBINE_HORIZONTAL_REGISTER
    lines, checks = [], []
    for _ in range(ctx.budget(25, 200)):
        n = int(rng.integers(1, 90)); w = float(rng.choice(pg.WIDTHS + [0.3, 0.77]))
        ts = hvsrpy.TimeSeries(np.ones(n), 0.01); ts.window("tukey", w)
        lines.append(f"tukey {n} {hexf(w)}"); checks.append(("taper", dict(n=n, width=w), ts.amplitude.tolist()))
        x = rng.normal(0, 1, n); nf = int(n + rng.integers(0, 20))
        lines.append(f"ampspec {nf} {fvec(x)}"); checks.append(("rfft", dict(n=nf, x=x.tolist()), np.abs(np.fft.rfft(x, nf)).tolist()))
        name = pg.COMBINE_NAMES[int(rng.integers(0, len(pg.COMBINE_NAMES)))]
        a, b = np.abs(rng.normal(0, 1, 8)), np.abs(rng.normal(0, 1, 8))
        lines.append(f"combine {name} {fvec(a)} {fvec(b)}")
        checks.append(("combine:" + name, dict(ns=a.tolist(), ew=b.tolist()), np.asarray(COMBINE_HORIZONTAL_REGISTER[name](a, b, None), dtype=float).tolist()))
    outs = run_driver(lines)
    for (what, inp, im), o in zip(checks, outs):
        t = Toks(o)
        ok = t.tok() == "ok"
        mo = t.vec() if ok else None
        ctx.supporting["seam_cases"] = ctx.supporting.get("seam_cases", 0) + 1
        if not ok or not vclose(im, mo, 1.0, 1e-9):
            ctx.violation("seam-" + what.split(":")[0], dict(case=dict(seam=what, **inp), impl=im, model=mo), seam=what)


def closed_form(method, A, B):
    A, B = abs(A), abs(B)
    return {"arithmetic_mean": (A + B) / 2, "squared_average": np.sqrt((A * A + B * B) / 2), "quadratic_mean": np.sqrt((A * A + B * B) / 2),
            "root_mean_square": np.sqrt((A * A + B * B) / 2), "effective_amplitude_spectrum": np.sqrt((A * A + B * B) / 2),
            "geometric_mean": np.sqrt(A * B), "total_horizontal_energy": np.sqrt(A * A + B * B), "vector_summation": np.sqrt(A * A + B * B),
            "maximum_horizontal_value": max(A, B)}[method]


def law_probes(ctx, rng):
    """the three metamorphic laws and the proportional closed form on the implementation at the DEFAULT FFT length"""
    for j in range(ctx.budget(10, 80)):
        fam = ["trad", "saz", "rot", "diff"][j % 4]
        dt = float(rng.choice(pg.DTS))
        A, B, C = [float(x) for x in rng.uniform(0.3, 3, 3) * rng.choice([-1, 1], 3)]
        prop = (j % 2 == 0)
        rec = pg.gen_record(rng, n=int(rng.integers(300, 900)), dt=dt, scale=1.0, proportional=(A, B, C) if prop else None)
        nfft = 32768
        sm = pg.gen_smoothing(rng, nfft, [dt], op=str(rng.choice(["konno_and_ohmachi", "parzen", "linear_triangular", "log_rectangular"])), nfc=8)
        case = dict(family=fam, smoothing=sm, width=float(rng.choice(pg.WIDTHS)), fft=None, policy=pg.POLICIES[0], records=[rec])
        if fam == "trad":
            case["method"] = pg.COMBINE_NAMES[int(rng.integers(0, len(pg.COMBINE_NAMES)))]
        elif fam == "saz":
            case["azimuth"] = float(rng.uniform(0, 180))
        elif fam == "rot":
            case["pct"] = float(rng.choice([0, 50, 100])); case["azimuths"] = [0.0, 45.0, 90.0, 135.0]
        base = pg.run_impl(case)["result"]
        if isinstance(base, str):
            continue
        ctx.supporting["law_cases"] = ctx.supporting.get("law_cases", 0) + 1

        def scaled(fh, fv):
            r = dict(rec, ns=(np.array(rec["ns"]) * fh).tolist(), ew=(np.array(rec["ew"]) * fh).tolist(), vt=(np.array(rec["vt"]) * fv).tolist())
            return pg.run_impl(dict(case, records=[r]))["result"]
        # a power of two scales every floating-point operation of the chain exactly: the result must agree to rounding of the
        # final division; any other factor perturbs the samples by an ulp, which ill-conditioned bins (a narrow window on a
        # spectral trough) amplify, so those runs are compared to 1e-6 only (found on the unchanged tree at the thorough tier:
        # parzen, bandwidth 0.025 Hz, relative difference 1.9e-8)
        c = float(rng.choice([2.0 ** -10, 0.5, 8.0, 2.0 ** 13]))
        same = scaled(c, c)
        if isinstance(same, str) or not pg.mat_close(same, base, 1e-12):
            ctx.violation("unchanged-under-common-factor", dict(case=case, factor=c), seam="process")
        c2 = float(rng.choice([1e-3, 7.0, 1e4]))
        same2 = scaled(c2, c2)
        if isinstance(same2, str) or not pg.mat_close(same2, base, 1e-6):
            ctx.violation("unchanged-under-common-factor", dict(case=case, factor=c2), seam="process")
        a, b = float(2.0 ** rng.integers(-2, 4)), float(2.0 ** rng.integers(-2, 4))
        sc = scaled(a, b)
        if isinstance(sc, str) or not pg.mat_close(sc, base * (a / b), 1e-12):
            ctx.violation("linear-in-horizontals-inverse-in-vertical", dict(case=case, a=a, b=b), seam="process")
        a, b = float(rng.uniform(0.5, 4)), float(rng.uniform(0.5, 4))
        sc = scaled(a, b)
        if isinstance(sc, str) or not pg.mat_close(sc, base * (a / b), 1e-6):
            ctx.violation("linear-in-horizontals-inverse-in-vertical", dict(case=case, a=a, b=b), seam="process")
        if prop:
            if fam == "trad":
                want = closed_form(case["method"], A, B) / abs(C)
            elif fam == "saz":
                az = np.radians(case["azimuth"] - rec["deg"]); want = abs(A * np.cos(az) + B * np.sin(az)) / abs(C)
            elif fam == "rot":
                vals = [abs(A * np.cos(np.radians(z)) + B * np.sin(np.radians(z))) for z in case["azimuths"]]
                want = float(np.percentile(vals, case["pct"])) / abs(C)
            else:
                want = np.sqrt((A * A + B * B) / (C * C))
            if not np.allclose(base, want, rtol=1e-8, atol=0):
                ctx.violation("proportional-components-flat-closed-form", dict(case=case, A=A, B=B, C=C, expected=float(want), got=np.asarray(base).ravel()[:5].tolist()),
                              seam="process")


def fft_length_stream(ctx, rng):
    """window lengths around and between powers of two above 2**15: the FFT length written back must be the model's and never shorter
    than the window (zero padding, never truncation); the curve of a long window must not depend on samples being dropped"""
    import hvsrpy
    lengths = [32767, 32768, 32769, 36001, 46340, 46341, 50001, 65535, 65536, 65537, 70001, 92681, 92683]
    picks = [lengths[int(j)] for j in rng.choice(len(lengths), ctx.budget(4, 13), replace=False)]
    lines, todo = [], []
    for L in picks:
        for fft in (None, dict(n=None), dict(n=int(rng.choice([L - 1, 40000, 65536, 100000])))):
            rec = dict(dt=0.01, deg=0.0, ns=rng.normal(size=L).tolist(), ew=rng.normal(size=L).tolist(), vt=rng.normal(size=L).tolist())
            sm = dict(operator="konno_and_ohmachi", bandwidth=40.0, center_frequencies_in_hz=[0.5, 1.0, 3.0, 10.0, 30.0])
            c = dict(family="trad", method="geometric_mean", smoothing=sm, width=0.1, fft=fft, policy=pg.POLICIES[0], records=[rec])
            st = pg.make_settings(c)
            srec = [pg.make_srecord(rec)]
            r = pg.run_impl(c, srec, st)
            lines.append(f"prepfft {pg.fft_token(fft)} {L}")
            todo.append((c, L, pg.fft_token(st.fft_settings), r, srec))
    outs = run_driver(lines)
    for (c, L, im, r, srec), o in zip(todo, outs):
        mo = o.split()[1]
        ctx.supporting["long_window_fft_cases"] = ctx.supporting.get("long_window_fft_cases", 0) + 1
        small = dict(c, records=f"one record of {L} samples (seeded noise)")
        if im.isdigit() and int(im) < L:
            ctx.violation("zero-padded-never-truncated", dict(case=small, n_samples=L, fft_length=int(im), model_fft_length=mo), seam="prepare_fft_settings")
        elif im != mo:
            ctx.violation("fft-length-as-modelled", dict(case=small, n_samples=L, impl=im, model=mo), found_input=False, seam="settings.fft_settings after process")
        elif not isinstance(r["result"], str) and im.isdigit():
            # the defined ratio of the full tapered, zero-padded window (independent numpy evaluation with the KO kernel of C02's model is too
            # slow here; instead: the LAST samples must matter -- zeroing the final 5 % of the window changes the curve)
            rec2 = dict(c["records"][0])
            k = int(0.95 * L)
            for comp in ("ns", "ew", "vt"):
                rec2[comp] = rec2[comp][:k] + [0.0] * (L - k)
            r2 = pg.run_impl(dict(c, records=[rec2], fft=dict(n=int(im))))
            if not isinstance(r2["result"], str) and np.allclose(r2["result"], r["result"], rtol=1e-12, atol=0):
                ctx.violation("zero-padded-never-truncated", dict(case=small, n_samples=L, fft_length=int(im), note="the last 5 % of the window do not influence the curve"),
                              seam="process on a long window")


def run(ctx):
    ctx.rule = ("cases = (family: 9 frequency-domain combinations incl. aliases / single azimuth / RotDpp / azimuthal / diffuse field) x 7 smoothing operators x "
                "Tukey widths {0,.05,.1,.5,1} x 1-3 records of 16-200 samples (FFT length = longest record, shorter ones are zero padded) and, every fifth case, the "
                "default FFT length 32768; amplitude scales 1e-6..1e6; dt in {1/50..1/500}; 4-16 centre frequencies on/off grid below Nyquist; "
                "non-trivial = >=2 centre frequencies with a non-empty window and a finite result; distinct by input hash")
    ctx.trusted += ["numpy.fft.rfft is assumed to be the DFT: cross-checked against the model's definitional DFT on every case (all FFT lengths used here)",
                    "np.percentile 'linear' interpolation (mirrored)"]
    rng = np.random.default_rng(ctx.seed)
    fft_length_stream(ctx, np.random.default_rng(ctx.seed + 7))
    seams(ctx, rng)
    n = ctx.budget(70, 900)
    cases = [c for c in (gen_case(rng, i) for i in range(n)) if c is not None]
    reverse_order_probe(ctx, "procgen", "impl_result_only", cases,
                        "curve-equals-defined-ratio", "hvsrpy.process in another order / fresh interpreter", sample=24)
    outs = run_driver([pg.model_line(c) for c in cases])
    for c, o in zip(cases, outs):
        im = pg.run_impl(c)
        mo = pg.parse_model(c, o)
        ok, what = pg.results_agree(c, im, mo)
        res = im["result"]
        nt = (not isinstance(res, str)) and len(c["smoothing"]["center_frequencies_in_hz"]) >= 2
        ctx.case((c["family"], c.get("method"), c["smoothing"], c["width"], c["fft"], c["records"]), nt,
                 sample=dict(family=c["family"], method=c.get("method"), operator=c["smoothing"]["operator"], width=c["width"], fft=pg.fft_token(c["fft"]),
                             n_records=len(c["records"]), lengths=[len(r["vt"]) for r in c["records"]],
                             first_values=(np.asarray(res[0] if c["family"] == "az" else res).ravel()[:3].tolist() if not isinstance(res, str) else res)))
        ctx.count("family:" + c["family"]); ctx.count("op:" + c["smoothing"]["operator"]); ctx.count("fft:" + ("default" if c["fft"] is None else "record-length"))
        ctx.count("result:" + ("err" if isinstance(res, str) else "ok"))
        ctx.traces += 1
        if not ok:
            nfft = pg.predicted_nfft(c["fft"], max(len(r["vt"]) for r in c["records"]))
            if what in ("amplitude", "error-vs-value") and pg.smoothing_margin(c, nfft) < 1e-9:
                ctx.near_tie_skipped += 1
                continue
            ctx.violation("curve-equals-smoothed-H-over-smoothed-V",
                          dict(case=c, differs_in=what, impl=(res if isinstance(res, str) else [np.asarray(x).tolist() for x in (res if c["family"] == "az" else [res])]),
                               impl_error=im.get("error"), impl_fft=im["fft_after"],
                               model=(mo["result"] if isinstance(mo["result"], str) else [np.asarray(x).tolist() for x in (mo["result"] if c["family"] == "az" else [mo["result"]])]),
                               model_error=mo.get("error"), model_fft=mo.get("fft_after")), seam="hvsrpy.process")
    law_probes(ctx, rng)


def replay(case):
    im = pg.run_impl(case)
    mo = pg.parse_model(case, run_driver([pg.model_line(case)])[0])
    f = lambda r: r if isinstance(r, str) else [np.asarray(x).tolist() for x in (r if case["family"] == "az" else [r])]
    return dict(impl=f(im["result"]), impl_fft=im["fft_after"], model=f(mo["result"]), model_fft=mo.get("fft_after"))
