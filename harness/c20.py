"""C20 -- plots and summary tables are read-only and show the object's state.

For real HvsrTraditional / HvsrAzimuthal / HvsrDiffuseField objects reached through real histories (plus direct
assignments to the public mask attributes) and every public function of hvsrpy.postprocessing:
 (a) deep snapshot of the object (and recordings) before/after -- any change is a violation;
 (b) the artists on the returned axes, canonicalised to (style class, xdata, ydata), compared with
     Model/Plots.lean (`panelLines`, `prePostRejectionWith`, `recordingLines`, `azMesh`, ...) through drv_c20 and
     with the object's own public statistics accessors;
 (c) the DataFrame handed to `display`, compared with the object's statistics, with `summaryRows` and with an
     independent numpy evaluation of the lognormal median / log-std of the reciprocal peak frequencies.
"""
import copy
import itertools
import struct

import numpy as np

from common import *
import hvgen
import hvhist

PROP_MODULES = ["HvsrVerif.Props.C20"]
BRIDGE_MODULES = []
EXE = "drv_c20"

DISTS = ["normal", "lognormal"]
OPT_KEYS = ["plot_valid_curves", "plot_invalid_curves", "plot_mean_curve", "plot_frequency_std", "plot_peak_mean_curve",
            "plot_peak_individual_valid_curves", "plot_peak_individual_invalid_curves"]
DEFAULT_OPTS = dict(plot_valid_curves=True, plot_invalid_curves=False, plot_mean_curve=True, plot_frequency_std=True,
                    plot_peak_mean_curve=True, plot_peak_individual_valid_curves=True, plot_peak_individual_invalid_curves=False)
PRE_OPTS = dict(DEFAULT_OPTS)
POST_OPTS = dict(DEFAULT_OPTS, plot_invalid_curves=True, plot_peak_individual_invalid_curves=True)

# the artist classes of postprocessing.DEFAULT_KWARGS, written down independently of the module under test
# (colour + line style for curves; marker + face + edge colour for markers; face colour for the fn band)
STYLE_LINES = {("#888888", "-"): "acceptedCurve", ("#ffb6c1", "-"): "rejectedCurve",
               ("#000000", "-"): "meanCurve", ("#000000", "--"): "stdCurve"}
STYLE_MARKERS = {("D", "#90ee90", "#000000"): "peakMeanCurve", ("s", "#90ee90", "#000000"): "peakMeanByAzimuth",
                 ("o", "#ffffff", "#000000"): "peakIndividualValid", ("o", "#ffb6c1", "#ffffff"): "peakIndividualInvalid"}
BAND_COLORS = {"#ff8080"}
STYLE_SOURCE = {"individual_valid_hvsr_curve": "acceptedCurve", "individual_invalid_hvsr_curve": "rejectedCurve",
                "mean_hvsr_curve": "meanCurve", "nth_std_mean_hvsr_curve": "stdCurve",
                "peak_mean_hvsr_curve": "peakMeanCurve", "peak_mean_hvsr_curve_azimuthal": "peakMeanCurve",
                "peak_mean_hvsr_curve_azimuthal_2d": "peakMeanByAzimuth",
                "peak_individual_valid_hvsr_curve": "peakIndividualValid",
                "peak_individual_invalid_hvsr_curve": "peakIndividualInvalid"}
LS_NORM = {"solid": "-", "dashed": "--", "dashdot": "-.", "dotted": ":", None: "-"}


def load_style_tables(pp):
    """Identify the artist classes by the style dictionaries of the module under test (a restyling is not an alarm);
    the table above is the fallback when the dictionaries are not found.  Returns the list of class pairs that the
    dictionaries make indistinguishable (that IS an alarm: accepted and rejected windows must look different)."""
    global STYLE_LINES, STYLE_MARKERS, BAND_COLORS
    try:
        dk = pp.DEFAULT_KWARGS
        lines, markers, clash = {}, {}, []
        for name, cls in STYLE_SOURCE.items():
            d = dk[name]
            if d.get("marker") in (None, "", "None"):
                ls = d.get("linestyle", "-")
                key, tab = (_hex(d["color"]), LS_NORM.get(ls, ls)), lines
            else:
                key, tab = (d["marker"], _hex(d["markerfacecolor"]), _hex(d["markeredgecolor"])), markers
            if key in tab and tab[key] != cls:
                clash.append([tab[key], cls])
            tab[key] = cls
        bands = {_hex(dk[k]["color"]) for k in ("nth_std_frequency_range_normal", "nth_std_frequency_range_lognormal")}
        STYLE_LINES, STYLE_MARKERS, BAND_COLORS = lines, markers, bands
        return clash
    except Exception:
        return []
EXACT_STYLES = {"acceptedCurve", "rejectedCurve", "peakIndividualValid", "peakIndividualInvalid"}
INDEX_LABELS = ["Resonant Site Frequency, fn (Hz)", "Resonant Site Period, Tn (s)", "Resonance Amplitude, An"]

C_RO = "plotting-and-summary-functions-never-change-the-object"
C_RO_REC = "plotting-functions-never-change-the-recordings"
C_MASKS = "masks-restored-after-temporary-alteration"
C_DRAW = "drawn-artists-equal-object-state"
C_STATS = "mean-std-curves-and-peak-markers-equal-object-statistics"
C_TABLE = "summary-table-lists-object-fn-statistics"
C_PERIOD = "period-row-is-lognormal-median-and-logstd-of-reciprocal-peaks"


# ----------------------------------------------------------------------------
# deep snapshots
def canon(x):
    """structural, bit-exact canonical form of an object graph (arrays by dtype/shape/bytes)"""
    if isinstance(x, np.ndarray):
        return ("nd", str(x.dtype), tuple(x.shape), x.tobytes())
    if isinstance(x, np.generic):
        return ("np", str(x.dtype), x.tobytes())
    if isinstance(x, bool) or x is None or isinstance(x, (int, str)):
        return (type(x).__name__, x)
    if isinstance(x, float):
        return ("float", struct.pack(">d", x))
    if isinstance(x, dict):
        return ("dict", tuple((canon(k), canon(v)) for k, v in x.items()))
    if isinstance(x, (list, tuple)):
        return (type(x).__name__, tuple(canon(v) for v in x))
    if hasattr(x, "__dict__"):
        return ("obj", type(x).__name__, canon(vars(x)))
    return ("repr", repr(x))


def diff_paths(a, b, path="obj"):
    if a == b:
        return []
    if not (isinstance(a, tuple) and isinstance(b, tuple)) or a[0] != b[0]:
        return [path]
    tag = a[0]
    if tag == "dict":
        if [k for k, _ in a[1]] != [k for k, _ in b[1]]:
            return [path + ".<keys>"]
        out = []
        for (k, va), (_, vb) in zip(a[1], b[1]):
            out += diff_paths(va, vb, f"{path}.{k[1]}")
        return out
    if tag in ("list", "tuple"):
        if len(a[1]) != len(b[1]):
            return [path + ".<len>"]
        out = []
        for i, (va, vb) in enumerate(zip(a[1], b[1])):
            out += diff_paths(va, vb, f"{path}[{i}]")
        return out
    if tag == "obj":
        if a[1] != b[1]:
            return [path + ".<class>"]
        return diff_paths(a[2], b[2], path)
    return [path]


# ----------------------------------------------------------------------------
# objects
def fix_op(op):
    op = list(op)
    if op[0] == "update":
        return ("update", tuple(op[1]), bool(op[2]))
    if op[0] == "fdwra":
        return ("fdwra", float(op[1]), int(op[2]), op[3], op[4], tuple(op[5]))
    if op[0] == "tmask":
        return ("tmask", [bool(b) for b in op[1]])
    return ("manual", [int(i) for i in op[1]], int(op[2]))


def sub_hvsrs(obj, kind):
    return [obj] if kind == "T" else (list(obj.hvsrs) if kind == "A" else [])


def apply_setmasks(obj, kind, setmasks):
    for h, (vw, vp) in zip(sub_hvsrs(obj, kind), setmasks):
        h.valid_window_boolean_mask = np.array(vw, dtype=bool)
        h.valid_peak_boolean_mask = np.array(vp, dtype=bool)


def rebuild(spec):
    """the object of a stored case"""
    import hvsrpy
    if spec["kind"] == "D":
        obj = hvsrpy.HvsrDiffuseField(np.array(spec["freq"]), np.array(spec["amp"]))
        if spec.get("range") is not None:
            obj.update_peaks_bounded(search_range_in_hz=tuple(spec["range"]))
        return obj
    if spec["kind"] == "T":
        m = hvgen.Mirror.trad(1, spec["freq"], spec["rows"])
    else:
        m = hvgen.Mirror.az(1, spec["freq"], spec["rows_per_az"], spec["azimuths"])
    for op in spec["ops"]:
        hvgen.apply_op(m, fix_op(op))
    if spec.get("setmasks"):
        apply_setmasks(m.obj, spec["kind"], spec["setmasks"])
    return m.obj


def gen_object(rng, kind, oid):
    import hvsrpy
    freq = hvgen.gen_freq(rng, int(rng.integers(8, 15)))
    if kind == "D":
        amp = hvgen.gen_curve(rng, freq)
        spec = dict(kind="D", freq=freq.tolist(), amp=amp.tolist())
        obj = hvsrpy.HvsrDiffuseField(freq, amp)
        if rng.random() < 0.6:
            # the user narrowed the search range before plotting / summarising: range, peak and meta must be left as they are
            r = hvgen.gen_range(rng, freq)
            spec["range"] = list(r)
            obj.update_peaks_bounded(search_range_in_hz=tuple(r))
        return spec, obj
    h = hvhist.build_history(rng, oid, kind, int(rng.integers(0, 5)), with_stats=False, freq=freq)
    spec = hvhist.history_json(h)
    obj = h["mirror"].obj
    u = rng.random()
    if u < 0.3:
        # direct assignment to the public mask attributes: any accept/reject state, the two masks independent
        sm = []
        for hv in sub_hvsrs(obj, kind):
            n = hv.n_curves
            vw = rng.random(n) < 0.7
            vp = np.where(rng.random(n) < 0.8, vw, rng.random(n) < 0.5)
            if kind == "A" or rng.random() < 0.7:
                vp = vw.copy() if rng.random() < 0.6 else vp
            sm.append([[bool(b) for b in vw], [bool(b) for b in vp]])
        spec["setmasks"] = sm
        apply_setmasks(obj, kind, sm)
    return spec, obj


def gen_records(rng, n):
    import hvsrpy
    spec = []
    recs = []
    dt = float(rng.choice([0.01, 0.005, 0.02, 1 / 128]))
    for _ in range(n):
        ns_ = int(rng.integers(4, 10))
        comps = [np.round(rng.normal(0, float(rng.choice([1.0, 50.0, 0.01])), ns_), 6) for _ in range(3)]
        deg = float(rng.choice([0.0, 30.0, 275.5]))
        spec.append(dict(dt=dt, ns=comps[0].tolist(), ew=comps[1].tolist(), vt=comps[2].tolist(), deg=deg))
    return spec, build_records(spec)


def build_records(spec):
    import hvsrpy
    return [hvsrpy.SeismicRecording3C(hvsrpy.TimeSeries(np.array(r["ns"]), r["dt"]), hvsrpy.TimeSeries(np.array(r["ew"]), r["dt"]),
                                      hvsrpy.TimeSeries(np.array(r["vt"]), r["dt"]), degrees_from_north=r["deg"],
                                      meta={"tag": [1, 2, 3]}) for r in spec]


def nontrivial_obj(obj, kind):
    hs = sub_hvsrs(obj, kind)
    if not hs:
        return False
    acc = sum(int(np.sum(h.valid_window_boolean_mask)) for h in hs)
    rej = sum(int(np.sum(~h.valid_window_boolean_mask)) for h in hs)
    pf = set()
    for h in hs:
        for f in h._main_peak_frq[h.valid_peak_boolean_mask]:
            if f == f:
                pf.add(float(f))
    return acc >= 2 and rej >= 1 and len(pf) >= 2


# ----------------------------------------------------------------------------
# wire format
def o2n(v):
    v = float(v)
    return None if v != v else v


def optlist(a):
    return [o2n(v) for v in np.asarray(a, dtype=float).ravel()]


def fovec(v):
    v = list(v)
    return " ".join([str(len(v))] + [fopt(x) for x in v])


def trad_tokens(h):
    r = h._search_range_in_hz
    rt = f"{fopt(r[0])} {fopt(r[1])}" if isinstance(r, tuple) else "unset"
    return (f"{fvec(h.frequency)} {fmat(h.amplitude)} {rt} {fovec(optlist(h._main_peak_frq))} {fovec(optlist(h._main_peak_amp))} "
            f"{fbvec(h.valid_window_boolean_mask)} {fbvec(h.valid_peak_boolean_mask)}")


def obj_tokens(obj, kind):
    if kind == "T":
        return "T " + trad_tokens(obj)
    if kind == "A":
        return f"A {len(obj.hvsrs)} " + " ".join(trad_tokens(h) for h in obj.hvsrs) + " " + fvec(obj.azimuths)
    return f"D {fvec(obj.frequency)} {fvec(obj.amplitude)}"


def opts_tokens(o):
    return f"{o['distribution_mc']} {o['distribution_fn']} " + " ".join("1" if o[k] else "0" for k in OPT_KEYS)


def parse_artists(t):
    out = []
    for _ in range(t.nat()):
        st = t.tok()
        out.append((st, t.ovec(), t.ovec()))
    return out


def parse_elines(line):
    t = Toks(line)
    tag = t.tok()
    if tag != "ok":
        return ("err", " ".join(t.rest()))
    return ("ok", parse_artists(t))


def parse_rows(t):
    return [t.ovec() for _ in range(t.nat())]


# ----------------------------------------------------------------------------
# canonical artists of an axes
def _hex(c):
    import matplotlib.colors as mc
    try:
        return mc.to_hex(c)
    except Exception:
        return str(c)


def canon_axes(ax):
    """(lines in drawing order, fn bands): every artist -> (style class, x, y)"""
    import matplotlib.patches as mp
    lines = []
    for ln in ax.get_lines():
        marker = ln.get_marker()
        ls = ln.get_linestyle()
        if marker in (None, "None", "", " "):
            key = (_hex(ln.get_color()), ls)
            st = STYLE_LINES.get(key, "unknown:" + repr(key))
        else:
            key = (marker, _hex(ln.get_markerfacecolor()), _hex(ln.get_markeredgecolor()))
            st = STYLE_MARKERS.get(key, "unknown:" + repr(key)) if ls in ("None", "", " ", None) else "unknown:" + repr((key, ls))
        lines.append((st, optlist(ln.get_xdata(orig=True)), optlist(ln.get_ydata(orig=True))))
    bands = []
    for p in ax.patches:
        if isinstance(p, mp.Polygon) and _hex(p.get_facecolor()) in BAND_COLORS:
            xy = np.asarray(p.get_xy())
            bands.append(("fnBand", optlist(xy[:4, 0]), optlist(xy[:4, 1])))
        elif isinstance(p, mp.Polygon):
            bands.append(("unknown:" + _hex(p.get_facecolor()), [], []))
    return lines, bands


def cmp_artists(a, b, scale, exact):
    """a = implementation, b = reference; returns (differences, near_ties)"""
    sa, sb = [x[0] for x in a], [x[0] for x in b]
    if sa != sb:
        return [f"style sequence {count_styles(sa)} != {count_styles(sb)}"], 0
    bad, near = [], 0
    for i, ((st, xa, ya), (_, xb, yb)) in enumerate(zip(a, b)):
        if len(xa) != len(xb) or len(ya) != len(yb):
            bad.append(f"artist {i} ({st}): lengths {len(xa)},{len(ya)} != {len(xb)},{len(yb)}")
        elif exact or st in EXACT_STYLES:
            if xa != xb or ya != yb:
                bad.append(f"artist {i} ({st}): data differ")
        else:
            okx, oky = vclose(xa, xb, scale), vclose(ya, yb, scale)
            if not (okx and oky):
                if st == "peakMeanCurve" and vclose(ya, yb, scale, 1e-7):
                    near += 1   # argmax among (nearly) equal maxima of a computed curve: rounding tie
                else:
                    bad.append(f"artist {i} ({st}): data differ ({'x' if not okx else ''}{'y' if not oky else ''})")
    return bad, near


def count_styles(sty):
    out = {}
    for s in sty:
        out[s] = out.get(s, 0) + 1
    return out


def split_band(arts):
    return [a for a in arts if a[0] != "fnBand"], [a for a in arts if a[0] == "fnBand"]


# ----------------------------------------------------------------------------
# what the object's own public accessors say the panel has to show
def expect_panel(obj, kind, o):
    dmc, dfn = o["distribution_mc"], o["distribution_fn"]
    hs = sub_hvsrs(obj, kind)
    arts = []
    try:
        with np.errstate(all="ignore"):
            if o["plot_valid_curves"]:
                for h in hs:
                    for i in np.flatnonzero(h.valid_window_boolean_mask):
                        arts.append(("acceptedCurve", optlist(h.frequency), optlist(h.amplitude[i])))
            if o["plot_invalid_curves"]:
                for h in hs:
                    for i in np.flatnonzero(~h.valid_window_boolean_mask):
                        arts.append(("rejectedCurve", optlist(h.frequency), optlist(h.amplitude[i])))
            if o["plot_mean_curve"]:
                arts.append(("meanCurve", optlist(obj.frequency), optlist(obj.mean_curve(distribution=dmc))))
                if kind != "D":
                    arts.append(("stdCurve", optlist(obj.frequency), optlist(obj.nth_std_curve(1, distribution=dmc))))
                    arts.append(("stdCurve", optlist(obj.frequency), optlist(obj.nth_std_curve(-1, distribution=dmc))))
            if o["plot_frequency_std"] and kind != "D":
                lo = obj.nth_std_fn_frequency(-1, distribution=dfn)
                hi = obj.nth_std_fn_frequency(1, distribution=dfn)
                arts.append(("fnBand", optlist([lo, lo, hi, hi]), [0.0, 100.0, 100.0, 0.0]))
            if o["plot_peak_mean_curve"]:
                f, a = obj.mean_curve_peak(distribution=dmc)
                arts.append(("peakMeanCurve", optlist([f]), optlist([a])))
            for flag, valid, st in (("plot_peak_individual_valid_curves", True, "peakIndividualValid"),
                                    ("plot_peak_individual_invalid_curves", False, "peakIndividualInvalid")):
                if o[flag]:
                    for h in hs:
                        idx = np.flatnonzero(h.valid_peak_boolean_mask if valid else ~h.valid_peak_boolean_mask)
                        if len(idx):
                            arts.append((st, optlist(h._main_peak_frq[idx]), optlist(h._main_peak_amp[idx])))
    except Exception as e:
        return ("err", type(e).__name__)
    return ("ok", arts)


def expect_rows(obj, d):
    """rows of the summary table from the object's own accessors"""
    with np.errstate(all="ignore"):
        mf, sf = obj.mean_fn_frequency(distribution=d), obj.std_fn_frequency(distribution=d)
        lo, hi = obj.nth_std_fn_frequency(-1, distribution=d), obj.nth_std_fn_frequency(1, distribution=d)
        ma, sa = obj.mean_fn_amplitude(distribution=d), obj.std_fn_amplitude(distribution=d)
        alo, ahi = obj.nth_std_fn_amplitude(-1, distribution=d), obj.nth_std_fn_amplitude(1, distribution=d)
        if d == "lognormal":
            period = [np.float64(1) / mf, sf, np.float64(1) / lo, np.float64(1) / hi]
        else:
            period = [np.nan] * 4
    return [optlist([mf, sf, lo, hi]), optlist(period), optlist([ma, sa, alo, ahi])]


def reciprocal_oracle(obj, kind):
    """lognormal median and log-standard deviation of the reciprocal peak frequencies, straight from numpy"""
    with np.errstate(all="ignore"):
        if kind == "T":
            pf = np.asarray(obj.peak_frequencies, dtype=float)
            pf = pf[~np.isnan(pf)]
            if len(pf) < 2:
                return None
            lt = np.log(1.0 / pf)
            return float(np.exp(np.mean(lt))), float(np.std(lt, ddof=1))
        pfs = [np.asarray(p, dtype=float) for p in obj.peak_frequencies]
        if any(len(p) == 0 or np.any(np.isnan(p)) for p in pfs) or sum(len(p) for p in pfs) < 2:
            return None
        w = np.concatenate([np.full(len(p), 1.0 / (len(pfs) * len(p))) for p in pfs])
        lt = np.log(1.0 / np.concatenate(pfs))
        mean = np.sum(w * lt) / np.sum(w)
        den = 1 - np.sum(w * w)
        if den <= 0:
            return None
        return float(np.exp(mean)), float(np.sqrt(np.sum(w * (lt - mean) ** 2) / den))


# ----------------------------------------------------------------------------
# running the implementation
class Shared:
    """one reusable figure/axes (figure creation dominates the cost)"""

    def __init__(self):
        import matplotlib.pyplot as plt
        self.plt = plt
        self.fig, self.ax = plt.subplots(figsize=(3.0, 2.0), dpi=50)
        self.fig3, self.axs3 = plt.subplots(nrows=3, figsize=(3.0, 3.0), dpi=50)

    def close_others(self):
        """close every figure a plotting function left behind (after an exception nothing is returned)"""
        for num in self.plt.get_fignums():
            if num not in (self.fig.number, self.fig3.number):
                self.plt.close(num)

    def close(self):
        self.plt.close("all")


class Capture:
    """replace `display` in the postprocessing namespace"""

    def __init__(self, pp):
        self.pp = pp
        self.got = []

    def __enter__(self):
        self.old = self.pp.display
        self.pp.display = lambda x: self.got.append(x)
        return self

    def __exit__(self, *a):
        self.pp.display = self.old

    def frame(self):
        if not self.got:
            return None
        x = self.got[0]
        return x.data if hasattr(x, "data") and not hasattr(x, "iloc") else x

    def caption(self):
        return getattr(self.got[0], "caption", None) if self.got else None


def call(fn):
    try:
        with np.errstate(all="ignore"), quiet() as buf:
            ret = fn()
        return ("ok", ret, buf.getvalue())
    except Exception as e:
        return ("err", type(e).__name__, str(e)[:160])


def rec_tokens(recs):
    return " ".join(f"{hexf(r.ns.dt_in_seconds)} {fvec(r.ns.amplitude)} {fvec(r.ew.amplitude)} {fvec(r.vt.amplitude)}" for r in recs)


def expect_recs(recs, mask, normalize):
    if normalize:
        factor = 0.0
        for comp in ("ns", "ew", "vt"):
            for r in recs:
                factor = max(factor, float(np.max(np.abs(getattr(r, comp).amplitude))))
    else:
        factor = 1.0
    panels = []
    for comp in ("ns", "ew", "vt"):
        start = 0.0
        arts = []
        for r, v in zip(recs, mask):
            ts = getattr(r, comp)
            time = np.arange(ts.n_samples) * ts.dt_in_seconds + start
            arts.append(("acceptedCurve" if v else "rejectedCurve", optlist(time), optlist(ts.amplitude / factor)))
            start = time[-1]
        panels.append(arts)
    return panels


def exec_case(pp, sh, case, obj, recs=None):
    """run one case on the implementation; returns (result dict, model request lines)"""
    import matplotlib.pyplot as plt
    fn = case["fn"]
    kind = case["obj"]["kind"] if case.get("obj") else None
    res = dict(fn=fn)
    before = canon(obj) if obj is not None else None
    before_recs = canon(recs) if recs is not None else None
    lines = []
    o = case.get("opts")
    # the model is given the object as it is BEFORE the call
    otok = obj_tokens(obj, kind) if obj is not None else None
    if fn == "plot_single_panel_hvsr_curves":
        own_ax = not case.get("ax_none")
        sh.ax.cla()
        r = call(lambda: pp.plot_single_panel_hvsr_curves(obj, ax=sh.ax if own_ax else None, **o))
        res["status"] = r[0]
        if r[0] == "ok":
            ax = sh.ax if own_ax else r[1][1]
            res["returned_ok"] = (r[1] is sh.ax) if own_ax else (isinstance(r[1], tuple) and len(r[1]) == 2)
            res["lines"], res["bands"] = canon_axes(ax)
            if not own_ax:
                plt.close(r[1][0])
        else:
            res["error"] = r[1:]
        res["expect"] = expect_panel(obj, kind, o)
        lines.append(f"c20.panel {otok} {opts_tokens(o)}")
    elif fn == "summarize_hvsr_statistics":
        with Capture(pp) as cap:
            r = call(lambda: pp.summarize_hvsr_statistics(obj, distribution_mc=o["distribution_mc"], distribution_fn=o["distribution_fn"]))
        res["status"] = r[0]
        if r[0] == "ok":
            fr = cap.frame()
            res["printed"] = r[2]
            if fr is not None:
                res["index"] = [str(x) for x in fr.index]
                res["columns"] = [str(x) for x in fr.columns]
                res["values"] = [optlist(row) for row in fr.to_numpy(dtype=float)]
                res["caption"] = cap.caption()
        else:
            res["error"] = r[1:]
        ex = call(lambda: (expect_rows(obj, o["distribution_fn"]) if kind != "D" else None, obj.mean_curve_peak(distribution=o["distribution_mc"])))
        res["expect"] = ("ok", ex[1][0], [float(ex[1][1][0]), float(ex[1][1][1])]) if ex[0] == "ok" else ("err", ex[1])
        res["recip"] = reciprocal_oracle(obj, kind) if kind != "D" else None
        if kind == "D":
            lines.append(f"c20.summary {otok}")
        else:
            lines.append(f"c20.summary {otok} {o['distribution_mc']} {o['distribution_fn']}")
    elif fn == "plot_pre_and_post_rejection":
        inject = case.get("inject", 0)
        counter = [0]
        real = pp._plot_peak_mean_hvsr_curve

        def failing(*a, **k):
            counter[0] += 1
            if counter[0] == inject:
                raise RuntimeError("injected failure in panel %d" % inject)
            return real(*a, **k)
        vw_before = None if kind != "T" else [bool(b) for b in obj.valid_window_boolean_mask]
        if inject:
            pp._plot_peak_mean_hvsr_curve = failing
        try:
            r = call(lambda: pp.plot_pre_and_post_rejection(recs, obj, distribution_mc=o["distribution_mc"], distribution_fn=o["distribution_fn"]))
        finally:
            pp._plot_peak_mean_hvsr_curve = real
        res["status"] = r[0]
        if r[0] == "ok":
            fig, axs = r[1]
            res["pre"] = canon_axes(axs[1])
            res["post"] = canon_axes(axs[3])
            res["wave"] = [canon_axes(axs[i])[0] for i in (0, 2, 4)]
            plt.close(fig)
        else:
            res["error"] = r[1:]
            sh.close_others()
        if kind == "T":
            res["state_after"] = hvgen.impl_state_trad(obj)
            allv = copy.deepcopy(obj)
            allv.valid_window_boolean_mask = np.ones(obj.n_curves, dtype=bool)
            allv.valid_peak_boolean_mask = np.ones(obj.n_curves, dtype=bool)
            res["expect_pre"] = expect_panel(allv, "T", dict(PRE_OPTS, distribution_mc=o["distribution_mc"], distribution_fn=o["distribution_fn"]))
            res["expect_post"] = expect_panel(obj, "T", dict(POST_OPTS, distribution_mc=o["distribution_mc"], distribution_fn=o["distribution_fn"]))
            res["expect_wave"] = expect_recs(recs, vw_before, True) if len(recs) == obj.n_curves else None
            lines.append(f"c20.prepost {otok[2:]} {o['distribution_mc']} {o['distribution_fn']} {inject}")
            lines.append(f"c20.recs 1 1 {fbvec(vw_before)} {len(recs)} {rec_tokens(recs)}")
    elif fn == "plot_seismic_recordings_3c":
        mask = case.get("mask")
        normalize = case["normalize"]
        arg = recs[0] if case.get("single") else recs
        own = not case.get("ax_none")
        for a in sh.axs3:
            a.cla()
        r = call(lambda: pp.plot_seismic_recordings_3c(arg, valid_window_boolean_mask=mask, axs=tuple(sh.axs3) if own else None, normalize=normalize))
        res["status"] = r[0]
        used = [recs[0]] if case.get("single") else recs
        if r[0] == "ok":
            axs = sh.axs3 if own else r[1][1]
            res["wave"] = [canon_axes(a)[0] for a in axs]
            if not own:
                plt.close(r[1][0])
        else:
            res["error"] = r[1:]
        m = [True] * len(used) if mask is None else list(mask)
        res["expect_wave"] = expect_recs(used, m, normalize) if len(m) == len(used) else None
        lines.append(f"c20.recs {1 if normalize else 0} {0 if mask is None else 1} {fbvec(mask or [])} {len(used)} {rec_tokens(used)}")
    elif fn == "plot_azimuthal_contour_2d":
        fig, ax = plt.subplots(figsize=(3, 2), dpi=50)
        grabbed = []
        orig = ax.contourf

        def contourf(*a, **k):
            grabbed.append([np.array(x, dtype=float) for x in a[:3]])
            return orig(*a, **k)
        ax.contourf = contourf
        d, pk = case["dmc"], case["peaks"]
        r = call(lambda: pp.plot_azimuthal_contour_2d(obj, distribution_mc=d, plot_mean_curve_peak_by_azimuth=pk, fig=fig, ax=ax))
        res["status"] = r[0]
        if r[0] == "ok" and grabbed:
            res["mesh_azi"] = optlist(grabbed[0][1][:, 0])
            res["mesh_frq_ok"] = bool(all(np.array_equal(row, obj.frequency) for row in grabbed[0][0]))
            res["mesh_amp"] = [optlist(row) for row in grabbed[0][2]]
            res["lines"] = canon_axes(ax)[0]
        elif r[0] == "err":
            res["error"] = r[1:]
        plt.close(fig)
        ex = call(lambda: (obj.mean_curve_by_azimuth(distribution=d), obj.mean_curve_peak_by_azimuth(distribution=d) if pk else None))
        if ex[0] == "ok" and np.any(np.isnan(ex[1][0])):
            # an azimuth without an accepted window has a NaN mean curve: the colour-bar ticks (np.arange(0, nan, 5)) raise
            res["expect"] = ("err", "nan-mesh")
            ex = ("err", "nan-mesh")
        if ex[0] == "ok":
            mesh = np.vstack((ex[1][0], ex[1][0][0]))
            arts = [("peakMeanByAzimuth", optlist(ex[1][1][0]), optlist(obj.azimuths))] if pk else []
            res["expect"] = ("ok", [optlist(row) for row in mesh], arts)
        else:
            res["expect"] = ("err", ex[1])
        lines.append(f"c20.contour2d {otok[2:]} {d} {1 if pk else 0}")
    elif fn == "plot_azimuthal_contour_3d":
        fig = plt.figure(figsize=(3, 3), dpi=50)
        ax = fig.add_subplot(projection="3d")
        grabbed = []
        orig = ax.plot_surface

        def plot_surface(*a, **k):
            grabbed.append([np.array(x, dtype=float) for x in a[:3]])
            return orig(*a, **k)
        ax.plot_surface = plot_surface
        d, pk = case["dmc"], case["peaks"]
        r = call(lambda: pp.plot_azimuthal_contour_3d(obj, distribution_mc=d, ax=ax, plot_mean_curve_peak_by_azimuth=pk))
        res["status"] = r[0]
        if r[0] == "ok" and grabbed:
            res["mesh_amp"] = [optlist(row) for row in grabbed[0][2]]
            res["mesh_azi"] = optlist(grabbed[0][1][:, 0])
            sc = [c for c in ax.collections if hasattr(c, "_offsets3d") and type(c).__name__ == "Path3DCollection"]
            res["scatter"] = [[optlist(np.ma.filled(np.ma.asarray(v, dtype=float), np.nan)) for v in c._offsets3d] for c in sc]
        elif r[0] == "err":
            res["error"] = r[1:]
        plt.close(fig)
        ex = call(lambda: (obj.mean_curve_by_azimuth(distribution=d), obj.mean_curve_peak_by_azimuth(distribution=d) if pk else None))
        if ex[0] == "ok":
            mesh = np.vstack((ex[1][0], ex[1][0][0]))
            sc = []
            if pk:
                fp, ap = ex[1][1]
                sc = [[optlist(np.log10(np.array([*fp, fp[0]]))), optlist([*obj.azimuths, 180.]), optlist(np.array([*ap, ap[0]]) * 1.05)]]
            res["expect"] = ("ok", [optlist(row) for row in mesh], sc)
            res["expect_peaks"] = [optlist([*ex[1][1][0], ex[1][1][0][0]]), optlist([*ex[1][1][1], ex[1][1][1][0]])] if pk else [[], []]
        else:
            res["expect"] = ("err", ex[1])
        lines.append(f"c20.contour3d {otok[2:]} {d} {1 if pk else 0}")
    elif fn == "plot_azimuthal_summary":
        pk = case["peaks"]
        r = call(lambda: pp.plot_azimuthal_summary(obj, plot_mean_curve_peak_by_azimuth=pk, **o))
        res["status"] = r[0]
        if r[0] == "ok":
            fig, (ax0, ax1, ax2) = r[1]
            res["lines"], res["bands"] = canon_axes(ax2)
            res["lines2d"] = canon_axes(ax1)[0]
            plt.close(fig)
        else:
            res["error"] = r[1:]
            sh.close_others()
        # the panel is called with plot_peak_mean_curve = plot_mean_curve; the peak is drawn afterwards if requested
        o2 = dict(o, plot_peak_mean_curve=o["plot_mean_curve"])
        ex = expect_panel(obj, "A", o2)
        if ex[0] == "ok" and o["plot_peak_mean_curve"]:
            e2 = call(lambda: obj.mean_curve_peak(distribution=o["distribution_mc"]))
            ex = ("ok", ex[1] + [("peakMeanCurve", optlist([e2[1][0]]), optlist([e2[1][1]]))]) if e2[0] == "ok" else ("err", e2[1])
        if ex[0] == "ok":
            e3 = call(lambda: (obj.mean_curve_by_azimuth(distribution=o["distribution_mc"]),
                               obj.mean_curve_peak_by_azimuth(distribution=o["distribution_mc"]) if pk else None))
            if e3[0] != "ok" or np.any(np.isnan(e3[1][0])):
                ex = ("err", e3[1] if e3[0] != "ok" else "nan-mesh")
            else:
                res["expect2d"] = [("peakMeanByAzimuth", optlist(e3[1][1][0]), optlist(obj.azimuths))] if pk else []
        res["expect"] = ex
        lines.append(f"c20.azsummary {otok[2:]} {opts_tokens(o)} {1 if pk else 0}")
    else:
        raise ValueError(fn)
    if obj is not None:
        res["changed"] = diff_paths(before, canon(obj))
    if recs is not None:
        res["changed_recs"] = diff_paths(before_recs, canon(recs), "recs")
    return res, lines


# ----------------------------------------------------------------------------
# judging one case
def judge(ctx, case, res, outs, scale):
    """compare implementation result with the model's answers; returns list of (clause, detail)"""
    fails = []
    fn = case["fn"]
    kind = case["obj"]["kind"] if case.get("obj") else None
    if res.get("changed"):
        clause = C_MASKS if (fn == "plot_pre_and_post_rejection" and all("valid_" in p for p in res["changed"])) else C_RO
        fails.append((clause, dict(changed_attributes=res["changed"], status=res.get("status"), error=res.get("error"))))
    if res.get("changed_recs"):
        fails.append((C_RO_REC, dict(changed_attributes=res["changed_recs"], status=res.get("status"))))

    def both(clause, what, impl_arts, ref_arts, exact, ref_name):
        bad, near = cmp_artists(impl_arts, ref_arts, scale, exact)
        ctx.near_tie_skipped += near
        if bad:
            fails.append((clause, dict(what=what, reference=ref_name, differences=bad[:6],
                                       impl_styles=count_styles([a[0] for a in impl_arts]),
                                       reference_styles=count_styles([a[0] for a in ref_arts]))))

    def panel_vs(what, lines, bands, ref, exact, ref_name):
        rl, rb = split_band(ref)
        stat = [a for a in rl if a[0] not in EXACT_STYLES]
        both(C_DRAW, what, [a for a in lines if a[0] in EXACT_STYLES or a[0].startswith("unknown")],
             [a for a in rl if a[0] in EXACT_STYLES], exact, ref_name)
        both(C_STATS, what, [a for a in lines if not (a[0] in EXACT_STYLES or a[0].startswith("unknown"))] + bands, stat + rb, exact, ref_name)
        # drawing order of the line artists
        if [a[0] for a in lines] != [a[0] for a in rl] and not fails:
            fails.append((C_DRAW, dict(what=what, reference=ref_name, differences=["drawing order"],
                                       impl=[a[0] for a in lines], reference_order=[a[0] for a in rl])))

    def status_vs(what, impl_status, ref_status, ref_name, clause=C_DRAW):
        if impl_status != ref_status:
            fails.append((clause, dict(what=what, reference=ref_name, implementation_status=impl_status, reference_status=ref_status,
                                       error=res.get("error"))))
            return False
        return impl_status == "ok"

    if fn == "plot_single_panel_hvsr_curves":
        mo = parse_elines(outs[0])
        if res["status"] == "ok" and not res["returned_ok"]:
            fails.append((C_DRAW, dict(what="return value is not the axes it was given / (fig, ax)")))
        if status_vs("panel", res["status"], res["expect"][0], "object accessors"):
            panel_vs("panel", res["lines"], res["bands"], res["expect"][1], True, "object accessors")
        if status_vs("panel", res["status"], mo[0], "model panelLines"):
            panel_vs("panel", res["lines"], res["bands"], mo[1], False, "model panelLines")
    elif fn == "summarize_hvsr_statistics":
        t = Toks(outs[0])
        mstat = t.tok()
        if status_vs("summary", res["status"], res["expect"][0], "object accessors", C_TABLE) and kind != "D":
            if "values" not in res:
                fails.append((C_TABLE, dict(what="nothing was handed to display")))
            else:
                if res["index"] != INDEX_LABELS or len(res["columns"]) != 4 or "-1" not in res["columns"][2] or "+1" not in res["columns"][3]:
                    fails.append((C_TABLE, dict(what="row/column labels", index=res["index"], columns=res["columns"])))
                if res["values"] != res["expect"][1]:
                    bad_rows = [i for i, (a, b) in enumerate(zip(res["values"], res["expect"][1])) if a != b]
                    fails.append((C_PERIOD if bad_rows == [1] else C_TABLE,
                                  dict(what="table values vs object accessors", rows=bad_rows, table=res["values"], accessors=res["expect"][1])))
                f, a = res["expect"][2]
                if res.get("caption") is None or f"{f:.3f} Hz" not in res["caption"] or f"amplitude {a:.3f}" not in res["caption"]:
                    fails.append((C_TABLE, dict(what="caption vs mean_curve_peak", caption=res.get("caption"), peak=[f, a])))
                rc = res.get("recip")
                if rc is not None and case["opts"]["distribution_fn"] == "lognormal":
                    ctx.supporting["period_row_numpy_oracle"] = ctx.supporting.get("period_row_numpy_oracle", 0) + 1
                    row = res["values"][1]
                    if not (close(row[0], rc[0], 1.0) and close(row[1], rc[1], 1.0, 1e-7)):
                        fails.append((C_PERIOD, dict(what="period row vs numpy lognormal statistics of 1/f", row=row, median_of_reciprocals=rc[0],
                                                     logstd_of_reciprocals=rc[1])))
        if kind == "D" and res["status"] == "ok" and res["expect"][0] == "ok":
            f, a = res["expect"][2]
            if f"{f:.3f} Hz" not in res["printed"] or f"amplitude {a:.3f}" not in res["printed"]:
                fails.append((C_TABLE, dict(what="printed caption vs mean_curve_peak", printed=res["printed"], peak=[f, a])))
        if status_vs("summary", res["status"], "ok" if mstat == "ok" else "err", "model summaryTable", C_TABLE):
            if kind == "D":
                mf, ma = t.flt(), t.flt()
                if not (close(mf, res["expect"][2][0], scale) and close(ma, res["expect"][2][1], scale)):
                    fails.append((C_TABLE, dict(what="diffuse mean-curve peak", model=[mf, ma], impl=res["expect"][2])))
            elif "values" in res:
                rows = parse_rows(t)
                mf, ma = t.flt(), t.flt()
                badr = [i for i in range(3) if i >= len(rows) or not vclose(res["values"][i], rows[i], scale, 1e-8)
                        and not undefined_sigma(res["values"][i], rows[i])]
                if len(rows) != len(res["values"]) or badr:
                    fails.append((C_PERIOD if badr == [1] else C_TABLE,
                                  dict(what="table values vs model summaryRows", rows=badr, table=res["values"], model=rows)))
                if not (close(mf, res["expect"][2][0], scale) and close(ma, res["expect"][2][1], scale)):
                    if close(ma, res["expect"][2][1], scale, 1e-7):
                        ctx.near_tie_skipped += 1
                    else:
                        fails.append((C_TABLE, dict(what="caption peak vs model", model=[mf, ma], impl=res["expect"][2])))
    elif fn == "plot_pre_and_post_rejection":
        if kind != "T":
            if res["status"] != "err" or res["error"][0] != "NotImplementedError":
                fails.append((C_DRAW, dict(what="non-traditional object accepted", status=res["status"], error=res.get("error"))))
            return fails
        t = Toks(outs[0])
        t.tok()
        mstate = hvgen.parse_trad(t)
        mexit = t.tok()
        # object on exit: implementation vs model (masks, peaks, range), on the normal and the exceptional exit
        bad = hvgen.cmp_trad_state(res["state_after"], mstate)
        if bad:
            fails.append((C_MASKS, dict(what="object on exit vs model prePostRejection", differing=bad, impl=res["state_after"], model=mstate,
                                        exit=mexit, status=res["status"], error=res.get("error"))))
        recs_ok = res["expect_wave"] is not None
        want = "ok" if (mexit == "normal" and recs_ok) else "err"
        if status_vs("pre/post", res["status"], want, "model prePostRejection (" + mexit + ")"):
            pre, post = parse_artists(t), parse_artists(t)
            panel_vs("before-rejection panel", res["pre"][0], res["pre"][1], pre, False, "model prePostRejection")
            panel_vs("after-rejection panel", res["post"][0], res["post"][1], post, False, "model prePostRejection")
            if res["expect_pre"][0] == "ok" and res["expect_post"][0] == "ok":
                panel_vs("before-rejection panel", res["pre"][0], res["pre"][1], res["expect_pre"][1], True, "object accessors (all windows accepted)")
                panel_vs("after-rejection panel", res["post"][0], res["post"][1], res["expect_post"][1], True, "object accessors")
            else:
                fails.append((C_DRAW, dict(what="pre/post drew although an accessor raises", pre=res["expect_pre"][0], post=res["expect_post"][0])))
            wave_vs(fails, both, res, outs[1])
    elif fn == "plot_seismic_recordings_3c":
        want = "ok" if res["expect_wave"] is not None else "err"
        if status_vs("recordings", res["status"], want, "mask length rule"):
            wave_vs(fails, both, res, outs[0])
        elif res["status"] == "err" and want == "err" and not outs[0].startswith("err"):
            fails.append((C_DRAW, dict(what="recordings: model accepted a mask of the wrong length")))
    elif fn in ("plot_azimuthal_contour_2d", "plot_azimuthal_contour_3d"):
        t = Toks(outs[0])
        mstat = t.tok()
        if status_vs(fn, res["status"], res["expect"][0], "object accessors", C_STATS):
            mesh_ok = res.get("mesh_amp") == res["expect"][1] and res.get("mesh_azi") == optlist([*case_azimuths(case), 180.])
            if not mesh_ok:
                fails.append((C_STATS, dict(what=fn + ": mesh vs mean_curve_by_azimuth", mesh=res.get("mesh_amp"), accessors=res["expect"][1])))
            if fn.endswith("2d"):
                both(C_STATS, fn, res["lines"], res["expect"][2], True, "object accessors")
                if not res["mesh_frq_ok"]:
                    fails.append((C_STATS, dict(what=fn + ": mesh frequencies")))
            elif res["scatter"] != res["expect"][2]:
                fails.append((C_STATS, dict(what=fn + ": scatter vs mean_curve_peak_by_azimuth", scatter=res["scatter"], accessors=res["expect"][2])))
        if status_vs(fn, res["status"], "ok" if mstat == "ok" else "err", "model contour2dLines", C_STATS):
            azs = t.vec()
            rows = parse_rows(t)
            arts = parse_artists(t) if fn.endswith("2d") else [(t.flt(), t.flt()) for _ in range(t.nat())]
            if not (vclose(azs, res["mesh_azi"], 180.0) and len(rows) == len(res["mesh_amp"])
                    and all(vclose(a, b, scale, 1e-8) for a, b in zip(res["mesh_amp"], rows))):
                fails.append((C_STATS, dict(what=fn + ": mesh vs model azMesh", mesh=res["mesh_amp"], model=rows)))
            if fn.endswith("2d"):
                both(C_STATS, fn, res["lines"], arts, False, "model contour2dLines")
            else:
                ep = res["expect_peaks"]
                if not (vclose([a[0] for a in arts], ep[0], scale, 1e-8) and (vclose([a[1] for a in arts], ep[1], scale, 1e-8))):
                    if vclose([a[1] for a in arts], ep[1], scale, 1e-7):
                        ctx.near_tie_skipped += 1
                    else:
                        fails.append((C_STATS, dict(what=fn + ": per-azimuth peaks vs model contour3dData", model=arts, accessors=ep)))
    elif fn == "plot_azimuthal_summary":
        mo = parse_elines(outs[0])
        if status_vs(fn, res["status"], res["expect"][0], "object accessors"):
            panel_vs(fn + " panel (c)", res["lines"], res["bands"], res["expect"][1], True, "object accessors")
            both(C_STATS, fn + " panel (b)", res["lines2d"], res["expect2d"], True, "object accessors")
        if status_vs(fn, res["status"], mo[0], "model plotAzimuthalSummary"):
            panel_vs(fn + " panel (c)", res["lines"], res["bands"], mo[1], False, "model azSummaryPanelLines")
    return fails


def undefined_sigma(a, b):
    """the +-1 sigma entries are undefined when the standard deviation is (numpy: NaN or inf; model: none)"""
    return len(a) == 4 and len(b) == 4 and a[1] is None and b[1] is None and close(a[0], b[0], 1.0, 1e-8)


def case_azimuths(case):
    return case["obj"]["azimuths"]


def wave_vs(fails, both, res, out):
    if res["expect_wave"] is not None:
        for k in range(3):
            both(C_DRAW, f"waveform panel {k}", res["wave"][k], res["expect_wave"][k], True, "recordings")
    t = Toks(out)
    if t.tok() != "ok":
        fails.append((C_DRAW, dict(what="waveforms: model refused", model=out[:80])))
        return
    n = t.nat()
    for k in range(n):
        arts = parse_artists(t)
        bad, _ = cmp_artists(res["wave"][k], arts, 1.0, False)
        # styles and shapes exactly, data with the fixed tolerance (same IEEE operations on both sides)
        if bad or any(not (vclose(a[1], b[1], 1.0, 1e-12) and vclose(a[2], b[2], 1.0, 1e-12)) for a, b in zip(res["wave"][k], arts)):
            fails.append((C_DRAW, dict(what=f"waveform panel {k} vs model recordingLines", differences=bad[:4])))


# ----------------------------------------------------------------------------
# the other two public functions (no HVSR object involved): plain arrays in, artists / frame out
def voronoi_and_spatial(ctx, pp, rng, n):
    import matplotlib.pyplot as plt
    lines, pend = [], []
    for i in range(n):
        k = int(rng.integers(3, 7))
        coords = rng.uniform(0, 100, (k, 2))
        fn = rng.uniform(0.5, 5, k)
        verts = [rng.uniform(0, 100, (int(rng.integers(3, 6)), 2)) for _ in range(k)]
        boundary = rng.uniform(0, 100, (int(rng.integers(3, 6)), 2))
        args = [coords, fn, verts, boundary]
        before = canon(args)
        own = bool(i % 2)
        fig = ax = None
        if own:
            fig, ax = plt.subplots(figsize=(3, 3), dpi=50)
        r = call(lambda: pp.plot_voronoi(coords, fn, verts, boundary, ax=ax))
        ctx.count("fn:plot_voronoi")
        ctx.traces += 1
        case = dict(fn="plot_voronoi", coords=coords.tolist(), mean_fn=fn.tolist(), vertices=[v.tolist() for v in verts],
                    boundary=boundary.tolist(), ax_none=not own)
        ctx.case(("voronoi", case["coords"], case["vertices"]), False)
        ch = diff_paths(before, canon(args), "args")
        if ch:
            ctx.violation(C_RO, dict(case=case, changed_attributes=ch), seam="plot_voronoi arguments")
        if r[0] != "ok":
            ctx.violation(C_DRAW, dict(case=case, error=r[1:]), seam="plot_voronoi")
        else:
            ax = ax if own else r[1][1]
            import matplotlib.patches as mp
            polys = [np.asarray(p.get_xy()) for p in ax.patches if isinstance(p, mp.Polygon)]
            ok = len(polys) == k and all(np.array_equal(p[:len(v)], v) for p, v in zip(polys, verts))
            ln = ax.get_lines()
            ok = ok and len(ln) == 2 and np.array_equal(np.column_stack((ln[0].get_xdata(), ln[0].get_ydata())), coords)
            ok = ok and np.array_equal(np.column_stack((ln[1].get_xdata(), ln[1].get_ydata())), np.vstack((boundary, boundary[0])))
            ctx.supporting["voronoi_artists"] = ctx.supporting.get("voronoi_artists", 0) + 1
            if not ok:
                ctx.violation(C_DRAW, dict(case=case, what="voronoi polygons / sensor markers / boundary differ from the arguments"), seam="plot_voronoi")
        plt.close("all")
    for i in range(n):
        d = DISTS[i % 2]
        m, s = float(rng.uniform(0.3, 8)), float(rng.uniform(0.01, 0.6))
        with Capture(pp) as cap:
            r = call(lambda: pp.summarize_spatial_statistics(m, s, d))
        ctx.count("fn:summarize_spatial_statistics")
        case = dict(fn="summarize_spatial_statistics", mean=m, std=s, distribution=d)
        ctx.case(("spatial", m, s, d), False)
        fr = cap.frame()
        if r[0] != "ok" or fr is None:
            ctx.violation(C_TABLE, dict(case=case, error=r[1:]), seam="summarize_spatial_statistics")
            continue
        lines.append(f"c20.spatial {d} {hexf(m)} {hexf(s)}")
        pend.append((case, [optlist(row) for row in fr.to_numpy(dtype=float)], [str(x) for x in fr.index]))
    outs = run_driver(lines, exe=EXE)
    for (case, vals, index), out in zip(pend, outs):
        t = Toks(out)
        t.tok()
        rows = parse_rows(t)
        ctx.traces += 1
        m, s, d = case["mean"], case["std"], case["distribution"]
        if d == "lognormal":
            want = [[m, s, float(np.exp(np.log(m) - s)), float(np.exp(np.log(m) + s))],
                    [1 / m, s, 1 / float(np.exp(np.log(m) - s)), 1 / float(np.exp(np.log(m) + s))]]
        else:
            want = [[m, s, m - s, m + s], [None] * 4]
        if index != INDEX_LABELS[:2] or len(rows) != len(vals) or not all(vclose(a, b, 1.0) for a, b in zip(vals, rows)) \
                or not all(vclose(a, b, 1.0, 1e-12) for a, b in zip(vals, want)):
            ctx.violation(C_PERIOD, dict(case=case, table=vals, model=rows, expected=want, index=index), seam="summarize_spatial_statistics")


# ----------------------------------------------------------------------------
def all_option_combos():
    out = []
    for dmc in DISTS:
        for dfn in DISTS:
            for bits in itertools.product([True, False], repeat=7):
                out.append(dict(distribution_mc=dmc, distribution_fn=dfn, **dict(zip(OPT_KEYS, bits))))
    return out


def opts_key(o):
    return o["distribution_mc"][0] + o["distribution_fn"][0] + "".join("1" if o[k] else "0" for k in OPT_KEYS)


def ensure_driver():
    """the shared lean phase builds `hvsrdrv` only; the C20 commands live in their own executable"""
    rc, log = lake(["build", EXE])
    if rc != 0:
        raise InfraError("driver build failed (drv_c20):\n" + log[-3000:])


def kwargs_marker_probe(ctx, rng):
    """objects that carry find_peaks keyword options which EXCLUDE a peak (a narrow spike taller than the site peak, ruled out by `width`):
    the drawn marker of the mean curve's peak must be the object's own mean_curve_peak() (implementation-side; the Lean model has no
    excluding options)"""
    import hvsrpy
    import hvsrpy.postprocessing as pp
    import matplotlib.pyplot as plt
    for j in range(ctx.budget(6, 40)):
        kind = "T" if j % 2 == 0 else "A"
        freq = np.geomspace(0.2, 20, 60)
        fs = float(rng.uniform(0.8, 1.5)); k_spike = int(rng.integers(40, 55))

        def rows(nw):
            out = []
            for _ in range(nw):
                r = 1.0 + 2.5 * np.exp(-0.5 * (np.log(freq / (fs * float(np.exp(rng.normal(0, 0.05))))) / 0.35) ** 2) + rng.uniform(0, 0.05, len(freq))
                r[k_spike] = 6.0 + rng.uniform(0, 0.5)          # one-sample spike, taller than the site peak
                out.append(r)
            return np.array(out)
        if kind == "T":
            obj = hvsrpy.HvsrTraditional(freq, rows(int(rng.integers(4, 9))))
        else:
            obj = hvsrpy.HvsrAzimuthal([hvsrpy.HvsrTraditional(freq, rows(int(rng.integers(3, 6)))) for _ in range(2)], [0.0, 90.0])
        obj.update_peaks_bounded(search_range_in_hz=(None, None), find_peaks_kwargs=dict(width=3))
        d = str(rng.choice(DISTS))
        want = obj.mean_curve_peak(distribution=d)
        r = pp.plot_single_panel_hvsr_curves(obj, distribution_mc=d, distribution_fn=d)
        fig, ax = r if isinstance(r, tuple) else (plt.gcf(), r)
        lines, _ = canon_axes(ax)
        plt.close("all")
        marks = [a for a in lines if a[0] == "peakMeanCurve"]
        ctx.supporting["excluding_kwargs_marker_cases"] = ctx.supporting.get("excluding_kwargs_marker_cases", 0) + 1
        ok = len(marks) == 1 and marks[0][1] == [float(want[0])] and marks[0][2] == [float(want[1])]
        if not ok:
            ctx.violation(C_STATS, dict(what="mean-curve peak marker of an object with find_peaks_kwargs={'width': 3}", object_kind=kind, distribution=d,
                                        drawn=[(m[1], m[2]) for m in marks], object_mean_curve_peak=[float(want[0]), float(want[1])],
                                        spike_frequency=float(freq[k_spike])), seam="plot_single_panel_hvsr_curves")
        if kind == "T":
            # the pre/post-rejection figure of the same object (one window rejected): both panels show the object's own peaks and statistics,
            # i.e. peaks picked with the object's find_peaks options -- before rejection = the object with every window accepted
            obj.valid_window_boolean_mask[0] = False
            obj.valid_peak_boolean_mask[0] = False
            _, recs = gen_records(rng, obj.n_curves)
            allv = copy.deepcopy(obj)
            allv.valid_window_boolean_mask = np.ones(obj.n_curves, dtype=bool)
            allv.valid_peak_boolean_mask = np.ones(obj.n_curves, dtype=bool)
            exp_pre = expect_panel(allv, "T", dict(PRE_OPTS, distribution_mc=d, distribution_fn=d))
            exp_post = expect_panel(obj, "T", dict(POST_OPTS, distribution_mc=d, distribution_fn=d))
            try:
                with quiet():
                    fig, axs = pp.plot_pre_and_post_rejection(recs, obj, distribution_mc=d, distribution_fn=d)
                got = dict(pre=canon_axes(axs[1])[0], post=canon_axes(axs[3])[0])
            except Exception as e:  # noqa
                got = dict(error=f"{type(e).__name__}: {str(e)[:100]}")
            plt.close("all")
            ctx.supporting["excluding_kwargs_prepost_cases"] = ctx.supporting.get("excluding_kwargs_prepost_cases", 0) + 1
            if exp_pre[0] == "ok" and exp_post[0] == "ok":
                for name, exp in (("pre", exp_pre[1]), ("post", exp_post[1])):
                    want_marks = [a for a in exp if a[0] in ("peakMeanCurve", "peakIndividualValid", "peakIndividualInvalid")]
                    got_marks = [a for a in got.get(name, []) if a[0] in ("peakMeanCurve", "peakIndividualValid", "peakIndividualInvalid")]
                    if "error" in got or sorted(map(repr, want_marks)) != sorted(map(repr, got_marks)):
                        ctx.violation(C_STATS, dict(what=f"peak markers of the {name}-rejection panel of an object with find_peaks_kwargs={{'width': 3}}",
                                                    distribution=d, drawn=got_marks, object_accessors=want_marks, error=got.get("error"),
                                                    spike_frequency=float(freq[k_spike])), seam="plot_pre_and_post_rejection")
                        break


def run(ctx):
    import hvsrpy
    import hvsrpy.postprocessing as pp
    ensure_driver()
    ctx.rule = ("objects = HvsrTraditional (3-12 windows) / HvsrAzimuthal (1-5 azimuths x 2-8 windows) after random histories of 0-4 public "
                "operations (peak-range updates, FDWRA, time-domain masks, manual rejection), 30 % with the public mask attributes "
                "assigned directly (masks independent), and HvsrDiffuseField curves; 8-14 frequencies; recordings of 4-9 samples; every public "
                "function of hvsrpy.postprocessing with option combinations drawn from a shuffled enumeration of ALL combinations "
                "(2 x 2 distributions x 2^7 switches; cycled so that every combination is used), with and without a caller-supplied axes; "
                "plot_pre_and_post_rejection also with a failure injected into its first resp. second panel; "
                "non-trivial = object has >=2 accepted and >=1 rejected window and >=2 distinct valid peak frequencies; distinct by (object, function, options) hash")
    ctx.trusted += ["matplotlib stores the data and style it is given (Line2D/Polygon/Path3DCollection getters), pandas stores the array it is given",
                    "artist style classes are identified by colour + line style + marker + marker face/edge colour of the entries of "
                    "postprocessing.DEFAULT_KWARGS (checked to be pairwise distinguishable; fallback table in harness/c20.py)"]
    rng = np.random.default_rng(ctx.seed)
    clash = load_style_tables(pp)
    kwargs_marker_probe(ctx, np.random.default_rng(ctx.seed + 20))
    if clash:
        ctx.violation(C_DRAW, dict(what="style dictionaries make artist classes indistinguishable", classes=clash), found_input=False,
                      seam="hvsrpy.postprocessing.DEFAULT_KWARGS")
    sh = Shared()
    combos = all_option_combos()
    rng.shuffle(combos)
    pos = [0]

    def next_opts():
        o = combos[pos[0] % len(combos)]
        pos[0] += 1
        return dict(o)

    def dd():
        return dict(distribution_mc=str(rng.choice(DISTS)), distribution_fn=str(rng.choice(DISTS)))

    n_t, n_a, n_d = ctx.budget((70, 32, 10), (400, 180, 40))
    per_t, per_a = ctx.budget((9, 6), (12, 8))
    pending = []     # (case, res, first model line, number of model lines, scale, nontrivial)
    req = []
    try:
        # minimised past disagreements / witnesses of repaired defects first
        for cc in load_corpus("C20"):
            c = cc["case"]
            obj = rebuild(c["obj"]) if c.get("obj") else None
            recs = build_records(c["recs"]) if c.get("recs") else None
            res, lines = exec_case(pp, sh, c, obj, recs)
            pending.append((c, res, len(req), len(lines), float(np.max(obj.frequency)) if obj is not None else 1.0,
                            nontrivial_obj(obj, c["obj"]["kind"]) if obj is not None else False, sha8(c.get("obj") or c.get("recs"))))
            req += lines
            ctx.count("corpus_cases")
        oid = 0
        for kind, count in (("T", n_t), ("A", n_a), ("D", n_d)):
            for j in range(count):
                oid += 1
                spec, obj = gen_object(rng, kind, oid)
                nt = nontrivial_obj(obj, kind)
                scale = float(np.max(obj.frequency))
                ohash = sha8(spec)
                cases = []
                everything = dict(dict(zip(OPT_KEYS, [True] * 7)), **dd())
                for o in [dict(DEFAULT_OPTS, **dd()), everything] + [next_opts() for _ in range(per_t if kind == "T" else per_a if kind == "A" else 3)]:
                    cases.append(dict(fn="plot_single_panel_hvsr_curves", opts=o, ax_none=bool(rng.random() < 0.08)))
                for dmc in DISTS:
                    for dfn in DISTS:
                        cases.append(dict(fn="summarize_hvsr_statistics", opts=dict(distribution_mc=dmc, distribution_fn=dfn)))
                recs = rspec = None
                if kind == "T" and (j % 2 == 0 or j < 5):
                    rspec, recs = gen_records(rng, obj.n_curves)
                    inj = [0, 1, 0, 2, 0][(j // 2) % 5] if j >= 5 else [0, 1, 2, 1, 0][j]
                    cases.append(dict(fn="plot_pre_and_post_rejection", opts=dd(), inject=inj, recs=rspec))
                elif kind != "T" and j % 6 == 0:
                    rspec, recs = gen_records(rng, 2)
                    cases.append(dict(fn="plot_pre_and_post_rejection", opts=dd(), inject=0, recs=rspec))
                if kind == "A":
                    for _ in range(2):
                        cases.append(dict(fn="plot_azimuthal_contour_2d", dmc=str(rng.choice(DISTS)), peaks=bool(rng.random() < 0.7)))
                    cases.append(dict(fn="plot_azimuthal_contour_3d", dmc=str(rng.choice(DISTS)), peaks=bool(rng.random() < 0.7)))
                    if j % 2 == 0:
                        cases.append(dict(fn="plot_azimuthal_summary", opts=next_opts() if j % 4 else dict(DEFAULT_OPTS, **dd()),
                                          peaks=bool(rng.random() < 0.7)))
                for c in cases:
                    c["obj"] = spec
                    r_ = recs if c["fn"] == "plot_pre_and_post_rejection" else None
                    res, lines = exec_case(pp, sh, c, obj, r_)
                    pending.append((c, res, len(req), len(lines), scale, nt, ohash))
                    req += lines
        # recordings on their own
        for j in range(ctx.budget(24, 200)):
            rspec, recs = gen_records(rng, int(rng.integers(1, 6)))
            single = bool(j % 6 == 5)
            n_used = 1 if single else len(recs)
            mk = rng.random()
            mask = None if mk < 0.3 else [bool(b) for b in rng.random(n_used if mk < 0.9 else n_used + 1) < 0.6]
            c = dict(fn="plot_seismic_recordings_3c", recs=rspec, mask=mask, normalize=bool(j % 2), single=single, ax_none=bool(j % 8 == 7))
            res, lines = exec_case(pp, sh, c, None, recs)
            pending.append((c, res, len(req), len(lines), 1.0, False, sha8(rspec)))
            req += lines
        voronoi_and_spatial(ctx, pp, rng, ctx.budget(6, 40))
    finally:
        sh.close()
    outs = run_driver(req, exe=EXE)
    for c, res, i0, nl, scale, nt, ohash in pending:
        fn = c["fn"]
        ctx.traces += 1
        ctx.count("fn:" + fn)
        if c.get("obj"):
            ctx.count("kind:" + c["obj"]["kind"])
        ctx.count(f"status:{fn}:{res.get('status')}" + (":" + res["error"][0] if res.get("status") == "err" else ""))
        if fn == "plot_single_panel_hvsr_curves":
            ctx.count("option-combination:" + opts_key(c["opts"]))
        if fn == "plot_pre_and_post_rejection":
            ctx.count(f"prepost-inject:{c.get('inject', 0)}")
            if nl:
                ctx.count("prepost-model-exit:" + next((w for w in ("normal", "raisedFirst", "raisedSecond") if f" {w}" in outs[i0]), "?"))
        key = (ohash, fn, json.dumps({k: v for k, v in c.items() if k not in ("obj", "recs")}, sort_keys=True))
        ctx.case(key, nt, sample=dict(fn=fn, kind=(c.get("obj") or {}).get("kind"), options={k: v for k, v in c.items() if k not in ("obj", "recs")},
                                      status=res.get("status"), n_artists=len(res.get("lines", []))) if ctx.evaluations % 97 == 0 else None)
        for clause, detail in judge(ctx, c, res, outs[i0:i0 + nl], scale):
            ctx.violation(clause, dict(case=c, function=fn, options={k: v for k, v in c.items() if k not in ("obj", "recs")}, **detail,
                                       model_answer=[o[:400] for o in outs[i0:i0 + nl]]),
                          seam=f"hvsrpy.postprocessing.{fn}")
    ncomb = sum(1 for k in ctx.dist if k.startswith("option-combination:"))
    ctx.supporting["distinct_option_combinations_of_single_panel"] = ncomb
    # fold the per-combination counters into one number (512 keys would drown the evidence file)
    for k in [k for k in ctx.dist if k.startswith("option-combination:")]:
        del ctx.dist[k]
    ctx.count("single_panel_option_combinations_covered", ncomb)


def replay(case):
    import hvsrpy
    import hvsrpy.postprocessing as pp
    ensure_driver()
    load_style_tables(pp)
    sh = Shared()
    try:
        obj = rebuild(case["obj"]) if case.get("obj") else None
        recs = build_records(case["recs"]) if case.get("recs") else None
        state_before = hvgen.impl_state(obj) if obj is not None and case["obj"]["kind"] != "D" else None
        res, lines = exec_case(pp, sh, case, obj, recs)
    finally:
        sh.close()
    outs = run_driver(lines, exe=EXE)
    ctx = Ctx("C20", "quick", 0)
    fails = judge(ctx, case, res, outs, float(np.max(obj.frequency)) if obj is not None else 1.0)
    return dict(state_before=state_before, state_after=hvgen.impl_state(obj) if state_before is not None else None,
                status=res.get("status"), error=res.get("error"), changed=res.get("changed"), changed_recs=res.get("changed_recs"),
                failures=[[c, d] for c, d in fails], model=[o[:2000] for o in outs])
