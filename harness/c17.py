"""C17 -- power spectral densities are correctly normalised; diffuse-field HVSR agrees; PSD preprocessing transforms"""
import numpy as np

from common import *
import procgen as pg

PROP_MODULES = ["HvsrVerif.Props.C17", "HvsrVerif.Props.C17Inv", "HvsrVerif.Props.C17Deriv", "HvsrVerif.Props.C17Odd"]
BRIDGE_MODULES = ["HvsrVerif.Bridge.PyPsd"]


def gen_case(rng, i):
    fam = "psd" if i % 2 == 0 else "diff"
    dt = float(rng.choice(pg.DTS))
    L = int(rng.integers(16, 130))
    nrec = int(rng.integers(1, 6))
    recs = [pg.gen_record(rng, n=L, dt=dt, scale=float(10.0 ** rng.integers(-4, 5))) for _ in range(nrec)]
    if nrec >= 2 and rng.random() < 0.2:
        # a dead window: one component (or the whole window) exactly zero -- it contributes zero power AND counts as a window of the Welch average
        k = int(rng.integers(0, nrec))
        for comp in (("ns", "ew", "vt") if rng.random() < 0.3 else (str(rng.choice(["ns", "ew", "vt"])),)):
            recs[k][comp] = [0.0] * L
    fft = dict(n=None)
    sm = pg.gen_smoothing(rng, L, [dt], op=str(rng.choice([o for o in pg.OPS if o != "savitzky_and_golay"])))
    c = dict(family=fam, smoothing=sm, width=float(rng.choice(pg.WIDTHS)), fft=fft, policy="keeping_majority_time_step", records=recs)
    if fam == "psd":
        c["psd_smoothing"] = bool(rng.random() < 0.5)
    elif rng.random() < 0.2:   # mixed time steps under the three policies
        c["records"] = recs + [pg.gen_record(rng, n=L, dt=float(rng.choice([d for d in pg.DTS if d != dt])))]
        c["policy"] = pg.POLICIES[int(rng.integers(0, 3))]
        c["smoothing"] = pg.gen_smoothing(rng, L, [r["dt"] for r in c["records"]], op=sm["operator"])
    return c


def long_window_parseval(ctx, rng):
    """Parseval for windows longer than 2**15 samples at the FFT length the code chooses by itself (zero padding to the next power of two)"""
    from scipy.signal.windows import tukey
    for L in [int(x) for x in rng.choice([32769, 36001, 40001, 46341, 50001, 65537, 70001], ctx.budget(2, 7), replace=False)]:
        dt = 0.01; w = 0.1
        rec = dict(dt=dt, deg=0.0, ns=rng.normal(size=L).tolist(), ew=rng.normal(size=L).tolist(), vt=rng.normal(size=L).tolist())
        c = dict(family="psd", smoothing=dict(operator="konno_and_ohmachi", bandwidth=40.0, center_frequencies_in_hz=[1.0, 5.0, 20.0]), width=w, fft=None,
                 policy="keeping_majority_time_step", records=[rec], psd_smoothing=False)
        r = pg.run_impl(c)
        small = dict(c, records=f"one record of {L} samples (seeded noise)")
        ctx.supporting["long_window_parseval_cases"] = ctx.supporting.get("long_window_parseval_cases", 0) + 1
        if isinstance(r["result"], str) or not r["fft_after"].isdigit():
            ctx.violation("psd-parseval", dict(case=small, error=r.get("error")), seam="process(PsdProcessingSettings) on a long window")
            continue
        n = int(r["fft_after"]); fs = 1 / dt
        tw = tukey(L, w); U = np.mean(tw ** 2)
        for k, comp in enumerate(("ns", "ew", "vt")):
            x = np.array(rec[comp]) * tw
            X = np.fft.rfft(x, max(n, L))
            lhs = np.sum(r["result"][k][1:(n + 1) // 2 if n % 2 else n // 2]) * (fs / n)
            rhs = np.sum(x ** 2) / (L * U) - (abs(X[0]) ** 2 + (abs(X[-1]) ** 2 if n % 2 == 0 else 0.0)) / (L * n * U)
            if n < L or not close(lhs, rhs, float(np.sum(x ** 2) / (L * U)), 1e-9):
                ctx.violation("psd-parseval", dict(case=small, component=comp, n_samples=L, fft_length=n, lhs=float(lhs), rhs=float(rhs)),
                              seam="process(PsdProcessingSettings) on a long window")
                break


def parseval_probe(ctx, rng):
    """clause 1 on the implementation: sum of the one-sided density strictly between 0 Hz and Nyquist"""
    import hvsrpy
    from scipy.signal.windows import tukey
    for _ in range(ctx.budget(30, 300)):
        dt = float(rng.choice(pg.DTS)); L = int(rng.integers(8, 200)) * 2; w = float(rng.choice(pg.WIDTHS))
        rec = pg.gen_record(rng, n=L, dt=dt, scale=float(10.0 ** rng.integers(-3, 4)))
        c = dict(family="psd", smoothing=pg.gen_smoothing(rng, L, [dt], op="konno_and_ohmachi"), width=w, fft=dict(n=None),
                 policy="keeping_majority_time_step", records=[rec], psd_smoothing=False)
        r = pg.run_impl(c)
        if isinstance(r["result"], str):
            ctx.violation("psd-parseval", dict(case=c, error=r.get("error")), seam="process(PsdProcessingSettings)")
            continue
        n = L
        fs = 1 / dt
        tw = tukey(L, w)
        U = np.mean(tw ** 2)
        ctx.supporting["parseval_cases"] = ctx.supporting.get("parseval_cases", 0) + 1
        for k, comp in enumerate(("ns", "ew", "vt")):
            x = np.array(rec[comp]) * tw
            X = np.fft.rfft(x, n)
            lhs = np.sum(r["result"][k][1:n // 2]) * (fs / n)
            rhs = np.sum(x ** 2) / (L * U) - (abs(X[0]) ** 2 + abs(X[n // 2]) ** 2) / (L * n * U)
            if not close(lhs, rhs, float(np.sum(x ** 2) / (L * U)), 1e-9):
                ctx.violation("psd-parseval", dict(case=c, component=comp, lhs=float(lhs), rhs=float(rhs)), seam="process(PsdProcessingSettings)")
                break
        # scaling with the square of the amplitude; Welch average
        a = float(rng.choice([0.5, 3.0, 1e3]))
        r2 = pg.run_impl(dict(c, records=[dict(rec, ns=(np.array(rec["ns"]) * a).tolist(), ew=(np.array(rec["ew"]) * a).tolist(), vt=(np.array(rec["vt"]) * a).tolist())]))
        if isinstance(r2["result"], str) or not pg.mat_close(r2["result"], r["result"] * a * a, 1e-10, 1e-13):
            ctx.violation("psd-scales-with-square", dict(case=c, factor=a), seam="process(PsdProcessingSettings)")
        others = [pg.gen_record(rng, n=L, dt=dt) for _ in range(int(rng.integers(1, 4)))]
        allr = [rec] + others
        joint = pg.run_impl(dict(c, records=allr))["result"]
        singles = [pg.run_impl(dict(c, records=[q]))["result"] for q in allr]
        if isinstance(joint, str) or any(isinstance(s, str) for s in singles) or not pg.mat_close(joint, np.mean(singles, axis=0), 1e-10, 1e-13):
            ctx.violation("psd-is-welch-average", dict(case=dict(c, records=allr)), seam="process(PsdProcessingSettings)")
        # diffuse field = sqrt(S(Pns+Pew)/S(Pvt)) of the same windows
        sm = c["smoothing"]
        cd = dict(c, family="diff", records=allr)
        d = pg.run_impl(cd)["result"]
        ps = pg.run_impl(dict(c, records=allr, psd_smoothing=False))["result"]
        if not isinstance(d, str) and not isinstance(ps, str):
            import hvsrpy.smoothing as sms
            f = np.fft.rfftfreq(L, dt)
            S = sms.SMOOTHING_OPERATORS[sm["operator"]](f, np.array([ps[0] + ps[1], ps[2]]), np.array(sm["center_frequencies_in_hz"]), sm["bandwidth"])
            if not pg.mat_close(d, np.sqrt(S[0] / S[1]), 1e-9):
                ctx.violation("diffuse-equals-sqrt-of-smoothed-psd-ratio", dict(case=cd), seam="process(HvsrDiffuseFieldProcessingSettings)")


def preprocess_transforms(ctx, rng):
    """PSD preprocessing with differentiation / flat response vs the model (definitional DFT, n = 32768) and the analytic form"""
    import hvsrpy
    from hvsrpy.instrument_response import InstrumentTransferFunction
    lines, cases = [], []
    for i in range(ctx.budget(12, 60)):
        dt = float(rng.choice(pg.DTS)); L = int(rng.integers(8, 17)); w = float(rng.choice(pg.WIDTHS))
        rec = pg.gen_record(rng, n=L, dt=dt, scale=float(10.0 ** rng.integers(-2, 3)))
        mode = ["diff", "flat", "both"][i % 3]
        S = float(rng.choice([1.0, 2.5, 629.0, 1e3]))
        own_n = (i % 2 == 1)       # fft_settings = {"n": None}: the transform length is the record length itself, odd or even
        if own_n:
            L = L | 1 if i % 4 == 1 else (L + 1) & ~1
            rec = pg.gen_record(rng, n=L, dt=dt, scale=float(10.0 ** rng.integers(-2, 3)))
        kw = dict(orient_to_degrees_from_north=None, filter_corner_frequencies_in_hz=[None, None], window_length_in_seconds=None, detrend=None,
                  window_type_and_width=["tukey", w], fft_settings=(dict(n=None) if own_n else None))
        if mode == "diff":
            st = hvsrpy.PsdPreProcessingSettings(differentiate=True, **kw)
        elif mode == "both":
            st = hvsrpy.PsdPreProcessingSettings(differentiate=True, instrument_transfer_function=InstrumentTransferFunction([], [], S, 1.0), **kw)
        else:
            st = hvsrpy.PsdPreProcessingSettings(instrument_transfer_function=InstrumentTransferFunction([], [], S, 1.0), **kw)
        sr = pg.make_srecord(rec)
        try:
            with quiet():
                out = hvsrpy.preprocess([sr], st)
            y = out[0].vt.amplitude.tolist()
        except pg.PROC_ERRS as e:
            y = "err:" + type(e).__name__
        # what the chain feeds into the transform: detrend(constant) then taper (scipy primitives)
        from scipy.signal import detrend
        from scipy.signal.windows import tukey
        x = detrend(np.array(rec["vt"]), type="constant") * tukey(L, w)
        n = L if own_n else 32768
        cases.append(dict(mode=mode, dt=dt, L=L, width=w, S=S, record=rec, impl=y, x=x.tolist(), n=n))
        lines.append(f"diffx {n} {hexf(dt)} {fvec(x)}" if mode == "diff" else f"flatresp {n} {hexf(S)} {fvec(x)}")
        lines.append(f"flatclosed {n} {hexf(S)} {fvec(x)}")
        cases[-1]["line_idx"] = len(lines) - 2
    outs = run_driver(lines)
    # "both": the code removes the response first and differentiates the result (one detrend + taper only)
    second = [(k, f"diffx {c['n']} {hexf(c['dt'])} {' '.join(outs[2 * k].split()[1:])}") for k, c in enumerate(cases) if c["mode"] == "both"]
    outs2 = dict(zip([k for k, _ in second], run_driver([l for _, l in second])))
    for k, c in enumerate(cases):
        t = Toks(outs2[k] if c["mode"] == "both" else outs[2 * k]); t.tok(); mo = t.vec()
        t2 = Toks(outs[2 * k + 1]); t2.tok(); closed = t2.vec()
        ctx.case((c["mode"], c["record"], c["width"], c["S"]), nontrivial=not isinstance(c["impl"], str),
                 sample=dict(mode=c["mode"], L=c["L"], dt=c["dt"], S=c["S"], impl_first=(c["impl"][:3] if not isinstance(c["impl"], str) else c["impl"])))
        ctx.count("preprocess:" + c["mode"]); ctx.count("preprocess-n:" + ("default" if c["n"] == 32768 else "record-length-odd" if c["n"] % 2 else "record-length-even"))
        ctx.traces += 1
        scale = float(np.max(np.abs(c["x"]))) * (2 * np.pi / (2 * c["dt"]) if c["mode"] != "flat" else 1.0) / (c["S"] if c["mode"] != "diff" else 1.0)
        if isinstance(c["impl"], str) or not vclose(c["impl"], mo, scale, 1e-7):
            ctx.violation("psd-preprocessing-returns-expected-series", dict(case=c, model=mo[:8]), seam="hvsrpy.preprocess(PsdPreProcessingSettings)")
        elif c["mode"] == "flat" and not vclose(c["impl"], closed, scale, 1e-7):
            ctx.violation("flat-response-is-division-by-sensitivity-with-mean-removed", dict(case=c, closed_form=closed[:8]), seam="hvsrpy.preprocess")
    # several recordings of different length in ONE preprocess call, a short one first and a later one longer than 2**15 samples:
    # the transform length must cover the LONGEST recording (zero padding, never truncation) for every recording of the list.
    # Oracle: numpy's rfft/irfft (trusted to be the DFT pair; the definitional DFT of the model is too slow at this size).
    from scipy.signal import detrend as _detrend
    from scipy.signal.windows import tukey as _tukey
    for j in range(ctx.budget(2, 8)):
        dt = float(rng.choice(pg.DTS)); w = float(rng.choice([0.05, 0.1, 0.5]))
        lens = [int(rng.integers(200, 3000)), int(rng.integers(32769, 40000))] + ([int(rng.integers(200, 3000))] if j % 2 else [])
        recs = [pg.gen_record(rng, n=L, dt=dt) for L in lens]
        mode = ["diff", "flat"][j % 2]; S = float(rng.choice([2.5, 629.0]))
        kw = dict(orient_to_degrees_from_north=None, filter_corner_frequencies_in_hz=[None, None], window_length_in_seconds=None, detrend=None,
                  window_type_and_width=["tukey", w], fft_settings=None)
        st = (hvsrpy.PsdPreProcessingSettings(differentiate=True, **kw) if mode == "diff" else
              hvsrpy.PsdPreProcessingSettings(instrument_transfer_function=InstrumentTransferFunction([], [], S, 1.0), **kw))
        with quiet():
            out = hvsrpy.preprocess([pg.make_srecord(r) for r in recs], st)
        n = 65536
        ctx.supporting["mixed_length_preprocess_cases"] = ctx.supporting.get("mixed_length_preprocess_cases", 0) + 1
        for k, (r, o) in enumerate(zip(recs, out)):
            L = len(r["vt"])
            x = _detrend(np.array(r["vt"]), type="constant") * _tukey(L, w)
            X = np.fft.rfft(x, n); f = np.fft.rfftfreq(n, dt)
            if mode == "diff":
                Y = X * (2j * np.pi * f)
            else:
                Y = X / S; Y[0] = 0
            want = np.fft.irfft(Y, n)[:L]
            got = np.asarray(o.vt.amplitude)
            if got.shape != want.shape or not np.allclose(got, want, rtol=1e-7, atol=1e-9 * float(np.max(np.abs(want)))):
                ctx.violation("psd-preprocessing-transform-length-covers-every-recording",
                              dict(case=dict(mode=mode, dt=dt, width=w, S=S, lengths=lens, index=k, seed_note="records regenerated from the check's seed"),
                                   got_len=int(got.size), max_abs_diff=(float(np.max(np.abs(got - want))) if got.shape == want.shape else None)),
                              seam="hvsrpy.preprocess([short, long], PsdPreProcessingSettings)")
                break
    # pole-zero response: oracle with scipy's freqs directly (trusted)
    import scipy.signal as signal
    for _ in range(ctx.budget(4, 40)):
        dt = float(rng.choice(pg.DTS)); L = int(rng.integers(64, 300)); w = 0.1
        rec = pg.gen_record(rng, n=L, dt=dt)
        poles = [complex(-rng.uniform(0.5, 5), rng.uniform(0.5, 5)), complex(-rng.uniform(0.5, 5), -rng.uniform(0.5, 5))]
        zeros = [0j, 0j]; S, A0 = float(rng.uniform(100, 2000)), float(rng.uniform(0.5, 2))
        st = hvsrpy.PsdPreProcessingSettings(orient_to_degrees_from_north=None, filter_corner_frequencies_in_hz=[None, None], window_length_in_seconds=None,
                                              detrend=None, window_type_and_width=["tukey", w], fft_settings=None,
                                              instrument_transfer_function=InstrumentTransferFunction(poles, zeros, S, A0))
        sr = pg.make_srecord(rec)
        with quiet():
            out = hvsrpy.preprocess([sr], st)
        from scipy.signal import detrend
        from scipy.signal.windows import tukey
        x = detrend(np.array(rec["ns"]), type="constant") * tukey(L, w)
        n = 32768
        X = np.fft.rfft(x, n); f = np.fft.rfftfreq(n, dt)
        b, a = signal.zpk2tf(zeros, poles, 1.0)
        _, h = signal.freqs(b, a, f * 2 * np.pi)
        h = h * A0 * S
        inv = np.zeros_like(h); nz = np.abs(h) > 0; inv[nz] = 1 / h[nz]; inv[0] = 0
        want = np.fft.irfft(X * inv, n)[:L]
        ctx.supporting["polezero_cases"] = ctx.supporting.get("polezero_cases", 0) + 1
        if not np.allclose(out[0].ns.amplitude, want, rtol=1e-9, atol=1e-12 * np.max(np.abs(want))):
            ctx.violation("pole-zero-response-removed", dict(case=dict(record=rec, poles=[str(p) for p in poles], zeros=[str(z) for z in zeros], S=S, A0=A0)),
                          seam="hvsrpy.preprocess(PsdPreProcessingSettings)")


def run(ctx):
    ctx.rule = ("cases = 1-5 equally long windows (16-130 samples, even and odd; FFT length = window length), dt in {1/50..1/500}, Tukey widths {0,.05,.1,.5,1}, "
                "smoothing on/off, PSD and diffuse-field processing incl. mixed time steps under the three policies; PSD preprocessing with differentiation / flat "
                "response vs the model's definitional DFT pair at n = 32768; non-trivial = finite result; distinct by input hash")
    ctx.trusted += ["scipy.signal.freqs/zpk2tf (pole-zero response), scipy detrend/tukey used to rebuild the input of the transform", "numpy rfft/irfft = DFT pair (cross-checked by the model)"]
    ctx.partial_clauses += ["differentiate/flat-response: model vs code by correspondence; closed form of the flat response is compared numerically (DFT inversion not proved)"]
    rng = np.random.default_rng(ctx.seed)
    n = ctx.budget(60, 800)
    cases = [gen_case(rng, i) for i in range(n)]
    cases = [c for c in cases if c["smoothing"] is not None]
    outs = run_driver([pg.model_line(c) for c in cases])
    for c, o in zip(cases, outs):
        im = pg.run_impl(c)
        mo = pg.parse_model(c, o)
        ok, what = pg.results_agree(c, im, mo, rtol=1e-8)
        res = im["result"]
        ctx.case((c["family"], c["smoothing"], c["width"], c.get("psd_smoothing"), c["policy"], c["records"]), nontrivial=not isinstance(res, str),
                 sample=dict(family=c["family"], n_windows=len(c["records"]), L=len(c["records"][0]["vt"]), width=c["width"], smoothing=c.get("psd_smoothing", True),
                             policy=c["policy"], result=(res if isinstance(res, str) else np.asarray(res).ravel()[:3].tolist())))
        ctx.count("family:" + c["family"]); ctx.count("parity:" + ("odd" if len(c["records"][0]["vt"]) % 2 else "even")); ctx.count("result:" + ("err" if isinstance(res, str) else "ok"))
        ctx.traces += 1
        if not ok:
            if what in ("amplitude", "error-vs-value") and pg.smoothing_margin(c, len(c["records"][0]["vt"])) < 1e-9:
                ctx.near_tie_skipped += 1
                continue
            ctx.violation("psd-normalisation" if c["family"] == "psd" else "diffuse-field-definition",
                          dict(case=c, differs_in=what, impl=(res if isinstance(res, str) else np.asarray(res).tolist()), impl_error=im.get("error"),
                               model=(mo["result"] if isinstance(mo["result"], str) else np.asarray(mo["result"]).tolist()), model_error=mo.get("error")),
                          seam="hvsrpy.process")
    parseval_probe(ctx, rng)
    long_window_parseval(ctx, np.random.default_rng(ctx.seed + 17))
    preprocess_transforms(ctx, rng)


def replay(case):
    if "family" in case:
        import c01
        return c01.replay(case)
    return dict(note="preprocessing case; see harness/c17.py::preprocess_transforms", case=case)
