"""C08 -- reported peaks are the highest local maximum inside the search range"""
import numpy as np

from common import *
import hvgen
import hvhist

PROP_MODULES = ["HvsrVerif.Props.C08"]
BRIDGE_MODULES = ["HvsrVerif.Bridge.PyPeaks"]


def plateau_maxima(x):
    """brute-force: all (l, r) maximal equal runs with strictly lower neighbours on both sides, interior"""
    n = len(x)
    out = []
    i = 1
    while i < n - 1:
        l = i
        while l > 0 and x[l - 1] == x[i]:
            l -= 1
        r = i
        while r < n - 1 and x[r + 1] == x[i]:
            r += 1
        if l > 0 and r < n - 1 and x[l - 1] < x[i] and x[r + 1] < x[i]:
            out.append((l, r))
        i = r + 1
    return out


def oracle(freq, amp, rng_, peak):
    """property text evaluated by brute force on the implementation's answer; returns None or a reason"""
    freq = np.asarray(freq); amp = np.asarray(amp)
    lo = 0 if rng_[0] is None else int(np.argmin(np.abs(freq - rng_[0])))
    hi = len(freq) if rng_[1] is None else int(np.argmin(np.abs(freq - rng_[1]))) + 1   # through the sample nearest to the upper limit
    sl = amp[lo:hi]
    pm = plateau_maxima(sl)
    if peak is None:
        return None if not pm else "a local maximum exists inside the range but no peak is reported"
    f, a = peak
    if not pm:
        return "a peak is reported although the range holds no interior local maximum"
    best = max(sl[l] for l, r in pm)
    if a != best:
        return "reported amplitude is not the highest interior local maximum"
    ok = any(sl[l] == a and any(freq[lo + i] == f for i in range(l, r + 1)) for l, r in pm)
    if not ok:
        return "reported frequency does not lie on a highest local maximum / amplitude is not the curve's value there"
    return None


NEUTRAL_KWARGS = [None, {}, {"prominence": 0}, {"distance": 1}, {"height": -1e300}, {"prominence": 0, "distance": 1}, {"width": 0}]


def range_at_maxima(rng, freq, amp):
    """a range whose limit(s) sit on (or within half a step of) a local maximum of the curve: the limit-nearest sample is an
    edge of the slice and must never be reported, and everything strictly inside must be"""
    pm = plateau_maxima(list(amp))
    if not pm:
        return hvgen.gen_range(rng, freq)
    def at():
        l, r = pm[int(rng.integers(0, len(pm)))]
        i = int(rng.integers(l, r + 1))
        step = (freq[min(i + 1, len(freq) - 1)] - freq[max(i - 1, 0)]) / 2
        return float(freq[i] + rng.choice([0.0, 0.0, 0.3, -0.3]) * step)
    k = rng.random()
    if k < 0.3:
        return (at(), None)
    if k < 0.6:
        return (None, at())
    a, b = sorted([at(), float(rng.choice([at(), hvgen.gen_range(rng, freq)[0] or freq[0], freq[-1]]))])
    return (a, b)


def impl_curve_peak(obj):
    f, a = obj.peak_frequency, obj.peak_amplitude
    return None if (f is None or f != f) else [float(f), float(a)]


def parse_peak(line):
    t = Toks(line)
    if t.tok() != "ok":
        return "err"
    k = t.tok()
    pk = None if k == "none" else [t.flt(), t.flt()]
    lo, hi = t.nat(), t.nat()
    lm = t.nvec()
    return pk, lo, hi, lm


def run(ctx):
    import hvsrpy
    ctx.rule = ("(a) single curves (8-40 points; smooth, noisy, multi-peak, monotone, flat, integer ties, plateaus; linear/log grids) x ranges "
                "(unbounded, half-open, on/off grid, limits on the curve's own local maxima, inverted, outside) x find_peaks options {None, {}, neutral options} on HvsrCurve and HvsrDiffuseField incl. sequences of 1-6 range updates; "
                "(b) update/mask histories on HvsrTraditional and HvsrAzimuthal incl. mean-curve peak; non-trivial = slice holds >=2 local maxima, "
                "a plateau/tie, or is empty by construction; distinct by input hash")
    ctx.trusted += ["find_peaks keyword options that can exclude peaks (height/prominence/width thresholds, distance > 1) are passed through to scipy and not "
                    "modelled; options that cannot exclude any peak (prominence=0, distance=1, height=-1e300, width=0) are exercised and must not change the answer"]
    rng = np.random.default_rng(ctx.seed)
    n = ctx.budget(300, 5000)
    reqs, cases = [], []
    for i in range(n):
        freq = hvgen.gen_freq(rng)
        amp = hvgen.gen_curve(rng, freq)
        cls = hvsrpy.HvsrCurve if i % 2 == 0 else hvsrpy.HvsrDiffuseField
        fb, ab = freq.copy(), amp.copy()
        obj = cls(fb, ab)
        if i % 3 != 2:      # the caller re-uses its float64 work buffers: the object must have kept its own copy
            fb[:] = fb[::-1].copy() * 2.0 + 1.0
            ab[:] = 5.0
        seq = [(None, None)] + [(range_at_maxima(rng, freq, amp) if rng.random() < 0.3 else hvgen.gen_range(rng, freq)) for _ in range(int(rng.integers(1, 7)))]
        if rng.random() < 0.3:   # repeat a range, change only one bound: the early-return path
            r0 = seq[-1]
            seq += [r0, (r0[0], hvgen.gen_range(rng, freq)[1]), r0]
        for k, r in enumerate(seq):
            if k > 0:
                # keyword options that cannot exclude any peak: the reported peak must be the same as without them
                kw = NEUTRAL_KWARGS[int(rng.integers(0, len(NEUTRAL_KWARGS)))]
                ctx.count("kwargs:" + ("none" if kw is None else ("empty" if not kw else "neutral-options")))
                obj.update_peaks_bounded(search_range_in_hz=r, find_peaks_kwargs=(dict(kw) if kw is not None else None))
            pk = impl_curve_peak(obj)
            extra = None
            if cls is hvsrpy.HvsrDiffuseField:
                try:
                    mp = obj.mean_curve_peak(search_range_in_hz=r)
                    extra = [float(mp[0]), float(mp[1])]
                except ValueError:
                    extra = None
            cases.append(dict(cls=cls.__name__, freq=freq.tolist(), amp=amp.tolist(), seq=[list(x) for x in seq[:k + 1]], range=list(r),
                              impl=pk, impl_mean_curve_peak=extra, diffuse=cls is hvsrpy.HvsrDiffuseField))
            reqs.append(f"peak {fvec(freq)} {fvec(amp)} {fopt(r[0])} {fopt(r[1])}")
    outs = run_driver(reqs)
    for c, o in zip(cases, outs):
        pk, lo, hi, lm = parse_peak(o)
        sl = c["amp"][lo:hi]
        nt = len(lm) >= 2 or len(set(sl)) < len(sl) or lo >= hi
        ctx.case((c["freq"], c["amp"], c["range"], len(c["seq"])), nt,
                 sample=dict(cls=c["cls"], n=len(c["freq"]), range=c["range"], n_updates=len(c["seq"]) - 1, impl=c["impl"], model=pk))
        ctx.count("slice_maxima:" + str(min(len(lm), 3)))
        ctx.count("range:" + "".join("N" if x is None else "v" for x in c["range"]))
        ctx.traces += 1
        why = oracle(c["freq"], c["amp"], c["range"], c["impl"])
        if why is None and c["diffuse"]:
            why = oracle(c["freq"], c["amp"], c["range"], c["impl_mean_curve_peak"])
        if why is not None:
            ctx.violation("peak-is-highest-local-maximum-in-range", dict(case=c, reason=why, model=pk), seam=c["cls"] + ".update_peaks_bounded")
        elif c["impl"] != pk or (c["diffuse"] and c["impl_mean_curve_peak"] != pk):
            # same amplitude, different member of a tie is allowed by the property ("a highest local maximum")
            if not (c["impl"] is not None and pk is not None and c["impl"][1] == pk[1]):
                ctx.violation("peak-correspondence", dict(case=c, model=pk), found_input=False, seam=c["cls"])
    refused_fdwra_probe(ctx, rng)
    # (b) histories on the window-set objects
    nh = ctx.budget(80, 1500)
    only = lambda op: op[0] in ("update", "tmask", "manual")
    hists = []
    for i in range(nh):
        kind = "T" if i % 2 == 0 else "A"
        hists.append(hvhist.build_history(rng, 10 + i, kind, int(rng.integers(1, 7)), with_stats=True, op_filter=only))
    hvhist.run_histories(ctx, hists, "mean-curve-peak-and-statistics-follow-range", "peaks-track-range-after-history")
    # oracle on every window of every final object
    for h in hists:
        m = h["mirror"]
        objs = [m.obj] if m.kind == "T" else m.obj.hvsrs
        for o in objs:
            r = o._search_range_in_hz
            for row, f, a in zip(o.amplitude, o._main_peak_frq, o._main_peak_amp):
                pk = None if f != f else [float(f), float(a)]
                why = oracle(o.frequency, row, r, pk)
                ctx.supporting["window_peaks_checked"] = ctx.supporting.get("window_peaks_checked", 0) + 1
                if why:
                    ctx.violation("peak-is-highest-local-maximum-in-range", dict(case=hvhist.history_json(h), reason=why, row=row.tolist(), range=list(r), peak=pk),
                                  seam="HvsrTraditional.update_peaks_bounded")


def refused_fdwra_probe(ctx, rng):
    """(c) an azimuthal result handed to frequency_domain_window_rejection with a NEW search range that one azimuth in the middle cannot serve (its curves
    rise monotonically through the range: no peak, the call is refused half way through the azimuths). Whatever the call did, the object afterwards reports
    ONE search range (meta and every azimuth agree) and every window of every azimuth holds the peak of that range -- 'changing the range always
    re-evaluates every peak', for every azimuth."""
    import hvsrpy
    for i in range(ctx.budget(12, 120)):
        freq = np.geomspace(0.2, 20.0, int(rng.integers(24, 48)))
        naz = int(rng.integers(3, 6))
        bad = int(rng.integers(1, naz - 1)) if rng.random() < 0.8 else None         # the azimuth without a peak in the new range (sometimes none: call succeeds)
        lo, hi = float(freq[len(freq) // 2]), float(freq[-3])
        hvs = []
        for a in range(naz):
            nw = int(rng.integers(3, 7))
            rows = []
            for _ in range(nw):
                f_low = float(rng.uniform(0.4, 0.8) * lo)                        # every curve has a peak below the new range ...
                row = 1.0 + 3.0 * np.exp(-(np.log(freq / f_low) / 0.25) ** 2) + 0.02 * rng.random(len(freq))
                if a != bad:                                                       # ... and, except for the bad azimuth, one inside it
                    f_in = float(rng.uniform(1.3 * lo, 0.7 * hi))
                    row = row + float(rng.uniform(1.0, 4.0)) * np.exp(-(np.log(freq / f_in) / 0.2) ** 2)
                else:
                    row = np.sort(row[freq >= lo * 0.9])[0] + np.where(freq >= lo * 0.9, np.linspace(0.0, 2.0, len(freq)), row - np.sort(row[freq >= lo * 0.9])[0])
                rows.append(row)
            hvs.append(hvsrpy.HvsrTraditional(freq, np.array(rows)))
        obj = hvsrpy.HvsrAzimuthal(hvs, [float(x) for x in np.linspace(0, 180, naz, endpoint=False)])
        calls = [((None, None), None), ((lo, hi), None)]
        if rng.random() < 0.5:
            calls.append(((None, hi), None))
        raised = []
        for r, kw in calls:
            try:
                with quiet():
                    hvsrpy.frequency_domain_window_rejection(obj, n=2.0, max_iterations=int(rng.integers(1, 5)), search_range_in_hz=r, find_peaks_kwargs=kw)
                raised.append(None)
            except Exception as e:      # noqa
                raised.append(type(e).__name__)
            reported = tuple(obj.meta.get("search_range_in_hz", (None, None)))
            ctx.count("refused_fdwra:" + ("refused" if raised[-1] else "completed"))
            ctx.supporting["azimuthal_range_changes_checked"] = ctx.supporting.get("azimuthal_range_changes_checked", 0) + 1
            why = None
            for k, o in enumerate(obj.hvsrs):
                if tuple(o._search_range_in_hz) != reported:
                    why = f"azimuth #{k} searched {tuple(o._search_range_in_hz)} while the result reports {reported}"
                    break
                for row, f, a_ in zip(o.amplitude, o._main_peak_frq, o._main_peak_amp):
                    w = oracle(o.frequency, row, reported, None if f != f else [float(f), float(a_)])
                    if w:
                        why = f"azimuth #{k}: {w} (range reported by the result: {reported})"
                        break
                if why:
                    break
            ctx.case(("refused-fdwra", i, len(raised)), True, sample=None)
            if why:
                ctx.violation("peaks-track-range-after-history", dict(case=dict(kind="azimuthal result, frequency_domain_window_rejection with a new search range",
                                                                             n_azimuths=naz, azimuth_without_peak_in_range=bad, calls=[list(c[0]) for c in calls[:len(raised)]],
                                                                             raised=raised, frequency=freq.tolist(), rows=[h.amplitude.tolist() for h in obj.hvsrs]),
                                                                   reason=why), seam="frequency_domain_window_rejection on HvsrAzimuthal")
                break


def replay(case):
    import hvsrpy
    if "cls" not in case:
        import c05
        return c05.replay(case)
    obj = getattr(hvsrpy, case["cls"])(np.array(case["freq"]), np.array(case["amp"]))
    for r in case["seq"][1:]:
        obj.update_peaks_bounded(search_range_in_hz=tuple(r))
    out = run_driver([f"peak {fvec(case['freq'])} {fvec(case['amp'])} {fopt(case['range'][0])} {fopt(case['range'][1])}"])
    return dict(impl=impl_curve_peak(obj), model=parse_peak(out[0]), oracle=oracle(case["freq"], case["amp"], case["range"], impl_curve_peak(obj)))
