"""C14 -- spatial weights are nearest-sensor area fractions; Monte-Carlo fn uses them.

Correspondence of hvsrpy.hvsr_spatial (HvsrSpatial.spatial_weights / bounded_voronoi, montecarlo_fn,
_statistics) with Model/Spatial.lean. The geometry model runs in exact rational arithmetic on the
very doubles the implementation was given (driver drv_c14)."""
from fractions import Fraction

import numpy as np

from common import *

PROP_MODULES = ["HvsrVerif.Props.C14"]
BRIDGE_MODULES = ["HvsrVerif.Bridge.PySpatial", "HvsrVerif.Bridge.PyVecSpatial"]
EXE = "drv_c14"
WTOL = 1e-9          # |delta weight| (absolute; weights are fractions of one)
DISTS = ("normal", "lognormal")


# ----------------------------------------------------------------------------------------------
# layouts
def _hull_ccw(pts):
    """monotone chain on floats -- used by the GENERATOR only (placing sensors inside / outside)"""
    pts = sorted(set(map(tuple, pts)))

    def cr(o, a, b):
        return (a[0] - o[0]) * (b[1] - o[1]) - (a[1] - o[1]) * (b[0] - o[0])
    lo, up = [], []
    for p in pts:
        while len(lo) >= 2 and cr(lo[-2], lo[-1], p) <= 0:
            lo.pop()
        lo.append(p)
    for p in reversed(pts):
        while len(up) >= 2 and cr(up[-2], up[-1], p) <= 0:
            up.pop()
        up.append(p)
    return np.array(lo[:-1] + up[:-1])


def _margin_inside(h, p):
    """min over the edges of the signed distance of p to the edge line (positive inside, h ccw)"""
    a = h
    b = np.roll(h, -1, axis=0)
    e = b - a
    d = (e[:, 0] * (p[1] - a[:, 1]) - e[:, 1] * (p[0] - a[:, 0])) / np.hypot(e[:, 0], e[:, 1])
    return float(d.min())


def gen_layout(rng, kind):
    """unit-scale layout: boundary points, sensors (>= 4 inside in general position, some outside)"""
    if kind == "line":
        # a nearly linear array across a rectangular site (sharp corners of the sensor hull / long unbounded cells):
        # the closing of unbounded Voronoi cells far outside the site is what this exercises
        w, h = rng.uniform(0.5, 1.0), rng.uniform(0.3, 1.0)
        bd = np.array([[-w, -h], [w, -h], [w, h], [-w, h]])
        n_in = int(rng.integers(4, 7))
        xs = np.sort(rng.uniform(-0.85 * w, 0.85 * w, n_in))
        while np.min(np.diff(xs)) < 0.05:
            xs = np.sort(rng.uniform(-0.85 * w, 0.85 * w, n_in))
        ys = rng.uniform(-0.04, 0.04, n_in) * h + rng.uniform(-0.3, 0.3) * h
        ang = rng.uniform(-0.3, 0.3)
        co = np.c_[xs * np.cos(ang) - ys * np.sin(ang), xs * np.sin(ang) + ys * np.cos(ang)]
        co = co[np.all(np.abs(co) < np.array([w, h]) * 0.97, axis=1)]
        if len(co) < 4:
            return None
        return dict(kind=kind, coords=co[rng.permutation(len(co))].tolist(), boundary=bd[rng.permutation(4)].tolist())
    for _ in range(200):
        shape = int(rng.integers(0, 3))
        nb = int(rng.integers(3, 10))
        if shape == 0:
            bd = rng.uniform(-1, 1, (nb, 2))
        elif shape == 1:                      # perturbed circle (all points on the hull) plus interior points
            ang = np.sort(rng.uniform(0, 2 * np.pi, nb))
            rad = rng.uniform(0.7, 1.0, nb)
            bd = np.c_[rad * np.cos(ang), rad * np.sin(ang)]
            bd = np.vstack([bd, rng.uniform(-0.3, 0.3, (int(rng.integers(0, 3)), 2))])
        else:                                 # rectangle
            w, h = rng.uniform(0.3, 1.0, 2)
            bd = np.array([[-w, -h], [w, -h], [w, h], [-w, h]])
        if kind == "tie":
            bd = np.round(bd * 8) / 8         # dyadic boundary: exact on-boundary sensors can be built
        bd = bd[rng.permutation(len(bd))]
        h = _hull_ccw(bd)
        if len(h) < 3:
            continue
        area = 0.5 * abs(np.sum(h[:, 0] * np.roll(h[:, 1], -1) - np.roll(h[:, 0], -1) * h[:, 1]))
        if area < 0.15:
            continue
        n_in = int(rng.integers(4, 13))
        n_out = int(rng.choice([0, 0, 1, 2, 3]))
        n_in = min(n_in, 12 - min(n_out, 2)) if n_in + n_out > 12 else n_in
        pts = []
        tries = 0
        while len(pts) < n_in and tries < 4000:
            tries += 1
            p = rng.uniform(h.min(axis=0), h.max(axis=0))
            if _margin_inside(h, p) < 1e-3:
                continue
            if any(np.hypot(*(p - q)) < 0.02 for q in pts):
                continue
            pts.append(p)
        if len(pts) < 4:
            continue
        outs = []
        tries = 0
        while len(outs) < n_out and tries < 4000:
            tries += 1
            p = rng.uniform(h.min(axis=0) - 0.5, h.max(axis=0) + 0.5)
            if _margin_inside(h, p) > -1e-3:
                continue
            outs.append(p)
        onb = []
        if kind == "tie":
            # sensors exactly ON the boundary: a boundary vertex, a dyadic edge midpoint -> must be dropped
            k = int(rng.integers(0, len(h)))
            onb.append(h[k].copy())
            if rng.random() < 0.7:
                k2 = int(rng.integers(0, len(h)))
                onb.append((h[k2] + h[(k2 + 1) % len(h)]) / 2)
        co = np.array(pts + outs + onb)
        co = co[rng.permutation(len(co))]
        return dict(kind=kind, coords=co.tolist(), boundary=bd.tolist())
    return None


def transform(case, perm=None, shift=(0.0, 0.0), scale=1.0):
    co = np.array(case["coords"])
    bd = np.array(case["boundary"])
    if perm is not None:
        co = co[perm]
    co = co * scale + np.array(shift)
    bd = bd * scale + np.array(shift)
    return dict(kind=case["kind"], coords=co.tolist(), boundary=bd.tolist())


def pts_line(p):
    return " ".join([str(len(p))] + [hexf(x) + " " + hexf(y) for x, y in p])


def layout_line(case):
    return f"spatial.weights {pts_line(case['coords'])} {pts_line(case['boundary'])}"


class RToks(Toks):
    def frac(self):
        return Fraction(self.tok())

    def fvec_(self):
        return [self.frac() for _ in range(self.nat())]

    def fpts(self):
        return [(self.frac(), self.frac()) for _ in range(self.nat())]


def parse_layout(line):
    t = RToks(line)
    st = t.tok()
    if st != "ok":
        return dict(err=" ".join(t.rest()))
    idx = t.nvec()
    w = t.fvec_()
    sum_one = t.bool()
    nonneg = t.bool()
    hull = t.fpts()
    cells = [t.fpts() for _ in range(t.nat())]
    return dict(indices=idx, weights=w, sum_one=sum_one, nonneg=nonneg, hull=hull, cells=cells)


def impl_layout(case):
    import hvsrpy
    co = np.array(case["coords"])
    bd = np.array(case["boundary"])
    try:
        with quiet():
            sp = hvsrpy.HvsrSpatial(co)
            try:
                # the object is used for another boundary first (an enlarged copy: usually the same sensors are retained); what it returns
                # for `bd` afterwards must not depend on that
                cen = bd.mean(axis=0)
                sp.spatial_weights(cen + (bd - cen) * 1.37)
                sp.bounded_voronoi(cen + (bd - cen) * 1.37)
            except Exception:  # noqa
                pass
            # the two public calls in either order (the order is a function of the layout, so that a case replays): cells first and weights second must
            # give the weights of `bd` too, whatever the object answered for the other boundary before
            if int(round(abs(float(co[0][0])) * 1e6)) % 2 == 0:
                w, idx = sp.spatial_weights(bd)
                regions, idx2 = sp.bounded_voronoi(bd)
            else:
                regions, idx2 = sp.bounded_voronoi(bd)
                w, idx = sp.spatial_weights(bd)
        return dict(weights=[float(x) for x in w], indices=[int(i) for i in idx], indices2=[int(i) for i in idx2],
                    regions=[np.asarray(r, dtype=float).tolist() for r in regions])
    except Exception as e:  # noqa
        return dict(err=f"{type(e).__name__}: {str(e)[:120]}")


def _vertex_sets_match(a, b, scale):
    """every vertex of a has a partner in b and vice versa (coordinates compared with close())"""
    def has(p, lst):
        return any(close(p[0], q[0], scale) and close(p[1], q[1], scale) for q in lst)
    return all(has(p, b) for p in a) and all(has(q, a) for q in b)


def compare_layout(ctx, case, im, mo, tag):
    """returns list of (clause, detail)"""
    bad = []
    if "err" in im or "err" in mo:
        if ("err" in im) != ("err" in mo):
            bad.append(("weights-are-nearest-sensor-area-fractions", f"error-kind impl={im.get('err')} model={mo.get('err')}"))
        return bad
    if im["indices"] != mo["indices"] or im["indices2"] != mo["indices"]:
        bad.append(("indices-identify-retained-sensors", f"impl={im['indices']}/{im['indices2']} model={mo['indices']}"))
        return bad
    # exact checks on the model side (tests of the clauses that are not proved: partition of the hull)
    ctx.supporting["exact_partition_checks"] = ctx.supporting.get("exact_partition_checks", 0) + 1
    s = sum(mo["weights"], Fraction(0))
    if s != 1 or not mo["sum_one"] or min(mo["weights"]) < 0 or not mo["nonneg"]:
        bad.append(("model-cells-partition-the-hull", f"sum={float(s)!r} min={float(min(mo['weights']))!r}"))
    mw = [float(x) for x in mo["weights"]]
    d = max(abs(a - b) for a, b in zip(mw, im["weights"]))
    ctx.maxdw = max(getattr(ctx, "maxdw", 0.0), d)
    if d > WTOL or len(mw) != len(im["weights"]):
        bad.append(("weights-are-nearest-sensor-area-fractions", f"max|dw|={d!r} impl={im['weights']} model={mw}"))
    if min(im["weights"]) < 0:
        bad.append(("weights-nonnegative", f"impl={im['weights']}"))
    if abs(sum(im["weights"]) - 1) > WTOL * len(mw):
        bad.append(("weights-sum-to-one", f"sum={sum(im['weights'])!r}"))
    # bounded_voronoi: same vertex sets as the exact cells
    scale = float(np.max(np.abs(np.array(case["coords"] + case["boundary"]))))
    for k, (reg, cell) in enumerate(zip(im["regions"], mo["cells"])):
        cf = [(float(x), float(y)) for x, y in cell]
        # drop exact duplicates the clipper may emit when a vertex lies on a bisector
        if not _vertex_sets_match(reg, cf, scale):
            bad.append(("bounded-voronoi-cells-are-the-nearest-regions", f"cell {k} ({tag}): impl={reg} model={cf}"))
            break
    return bad


def probe_nearest(ctx, rng, case, im):
    """the property sentence evaluated directly on the implementation (supporting test):
    (a) every vertex of region k is inside the hull and at least as close to sensor k as to any other retained
    sensor, (b) Monte-Carlo estimate of the nearest-sensor area fractions agrees within 6 sigma"""
    bad = []
    if "err" in im:
        return bad
    co = np.array(case["coords"])
    h = _hull_ccw(np.array(case["boundary"]))
    pts = co[im["indices"]]
    ext = float(np.ptp(h, axis=0).max())
    tol = 1e-7 * ext + 1e-9 * float(np.abs(h).max())
    for k, reg in enumerate(im["regions"]):
        reg = np.array(reg)
        for v in reg:
            dd = np.hypot(pts[:, 0] - v[0], pts[:, 1] - v[1])
            if dd[k] > dd.min() + tol or _margin_inside(h, v) < -tol:
                bad.append(("bounded-voronoi-cells-are-the-nearest-regions", f"vertex {v.tolist()} of region {k} violates the region"))
                return bad
    nmc = 4000
    lo, hi = h.min(axis=0), h.max(axis=0)
    x = rng.uniform(lo, hi, (3 * nmc, 2))
    a = h
    b = np.roll(h, -1, axis=0)
    ins = np.all((b[:, 0] - a[:, 0])[None, :] * (x[:, 1][:, None] - a[:, 1][None, :])
                 - (b[:, 1] - a[:, 1])[None, :] * (x[:, 0][:, None] - a[:, 0][None, :]) > 0, axis=1)
    x = x[ins]
    if len(x) < 200:
        return bad
    near = np.argmin((x[:, 0][:, None] - pts[:, 0][None, :]) ** 2 + (x[:, 1][:, None] - pts[:, 1][None, :]) ** 2, axis=1)
    frac = np.bincount(near, minlength=len(pts)) / len(x)
    w = np.array(im["weights"])
    if len(w) != len(frac):
        bad.append(("weights-are-nearest-sensor-area-fractions", f"{len(w)} weights returned for {len(frac)} retained sensors"))
        return bad
    sig = np.sqrt(np.maximum(w * (1 - w), 1e-4) / len(x))
    ctx.supporting["montecarlo_area_probes"] = ctx.supporting.get("montecarlo_area_probes", 0) + 1
    if np.any(np.abs(frac - w) > 6 * sig + 1e-3):
        bad.append(("weights-are-nearest-sensor-area-fractions", f"sampled fractions {frac.tolist()} vs weights {w.tolist()} (n={len(x)})"))
    return bad


# ----------------------------------------------------------------------------------------------
# Monte-Carlo / statistics
def gen_mc(rng, kind, weights=None):
    g = DISTS[int(rng.integers(0, 2))]
    s = DISTS[int(rng.integers(0, 2))]
    m = int(rng.integers(1, 9)) if weights is None else len(weights)
    n = int(rng.choice([1, 2, 3, 5, 30, 200]))
    if kind == "zero" and n == 1 and m == 1:
        n = 5
    fn = np.exp(rng.uniform(np.log(0.2), np.log(20), m))
    if rng.random() < 0.15:
        fn[:] = fn[0]
    if g == "lognormal":
        means = np.log(fn)
        sds = rng.uniform(0.01, 0.5, m)
    else:
        means = fn
        sds = fn * rng.uniform(0.005, 0.1, m)     # keeps every draw positive (log is taken for spatial lognormal)
    if kind == "zero":
        sds = np.zeros(m)
    elif kind == "mixed":
        sds[rng.random(m) < 0.4] = 0.0
    if weights is None:
        w = rng.uniform(0.05, 1.0, m)
        if rng.random() < 0.3:
            w = w / w.sum()
        if rng.random() < 0.2:
            w = np.full(m, float(rng.choice([1.0, 0.25, 3.0])))
    else:
        w = np.array(weights, dtype=float)
    wdtype = "float64"
    if weights is None and rng.random() < 0.25:
        # whole-number weights handed over as an INTEGER array (counts, areas in m^2): "unchanged when all weights are multiplied by a
        # constant" holds for every magnitude, also where integer arithmetic on the weights would overflow
        w = (rng.integers(1, 10, m) * 10 ** int(rng.integers(0, 9))).astype(float)
        wdtype = str(rng.choice(["int64", "int32", "int64", "list-of-int"]))
    return dict(kind=kind, gen=g, spatial=s, means=means.tolist(), stddevs=sds.tolist(), weights=w.tolist(), n=n,
                seed=int(rng.integers(0, 2 ** 31)), wdtype=wdtype)


def _weights_as(case, w):
    """the weights in the container/dtype the case prescribes (the values are whole numbers whenever an integer type is prescribed)"""
    t = case.get("wdtype", "float64")
    if t == "float64" or any(float(x) != int(x) for x in w) or max(abs(float(x)) for x in w) >= 2 ** 31:
        return np.array(w, dtype=float)
    if t == "list-of-int":
        return [int(x) for x in w]
    return np.array([int(x) for x in w], dtype=t)


def draws_of(case):
    """the draws montecarlo_fn takes from a generator seeded with case['seed'] (numpy Generator.normal is trusted)"""
    r = np.random.default_rng(case["seed"])
    return [r.normal(mu, sd, size=case["n"]).tolist() for mu, sd in zip(case["means"], case["stddevs"])]


def impl_mc(case, weights=None, seed=None):
    import hvsrpy
    w = _weights_as(case, case["weights"] if weights is None else weights)
    try:
        with quiet(), np.errstate(all="ignore"):
            m, s, r = hvsrpy.montecarlo_fn(np.array(case["means"]), np.array(case["stddevs"]), w,
                                           distribution_generators=case["gen"], distribution_spatial=case["spatial"],
                                           n_realizations=case["n"],
                                           rng=np.random.default_rng(case["seed"] if seed is None else seed))
        return dict(mean=float(m), std=float(s), reals=np.asarray(r, dtype=float).tolist())
    except Exception as e:  # noqa
        return dict(err=f"{type(e).__name__}: {str(e)[:120]}")


def mc_lines(case, im):
    out = [f"spatial.mc {case['gen']} {case['spatial']} {fmat(draws_of(case))} {fvec(case['weights'])}"]
    if "err" not in im and np.all(np.isfinite(np.array(im["reals"]))):
        out.append(f"spatial.stats {case['spatial']} {fmat(im['reals'])} {fvec(case['weights'])}")
    return out


def parse_mc(line, with_reals):
    t = Toks(line)
    st = t.tok()
    if st != "ok":
        return None
    m, s = t.flt(), t.flt()
    return dict(mean=m, std=s, reals=t.mat() if with_reals else None)


def _finite(im):
    return "err" not in im and np.isfinite(im["mean"]) and np.isfinite(im["std"])


def closed_form(case):
    """weighted (log-)mean the zero-sigma simulation must return (independent oracle)"""
    w = np.array(case["weights"])
    w = w / w.sum()
    v = np.array(case["means"])
    if case["gen"] == "lognormal":
        v = np.exp(v)                # value of fn at each location
    if case["spatial"] == "lognormal":
        return float(np.exp(np.sum(w * np.log(v))))
    return float(np.sum(w * v))


def compare_mc(ctx, case, im, outs):
    bad = []
    mo = parse_mc(outs[0], True)
    if "err" in im:
        bad.append(("mc-weighted-statistics", f"implementation raised {im['err']}"))
        return bad
    if mo is None or not _finite(im):
        if (mo is None) != (not _finite(im)):
            bad.append(("mc-weighted-statistics", f"undefined-result mismatch impl={im['mean']},{im['std']} model={outs[0][:40]}"))
        ctx.count("mc:undefined")
        return bad
    scale = max(1.0, float(np.max(np.abs(np.array(im["reals"])))))
    sscale = max(abs(im["mean"]), 1.0) if case["spatial"] == "normal" else max(abs(np.log(im["mean"])), 1.0)
    if not close(im["mean"], mo["mean"], scale) or not close(im["std"], mo["std"], sscale):
        bad.append(("mc-space-conversion-and-statistics", f"impl=({im['mean']!r},{im['std']!r}) model=({mo['mean']!r},{mo['std']!r})"))
    if len(mo["reals"]) != len(im["reals"]) or not all(vclose(a, b, scale) for a, b in zip(im["reals"], mo["reals"])):
        bad.append(("mc-realisations-in-natural-units", "returned realisations differ from the model's"))
    if len(outs) > 1:
        ms = parse_mc(outs[1], False)
        if ms is None or not close(im["mean"], ms["mean"], scale) or not close(im["std"], ms["std"], sscale, rtol=1e-7):
            bad.append(("mc-weighted-statistics", f"statistics of the returned realisations: impl=({im['mean']!r},{im['std']!r}) "
                        f"model={None if ms is None else (ms['mean'], ms['std'])}"))
    return bad


def probes_mc(ctx, rng, case, im):
    bad = []
    if not _finite(im):
        return bad
    sup = ctx.supporting
    # reproducible for a given generator state (bit for bit)
    im2 = impl_mc(case)
    sup["mc_reproducibility"] = sup.get("mc_reproducibility", 0) + 1
    if im2 != im:
        bad.append(("mc-reproducible", "two runs with equally seeded generators differ"))
    im3 = impl_mc(case, seed=case["seed"] + 1)
    if any(s > 0 for s in case["stddevs"]) and "err" not in im3 and im3["reals"] == im["reals"]:
        bad.append(("mc-reproducible", "a different seed gives identical realisations (generator ignored)"))
    # unchanged when all weights are multiplied by a constant
    c = float(rng.choice([2.0, 0.125, rng.uniform(0.01, 100.0), 1e6]))
    imc = impl_mc(case, weights=(np.array(case["weights"]) * c).tolist())
    sup["mc_weight_scaling"] = sup.get("mc_weight_scaling", 0) + 1
    sscale = max(abs(im["mean"]), 1.0)
    if "err" in imc or not close(imc["mean"], im["mean"], sscale) or not close(imc["std"], im["std"], sscale, rtol=1e-7):
        bad.append(("mc-weight-scale-invariant", f"c={c!r}: {(im['mean'], im['std'])} -> {imc.get('mean')}, {imc.get('std')}"))
    # zero generating sigma: closed-form weighted (log-)mean
    if all(s == 0 for s in case["stddevs"]):
        cf = closed_form(case)
        sup["mc_zero_sigma"] = sup.get("mc_zero_sigma", 0) + 1
        if not close(im["mean"], cf, max(abs(cf), 1.0)):
            bad.append(("mc-zero-sigma-closed-form", f"impl mean {im['mean']!r} closed form {cf!r}"))
    return bad


def gen_stats(rng):
    m = int(rng.integers(1, 7))
    n = int(rng.integers(1, 9))
    vals = rng.normal(rng.uniform(-3, 3), rng.uniform(0.1, 2), (m, n))
    w = rng.uniform(0.1, 2, m)
    k = int(rng.integers(0, 10))
    if k == 0 and m >= 2:
        w[:] = 0.0
        w[0], w[1] = 1.0, -1.0          # weights summing to zero
    elif k == 1:
        w[1:] = 0.0                      # a single effective location
    elif k == 2:
        vals = np.round(vals)
    wdtype = "float64"
    if k >= 6:
        w = (rng.integers(1, 10, m) * 10 ** int(rng.integers(0, 9))).astype(float)
        wdtype = str(rng.choice(["int64", "int32"]))
    return dict(kind="stats", values=vals.tolist(), weights=w.tolist(), wdtype=wdtype)


def impl_stats(case):
    from hvsrpy import hvsr_spatial
    with np.errstate(all="ignore"):
        m, s = hvsr_spatial._statistics(np.array(case["values"]), _weights_as(case, case["weights"]))
    return dict(mean=float(m), std=float(s))


def stats_line(case):
    return f"spatial.rawstats {fmat(case['values'])} {fvec(case['weights'])}"


def compare_stats(case, im, line):
    mo = parse_mc(line, False)
    fin = np.isfinite(im["mean"]) and np.isfinite(im["std"])
    if mo is None or not fin:
        # 0/0 situations (zero weight sum, 1-w2 == 0) are decided by an exact float equality in both worlds
        if (mo is None) != (not fin):
            v = np.array(case["values"])
            w = np.array(case["weights"]) / np.sum(case["weights"]) if np.sum(case["weights"]) != 0 else None
            if w is not None and abs(1 - np.sum(w * w) / v.shape[1]) < 1e-12:
                return "near-tie"
            return f"undefined-result mismatch impl={im} model={line[:40]}"
        return None
    scale = max(1.0, float(np.max(np.abs(case["values"]))))
    if not close(im["mean"], mo["mean"], scale) or not close(im["std"], mo["std"], scale, rtol=1e-7):
        return f"impl={im} model={mo}"
    return None


# ----------------------------------------------------------------------------------------------
def ensure_driver():
    """the shared lean phase builds `hvsrdrv` only; the C14 commands live in their own executable"""
    rc, log = lake(["build", EXE])
    if rc != 0:
        raise InfraError("driver build failed (drv_c14):\n" + log[-3000:])


def run(ctx):
    ctx.rule = ("layouts = (boundary point set, 4-12 sensors strictly inside its convex hull in general position, 0-3 outside; "
                "'tie' stream: dyadic boundary with sensors exactly on a boundary vertex / edge midpoint); each layout is run "
                "as given (extent 1e-2..3e7) and as a permuted, a translated (offset <= 2e5 x extent, i.e. UTM-sized coordinates of a small site) and a uniformly scaled copy; "
                "non-trivial = at least one sensor culled or at least one unbounded Voronoi cell clipped by the hull; "
                "Monte-Carlo cases = (4 generator/spatial pairs) x (1-8 generators, 1-200 realisations, generic/zero/mixed sigma, "
                "weights random or the Voronoi weights of a layout); distinct by input hash")
    ctx.trusted += ["Qhull (scipy.spatial.Voronoi) and GEOS (shapely convex_hull/contains/intersection/area) are modelled by their "
                    "contract in exact rational arithmetic (monotone-chain hull, strict containment, half-plane clipping, shoelace)",
                    "numpy Generator.normal: the harness re-draws the same variates from an equally seeded generator",
                    "fractions.Fraction parsing of the driver's exact num/den answers"]
    ctx.assumptions += ["unbounded cells are closed with far points at 1e6 x the boundary extent (repaired defect C14-a: the radius used to be "
                        "1e6 coordinate units, wrong for large-coordinate nearly linear arrays); generated extents are 1e-2 .. 3e7",
                        "retained sensors in general position (no three collinear hull sensors, no duplicates): Qhull's joggle/"
                        "precision handling is outside the model"]
    ctx.partial_clauses += [
        "NOT proved in Lean, checked exactly in Q on every generated layout (test): model cells cover the region "
        "(completeness of the clipping), weights >= 0, sum of weights = 1  [voronoi_partition_partial]",
        "NOT proved: invariance of the whole weight pipeline under permutation of the sensors (tested on implementation and model); "
        "translation/scaling invariance is proved for the area functional and for the clipping step, tested end to end",
        "the monotone-chain hull is not proved to be the convex hull (contract of shapely, differential test only)"]
    ensure_driver()
    rng = np.random.default_rng(ctx.seed)
    n_layout = ctx.budget(150, 2500)
    n_mc = ctx.budget(400, 6000)
    n_stats = ctx.budget(300, 4000)

    # ---------------- layouts
    groups = []
    for i in range(n_layout):
        kind = "tie" if i % 5 == 4 else "line" if i % 5 == 2 else "generic"
        base = gen_layout(rng, kind)
        if base is None:
            continue
        ext = float(rng.choice([1e-2, 1.0, 1.0, 37.5, 1e3, 1e4, 1e6, 3e7]))    # 1e6, 3e7: a site surveyed in millimetres / a regional array in metres
        off = float(rng.choice([0.0, 0.0, 1.0, 1e2, 1e4])) if ext <= 1e4 else float(rng.choice([0.0, 1.0]))
        if kind == "tie":
            ext = float(rng.choice([0.25, 1.0, 64.0, 1024.0]))           # keeps the on-boundary sensors exactly on it
            off = float(rng.choice([0.0, 8.0, 4096.0]))
            sh = (np.round(rng.uniform(-1, 1, 2) * 8) / 8 * ext * off).tolist()
        else:
            sh = (rng.uniform(-1, 1, 2) * ext * off).tolist()
        b0 = transform(base, scale=ext, shift=sh)
        n = len(b0["coords"])
        perm = rng.permutation(n)
        tmag = float(rng.choice([1.0, 1e2, 1e4, 2e5]))      # 2e5 x extent: a 30 m site in UTM coordinates
        if kind == "tie":
            t = (np.round(rng.uniform(-1, 1, 2) * 8) * ext * float(rng.choice([1.0, 16.0, 1024.0]))).tolist()
            sc = float(rng.choice([0.5, 4.0, 8.0, 1 / 64]))      # extent stays <= 8192
        else:
            t = (rng.uniform(-1, 1, 2) * ext * tmag).tolist()
            # the scaled copy keeps the array extent within [1e-3, 1e4] coordinate units (see ctx.assumptions)
            sc = float(rng.choice([rng.uniform(0.1, 10), 1e-3, 1e2, 1e4])) if ext <= 1.0 else \
                float(rng.choice([rng.uniform(0.1, 1.0), 1e-3, 1e-2, 1.0 / ext]))
        variants = [("base", b0, None), ("permuted", transform(b0, perm=perm), perm),
                    ("translated", transform(b0, shift=t), None), ("scaled", transform(b0, scale=sc), None)]
        groups.append((kind, ext, variants))
    lines = [layout_line(v[1]) for g in groups for v in g[2]]
    outs = run_driver(lines, exe=EXE)
    k = 0
    ctx.maxdw = 0.0
    from scipy.spatial import ConvexHull
    voronoi_weights = []
    for kind, ext, variants in groups:
        base_im = None
        for tag, case, perm in variants:
            mo = parse_layout(outs[k])
            k += 1
            im = impl_layout(case)
            ctx.traces += 1
            ncull = len(case["coords"]) - len(mo.get("indices", []))
            nunb = 0
            if "indices" in mo:
                try:
                    nunb = len(ConvexHull(np.array(case["coords"])[mo["indices"]]).vertices)
                except Exception:  # noqa
                    nunb = 0
            ctx.case((case["coords"], case["boundary"]), nontrivial=(ncull > 0 or nunb > 0),
                     sample=dict(kind=kind, variant=tag, n_sensors=len(case["coords"]), culled=ncull, unbounded_cells=nunb,
                                 indices=im.get("indices"), weights=im.get("weights")))
            ctx.count("layout:" + kind + ":" + tag)
            ctx.count("culled:%d" % ncull)
            ctx.count("retained:%d" % len(mo.get("indices", [])))
            bad = compare_layout(ctx, case, im, mo, tag)
            if tag == "base":
                base_im = im
                bad += probe_nearest(ctx, rng, case, im)
                if "err" not in im:
                    voronoi_weights.append(im["weights"])
            elif "err" not in im and base_im is not None and "err" not in base_im:
                # metamorphic: order / translation / uniform scaling do not change weights and retained sensors
                ctx.supporting["metamorphic_" + tag] = ctx.supporting.get("metamorphic_" + tag, 0) + 1
                if perm is not None:
                    # new position q holds old sensor perm[q]
                    back = sorted((int(perm[q]), w) for q, w in zip(im["indices"], im["weights"]))
                    idx_b, w_b = [a for a, _ in back], [b for _, b in back]
                else:
                    idx_b, w_b = im["indices"], im["weights"]
                clause = {"permuted": "independent-of-sensor-order", "translated": "independent-of-translation",
                          "scaled": "independent-of-uniform-scaling"}[tag]
                if idx_b != base_im["indices"]:
                    bad.append((clause, f"retained {idx_b} vs {base_im['indices']}"))
                elif max(abs(a - b) for a, b in zip(w_b, base_im["weights"])) > WTOL:
                    bad.append((clause, f"weights {w_b} vs {base_im['weights']}"))
            for clause, detail in bad:
                ctx.violation(clause, dict(case=dict(case, what="layout"), variant=tag, detail=detail, impl_output=im,
                                           model_output=dict(indices=mo.get("indices"), err=mo.get("err"),
                                                             weights=[float(x) for x in mo.get("weights", [])])),
                              seam="HvsrSpatial.spatial_weights/bounded_voronoi")
    ctx.supporting["max_abs_weight_difference"] = ctx.maxdw
    reverse_order_probe(ctx, "c14", "impl_layout", [v[1] for g in groups for v in g[2]], "weights-are-nearest-sensor-area-fractions",
                        "HvsrSpatial in another order / fresh interpreter", sample=40)

    # ---------------- Monte-Carlo
    cases = []
    for i in range(n_mc):
        kind = ["generic", "generic", "zero", "mixed"][i % 4]
        w = None
        if voronoi_weights and i % 3 == 0:
            w = voronoi_weights[int(rng.integers(0, len(voronoi_weights)))]
            w = w[:8]
        cases.append(gen_mc(rng, kind, w))
    # degenerate: one generator, one realisation -> 1 - w2 == 0 -> undefined standard deviation
    cases.append(dict(kind="undefined", gen="normal", spatial="normal", means=[2.0], stddevs=[0.5], weights=[1.0], n=1, seed=5))
    ims = [impl_mc(c) for c in cases]
    blocks = [mc_lines(c, im) for c, im in zip(cases, ims)]
    outs = run_driver([ln for b in blocks for ln in b], exe=EXE)
    k = 0
    for c, im, b in zip(cases, ims, blocks):
        o = outs[k:k + len(b)]
        k += len(b)
        ctx.traces += 1
        ctx.case((c["gen"], c["spatial"], c["means"], c["stddevs"], c["weights"], c["n"], c["seed"]), nontrivial=True,
                 sample=dict(kind=c["kind"], gen=c["gen"], spatial=c["spatial"], generators=len(c["means"]), n=c["n"],
                             mean=im.get("mean"), std=im.get("std")))
        ctx.count(f"mc:{c['gen']}->{c['spatial']}:{c['kind']}")
        ctx.count(f"mc:weights-as-{c.get('wdtype', 'float64')}")
        bad = compare_mc(ctx, c, im, o) + probes_mc(ctx, rng, c, im)
        for clause, detail in bad:
            ctx.violation(clause, dict(case=dict(c, what="mc"), detail=detail, impl_output=dict(mean=im.get("mean"), std=im.get("std"), err=im.get("err")),
                                       model_output=o[0][:60]), seam="hvsrpy.montecarlo_fn")

    # ---------------- _statistics directly
    scases = [gen_stats(rng) for _ in range(n_stats)]
    outs = run_driver([stats_line(c) for c in scases], exe=EXE)
    for c, o in zip(scases, outs):
        im = impl_stats(c)
        ctx.traces += 1
        ctx.case((c["values"], c["weights"]), nontrivial=True)
        ctx.count("stats")
        r = compare_stats(c, im, o)
        if r == "near-tie":
            ctx.near_tie_skipped += 1
        elif r:
            ctx.violation("mc-weighted-statistics", dict(case=dict(c, what="stats"), detail=r, impl_output=im, model_output=o),
                          seam="hvsr_spatial._statistics")
        # weight scaling on the implementation
        if np.isfinite(im["mean"]) and np.isfinite(im["std"]):
            c2 = dict(c, weights=(np.array(c["weights"]) * 7.5).tolist())
            i2 = impl_stats(c2)
            sc = max(1.0, float(np.max(np.abs(c["values"]))))
            if not close(i2["mean"], im["mean"], sc) or not close(i2["std"], im["std"], sc, rtol=1e-7):
                ctx.violation("mc-weight-scale-invariant", dict(case=dict(c, what="stats"), scaled=c2, before=im, after=i2),
                              seam="hvsr_spatial._statistics")


def replay(case):
    ensure_driver()
    what = case.get("what")
    if what == "layout":
        im = impl_layout(case)
        mo = parse_layout(run_driver([layout_line(case)], exe=EXE)[0])
        bad = compare_layout(Ctx("C14", "quick", 0), case, im, mo, "replay")
        return dict(impl=im, model=dict(indices=mo.get("indices"), err=mo.get("err"), weights=[float(x) for x in mo.get("weights", [])]),
                    mismatches=bad)
    if what == "mc":
        im = impl_mc(case)
        o = run_driver(mc_lines(case, im), exe=EXE)
        ctx = Ctx("C14", "quick", 0)
        bad = compare_mc(ctx, case, im, o) + probes_mc(ctx, np.random.default_rng(0), case, im)
        return dict(impl=dict(mean=im.get("mean"), std=im.get("std"), err=im.get("err")), model=o[0][:80], mismatches=bad)
    im = impl_stats(case)
    o = run_driver([stats_line(case)], exe=EXE)[0]
    return dict(impl=im, model=o, mismatches=compare_stats(case, im, o))
