"""C11 -- azimuthal statistics weight every azimuth equally (Cheng et al. 2020)"""
import numpy as np

from common import *
import hvgen
import hvhist

PROP_MODULES = ["HvsrVerif.Props.C11", "HvsrVerif.Props.C11Laws", "HvsrVerif.Props.C11Order", "HvsrVerif.Props.C11Cov"]
BRIDGE_MODULES = ["HvsrVerif.Bridge.PyStats", "HvsrVerif.Bridge.PyVec", "HvsrVerif.Bridge.PyWeights"]


def nontrivial(h):
    st = h["steps"][-1]["state"]
    counts = [sum(x["vpeak"]) for x in st["hvsrs"]]
    return len(counts) >= 2 and min(counts) >= 1 and len(set(counts)) >= 2


def probes(ctx, rng, h):
    import hvsrpy
    m = h["mirror"]
    obj = m.obj
    counts = [int(np.sum(x.valid_peak_boolean_mask)) for x in obj.hvsrs]
    same_masks = all(np.array_equal(x.valid_peak_boolean_mask, x.valid_window_boolean_mask) for x in obj.hvsrs)
    nan_valid = any(bool(np.any(np.isnan(x._main_peak_frq[x.valid_peak_boolean_mask]))) for x in obj.hvsrs)
    if nan_valid:
        check_peakless(ctx, obj, hvhist.history_json(h))
        return
    if min(counts) < 2 or not same_masks:
        return
    scale = float(np.max(m.freq))
    for d in hvgen.DISTS:
        base = hvgen.impl_stats(obj, d)
        # (1) order of the azimuths is irrelevant
        perm = rng.permutation(len(obj.hvsrs))
        o2 = hvsrpy.HvsrAzimuthal([obj.hvsrs[i] for i in perm], [obj.azimuths[i] for i in perm])
        o2.update_peaks_bounded(search_range_in_hz=obj.hvsrs[0]._search_range_in_hz)
        for i, j in enumerate(perm):
            o2.hvsrs[i].valid_window_boolean_mask = obj.hvsrs[j].valid_window_boolean_mask.copy()
            o2.hvsrs[i].valid_peak_boolean_mask = obj.hvsrs[j].valid_peak_boolean_mask.copy()
        b = hvgen.impl_stats(o2, d)
        bad, _ = hvgen.cmp_stats(base, b, scale, 1e-9)
        ctx.supporting["order_cases"] = ctx.supporting.get("order_cases", 0) + 1
        if bad:
            ctx.violation("azimuth-order-irrelevant", dict(case=hvhist.history_json(h), distribution=d, permutation=perm.tolist(), differing=bad,
                                                          base={k: base[k] for k in bad}, permuted={k: b[k] for k in bad}), seam="HvsrAzimuthal statistics")
        # (2) mean = plain average over azimuths of the per-azimuth means (log space for lognormal)
        per = [x.mean_fn_frequency(d) for x in obj.hvsrs]
        mom = float(np.mean(per)) if d == "normal" else float(np.exp(np.mean(np.log(per))))
        if base["mf"] not in ("err", None) and not close(base["mf"], mom, scale, 1e-9):
            ctx.violation("mean-of-per-azimuth-means", dict(case=hvhist.history_json(h), distribution=d, mean_fn=base["mf"], mean_of_means=mom),
                          seam="HvsrAzimuthal.mean_fn_frequency")
        mcs = np.array([x.mean_curve(d) for x in obj.hvsrs])
        mom_c = np.mean(mcs, axis=0) if d == "normal" else np.exp(np.mean(np.log(mcs), axis=0))
        if base["mc"] != "err" and not vclose(base["mc"], mom_c.tolist(), scale, 1e-9):
            ctx.violation("mean-of-per-azimuth-means", dict(case=hvhist.history_json(h), distribution=d, what="mean curve"),
                          seam="HvsrAzimuthal.mean_curve")
        # (3) covariance diagonal = squared standard deviation
        if base["cov"] not in ("err", None) and base["sf"] not in ("err", None):
            if not (close(base["cov"][0], base["sf"] ** 2, 1.0, 1e-8) and close(base["cov"][2], base["sa"] ** 2, 1.0, 1e-8)):
                ctx.violation("covariance-diagonal-equals-variance", dict(case=hvhist.history_json(h), distribution=d, cov=base["cov"], sf=base["sf"], sa=base["sa"]),
                              seam="HvsrAzimuthal.cov_fn")
        # (4) equal counts => unweighted statistic of the pooled windows; single azimuth => traditional
        if len(set(counts)) == 1:
            pooled = hvsrpy.HvsrTraditional(obj.frequency, np.vstack([x.amplitude[x.valid_window_boolean_mask] for x in obj.hvsrs]))
            pooled.update_peaks_bounded(search_range_in_hz=obj.hvsrs[0]._search_range_in_hz)
            if np.all(pooled.valid_peak_boolean_mask):
                b = hvgen.impl_stats(pooled, d)
                ctx.supporting["pooled_cases"] = ctx.supporting.get("pooled_cases", 0) + 1
                for key in (("mf", "ma", "mc") if len(obj.hvsrs) > 1 else ("mf", "ma", "mc", "sf", "sa", "sc", "cov", "nf+", "nf-")):
                    bad, _ = hvgen.cmp_stats({key: base[key]}, {key: b[key]}, scale, 1e-8)
                    if bad:
                        ctx.violation("equal-counts-reduce-to-pooled" if len(obj.hvsrs) > 1 else "single-azimuth-reduces-to-traditional",
                                      dict(case=hvhist.history_json(h), distribution=d, key=key, azimuthal=base[key], pooled=b[key]),
                                      seam="HvsrAzimuthal statistics")


def check_peakless(ctx, obj, case):
    """a window without a peak that is (re-)accepted by a time-domain mask must not enter the resonance statistics:
    every azimuth weighs 1/n_azimuths, spread over its windows *with* a peak"""
    for d in hvgen.DISTS:
        per = []
        for x in obj.hvsrs:
            f = x._main_peak_frq[x.valid_peak_boolean_mask]
            f = f[~np.isnan(f)]
            if len(f) == 0:
                return
            per.append(float(np.mean(f)) if d == "normal" else float(np.exp(np.mean(np.log(f)))))
        want = float(np.mean(per)) if d == "normal" else float(np.exp(np.mean(np.log(per))))
        try:
            got = float(obj.mean_fn_frequency(d))
        except hvgen.STAT_ERRS:
            got = float("nan")
        ctx.supporting["peakless_cases"] = ctx.supporting.get("peakless_cases", 0) + 1
        if not close(got, want, 1.0, 1e-9):
            ctx.violation("peakless-window-excluded-azimuthal",
                          dict(case=case, nan_valid_peak=True, distribution=d, mean_fn_frequency=got, mean_over_windows_with_peak=want),
                          seam="HvsrAzimuthal.mean_fn_frequency after a time-domain mask")
            return


def witness_c11a(ctx):
    """fixed witness of known finding C11-a (runs first on every run)"""
    import hvsrpy
    f = np.array([1.0, 2.0, 3.0, 4.0, 5.0, 6.0])
    az0 = np.array([[1, 2, 5, 2, 1, 1], [1, 1, 2, 6, 2, 1], [2, 2, 2, 2, 2, 2]], dtype=float)   # third window: no peak
    az1 = np.array([[1, 3, 1, 1, 1, 1], [1, 1, 1, 4, 1, 1], [1, 1, 5, 1, 1, 1]], dtype=float)
    obj = hvsrpy.HvsrAzimuthal([hvsrpy.HvsrTraditional(f, az0), hvsrpy.HvsrTraditional(f, az1)], [0.0, 90.0])
    recs = hvgen.make_records_for_mask([True, True, True])
    hvsrpy.maximum_value_window_rejection(recs, maximum_value_threshold=0.5, normalized=False, hvsr=obj)
    check_peakless(ctx, obj, dict(kind="A", witness="C11-a", freq=f.tolist(), rows_per_az=[az0.tolist(), az1.tolist()], azimuths=[0.0, 90.0],
                                  ops=[["tmask", [True, True, True]]]))


def alias_probe(ctx, h):
    """every key of DISTRIBUTION_MAP selects the estimator of its canonical name, for every azimuthal statistic"""
    from hvsrpy.constants import DISTRIBUTION_MAP
    obj = h["mirror"].obj
    for alias, canon in DISTRIBUTION_MAP.items():
        if alias == canon:
            continue
        a = hvgen.impl_stats(obj, alias)
        b = hvgen.impl_stats(obj, canon)
        ctx.supporting["alias_cases"] = ctx.supporting.get("alias_cases", 0) + 1
        bad, _ = hvgen.cmp_stats(a, b, rtol=1e-12)
        # other spellings of the registered names (the name is lower-cased before the look-up): each statistic is either refused or the
        # canonical value -- never a different number
        for sp in {alias.upper(), alias.title(), canon.upper(), canon.capitalize()} - set(DISTRIBUTION_MAP):
            v = hvgen.impl_stats(obj, sp)
            both = [k for k in v if v[k] != "err" and b[k] != "err"]
            bad2, _ = hvgen.cmp_stats({k: v[k] for k in both}, {k: b[k] for k in both}, rtol=1e-12)
            ctx.supporting["spelling_cases"] = ctx.supporting.get("spelling_cases", 0) + 1
            if bad2:
                ctx.violation("distribution-alias", dict(case=hvhist.history_json(h), alias=sp, canonical=canon, differing=bad2,
                                                         alias_values={k: v[k] for k in bad2}, canonical_values={k: b[k] for k in bad2}),
                              seam="distribution argument, spelling with capitals")
                break
        if bad:
            ctx.violation("distribution-alias", dict(case=hvhist.history_json(h), alias=alias, canonical=canon, differing=bad,
                                                     alias_values={k: a[k] for k in bad}, canonical_values={k: b[k] for k in bad}),
                          seam="HvsrAzimuthal distribution argument")


def repeatable_probe(ctx, rng):
    """very stationary data: peak amplitudes (and frequencies) that agree to ~1e-7 across windows. The variance on the covariance diagonal must
    still be the squared standard deviation, and a single azimuth must still equal the traditional result (a one-pass E[x^2] - E[x]^2 formula
    loses these digits)"""
    import hvsrpy
    freq = np.geomspace(0.2, 20, 80)
    for j in range(ctx.budget(8, 60)):
        naz = int(rng.integers(1, 4)); nw = int(rng.integers(3, 8))
        f0 = float(rng.uniform(0.8, 5.0)); a0 = float(rng.uniform(2.0, 6.0))
        hs = []
        for _ in range(naz):
            rows = np.array([1.0 + (a0 * (1 + 1e-7 * rng.normal()) - 1.0) * np.exp(-0.5 * (np.log(freq / (f0 * (1 + (1e-3 if j % 2 else 1e-7) * rng.normal()))) / 0.3) ** 2)
                             for _ in range(nw)])
            hs.append(hvsrpy.HvsrTraditional(freq, rows))
        obj = hvsrpy.HvsrAzimuthal(hs, [float(a) for a in np.linspace(0, 150, naz)])
        for d in ("normal", "lognormal"):
            try:
                c = np.asarray(obj.cov_fn(d), dtype=float)
                sf, sa = float(obj.std_fn_frequency(d)), float(obj.std_fn_amplitude(d))
            except hvgen.STAT_ERRS:
                continue
            ctx.supporting["repeatable_cov_cases"] = ctx.supporting.get("repeatable_cov_cases", 0) + 1
            # the peak FREQUENCIES sit on grid points (their spread is rounding noise): only the amplitude variance is a meaningful number here
            ok = abs(c[1, 1] - sa * sa) <= 1e-5 * max(c[1, 1], sa * sa) + 1e-300
            if ok and naz == 1:
                t = np.asarray(hs[0].cov_fn(d), dtype=float)
                ok = bool(abs(t[1, 1] - c[1, 1]) <= 1e-5 * abs(t[1, 1]) + 1e-300)
            if not ok:
                ctx.violation("variance-on-covariance-diagonal-equals-squared-std", dict(case=dict(kind="A", freq=freq.tolist(), rows_per_az=[h.amplitude.tolist() for h in hs], azimuths=list(obj.azimuths)),
                                                                                  distribution=d, cov=c.tolist(), std_fn_frequency=sf, std_fn_amplitude=sa),
                              seam="HvsrAzimuthal.cov_fn on nearly identical windows")
                break


def run(ctx):
    ctx.rule = ("histories on HvsrAzimuthal objects (1-5 azimuths x 2-8 windows) with per-azimuth manual rejections, masks, FDWRA and range updates "
                "so that acceptance counts differ between azimuths; every statistic (both distributions) after every op vs the model; "
                "non-trivial = >=2 azimuths with unequal, non-zero accepted counts; distinct by history hash")
    rng = np.random.default_rng(ctx.seed)
    hvgen.ZERO_SAMPLES = True      # 8 % of the curve sets hold one exact zero amplitude (log 0 = -inf)
    witness_c11a(ctx)
    repeatable_probe(ctx, np.random.default_rng(ctx.seed + 11))
    n = ctx.budget(120, 2000)
    hists = [hvhist.build_history(rng, i + 1, "A", int(rng.integers(1, 7))) for i in range(n)]
    hvhist.run_histories(ctx, hists, "azimuthal-statistics-equal-cheng-estimators", "accept-state-after-history", nontrivial)
    for i, h in enumerate(hists):
        probes(ctx, rng, h)
        if i % 4 == 0:
            alias_probe(ctx, h)


def replay(case):
    import c05
    return c05.replay(case)
