"""C18 -- recordings persist exactly; copies are independent; trim keeps the right samples.

Ties to the real code:
 (a) random operation histories on real SeismicRecording3C objects mirrored by the state machine of Model/Rec.lean
     (driver `rec.hist`), then save/load under common.WORK: samples bit for bit, dt, degrees_from_north, meta content, ==
 (b) aliasing probes (np.shares_memory + in-place writes on either side) vs the location model (driver `alias`)
 (c) TimeSeries.trim / SeismicRecording3C.trim vs `trimIdx` (driver `trim`) incl. exact ties on dyadic time steps and refusals
"""
import os
import json
import math
from fractions import Fraction

import numpy as np

from common import *

PROP_MODULES = ["HvsrVerif.Props.C18"]
BRIDGE_MODULES = ["HvsrVerif.Bridge.PyOrient", "HvsrVerif.Bridge.PyTrim"]
EXE = "drv_c10"

DYADIC_DT = [0.5, 0.25, 0.125, 1 / 64, 1 / 128, 1 / 256, 1.0, 2.0]
OTHER_DT = [0.01, 0.005, 0.004, 1 / 75, 1 / 150, 1 / 300, 0.02, 0.1, 1 / 3]
SPECIALS = [-0.0, 0.0, 5e-324, -5e-324, 1.7976931348623157e308, -1.7976931348623157e308, 2.2250738585072014e-308, 1e-310, 0.1, 1 / 3,
            1e22, 123456789.12345679, float(np.nextafter(1.0, 2.0)), float("inf"), float("-inf")]   # +-inf are samples too (clipped channels, gaps marked by some loggers)



def ensure_driver():
    """the commands of C10/C18 live in their own executable (lean/HvsrVerif/Drv/C10.lean); build it under the shared lock"""
    rc, log = lake(["build", EXE])
    if rc != 0:
        raise InfraError("driver build failed:\n" + log[-3000:])

# ----------------------------------------------------------------------------------------------
# JSON on the wire (same prefix notation as Drv/C10.lean); tuples and lists are both arrays
def enc_str(s):
    return "x" + s.encode("utf-8").hex()


def jtok(v):
    if v is None:
        return "N"
    if v is True:
        return "T"
    if v is False:
        return "F"
    if isinstance(v, (int, float, np.floating, np.integer)):
        return "n " + hexf(float(v))
    if isinstance(v, str):
        return "s " + enc_str(v)
    if isinstance(v, (list, tuple)):
        return " ".join(["a", str(len(v))] + [jtok(x) for x in v])
    if isinstance(v, dict):
        return " ".join(["o", str(len(v))] + [enc_str(k) + " " + jtok(x) for k, x in v.items()])
    raise TypeError(type(v))


def canon(v):
    """meta content: tuples == lists, ints == floats (what JSON can express)"""
    if isinstance(v, (list, tuple)):
        return [canon(x) for x in v]
    if isinstance(v, dict):
        return {k: canon(x) for k, x in v.items()}
    if isinstance(v, bool) or v is None or isinstance(v, str):
        return v
    return float(v)


def bits(a):
    return np.ascontiguousarray(a, dtype=np.float64).tobytes()


# ----------------------------------------------------------------------------------------------
# (a) histories
def gen_meta(rng):
    r = rng.random()
    if r < 0.25:
        return None
    m = {}
    pool = [("site", "A 12"), ("elev", 12.5), ("count", 3), ("tags", ["a", 1, None, True, 2.5]), ("nested", {"x": [1.5, {"y": "z"}], "e": []}),
            ("ünï", "ça\n\"q\""), ("flag", False), ("file name(s)", "rec.mseed"), ("current degrees from north", 12.0),
            ("deployed degrees from north", 400.0), ("trim", [1, 2]), ("empty", {}), ("neg0", -0.0), ("tiny", 5e-324)]
    for i in rng.permutation(len(pool))[: int(rng.integers(1, 6))]:
        m[pool[i][0]] = pool[i][1]
    return m


def gen_hist_case(rng, i):
    stream = ["exact", "arith", "arith", "special"][i % 4]
    n = int(rng.integers(8, 160))
    dt = float(rng.choice(DYADIC_DT if rng.random() < 0.4 else OTHER_DT))
    deg = float(rng.choice([0.0, rng.uniform(-720, 1080), float(rng.integers(-4, 8)) * 90.0, 359.99999999999994, rng.uniform(0, 360)]))
    nops = int(rng.integers(1, 9))
    ops = []
    allowed = ["trim", "split", "copy", "sl", "set"] if stream in ("exact", "special") else \
        ["trim", "split", "copy", "sl", "set", "det", "win", "filt", "orient", "orient", "det"]
    for _ in range(nops):
        k = str(rng.choice(allowed))
        u = [float(x) for x in rng.random(4)]
        ops.append([k, u, int(rng.integers(0, 2 ** 31))])
    return dict(kind="hist", stream=stream, n=n, dt=dt, deg=deg, meta=gen_meta(rng), ops=ops, sseed=int(rng.integers(0, 2 ** 31)))


def samples(rng, n, stream):
    if stream == "special":
        return np.array([SPECIALS[int(j)] for j in rng.integers(0, len(SPECIALS), n)])
    x = rng.normal(0, 1, n) * 10 ** rng.uniform(-3, 3) + rng.uniform(-5, 5)
    if stream == "exact" and rng.random() < 0.5:
        x = np.round(x * 8) / 8
    return x


def exec_hist(case, work):
    """runs the history on the real classes; returns (request line, per-op records, final recording, probes)"""
    from hvsrpy.timeseries import TimeSeries
    from hvsrpy.seismic_recording_3c import SeismicRecording3C
    r = np.random.default_rng(case["sseed"])
    n, dt = case["n"], case["dt"]
    comps = [samples(r, n, case["stream"]) for _ in range(3)]
    toks = [hexf(dt), hexf(case["deg"])] + [fvec(c) for c in comps] + [jtok(case["meta"] or {})]
    rec = SeismicRecording3C(*[TimeSeries(c, dt) for c in comps], degrees_from_north=case["deg"],
                             meta=None if case["meta"] is None else dict(case["meta"]))
    per_op = []
    op_toks = []
    problems = []
    mutated = False
    for kind, u, s in case["ops"]:
        n_cur = rec.ns.n_samples
        status = "-"
        rr = np.random.default_rng(s)
        try:
            rec, status, tok, mut = exec_op(case, rec, kind, u, s, rr, n_cur, dt, work, problems)
            if s % 3 == 1:
                observers(rec)
        except Exception as e:   # reported as a disagreement, not a crash of the check
            status, tok, mut = "exc:" + type(e).__name__, None, False
        if tok is None:
            per_op.append([status, -1, "-"])
            break
        op_toks.append(tok)
        mutated = mutated or mut
        per_op.append([status, int(rec.ns.n_samples), hexf(rec.degrees_from_north)])
    line = "rec.hist " + " ".join(toks) + f" {len(op_toks)} " + " ".join(op_toks)
    return line, per_op, rec, problems, mutated


def observers(rec):
    """public calls that only LOOK at a recording (time axis, text, comparison, the waveform plot of a list in which it is not the first entry): they are no
    operations of the history -- whatever follows must behave as if they had not happened"""
    import matplotlib
    matplotlib.use("Agg")
    import matplotlib.pyplot as plt
    from hvsrpy.seismic_recording_3c import SeismicRecording3C
    import hvsrpy.postprocessing as pp
    rec.ns.time(); rec.vt.time()
    str(rec); repr(rec.ns)
    rec.is_similar(rec)
    other = SeismicRecording3C.from_seismic_recording_3c(rec)
    try:
        with quiet():
            pp.plot_seismic_recordings_3c([other, rec])
    finally:
        plt.close("all")


def exec_op(case, rec, kind, u, s, rr, n_cur, dt, work, problems):
    from hvsrpy.seismic_recording_3c import SeismicRecording3C
    status = "-"
    mutated = False
    op_toks = []
    if True:
        if kind == "trim":
            i0 = int(u[0] * n_cur * 0.6)
            i1 = min(n_cur - 1, i0 + 1 + int(u[1] * (n_cur - i0 - 1))) if n_cur > 1 else 0
            e0 = (u[2] - 0.5) * 0.8 * dt
            e1 = (u[3] - 0.5) * 0.8 * dt
            t0 = i0 * dt + (abs(e0) if i0 == 0 else e0)
            t1 = i1 * dt + (-abs(e1) if i1 == n_cur - 1 else e1)
            if s % 7 == 0:
                t0, t1 = i0 * dt, i1 * dt
            if s % 11 == 0:   # refusals
                t0, t1 = [(-dt, t1), (t1, t0), (t0, (n_cur - 1) * dt * 1.01 + dt), (t0, t0)][s % 4]
            t0, t1 = float(t0), float(t1)
            try:
                rec.trim(t0, t1)
                mutated = True
            except IndexError:
                status = "index"
            op_toks.append(f"trim {hexf(t0)} {hexf(t1)}")
        elif kind == "det":
            mode = "linear" if s % 2 else "constant"
            rec.detrend(type=mode)
            mutated = True
            op_toks.append(f"det {mode}")
        elif kind == "win":
            w = float(round(u[0], 3))
            rec.window(type="tukey", width=w)
            mutated = True
            op_toks.append(f"xf {enc_str('window_type_and_width')} {jtok(['tukey', w])} {fvec(rec.ns.amplitude)} {fvec(rec.ew.amplitude)} {fvec(rec.vt.amplitude)}")
        elif kind == "filt":
            fnyq = 0.5 / dt
            lo, hi = float(round((0.05 + 0.2 * u[0]) * fnyq, 4)), float(round((0.5 + 0.4 * u[1]) * fnyq, 4))
            fc = [(lo, hi), (lo, None), (None, hi), (None, None)][s % 4]
            if n_cur < 48:
                fc = (None, None)
            if s % 3 == 0:
                fc = list(fc)
            rec.butterworth_filter(fc)
            mutated = mutated or fc[0] is not None or fc[1] is not None
            op_toks.append(f"xf {enc_str('butterworth_filter')} {jtok(fc)} {fvec(rec.ns.amplitude)} {fvec(rec.ew.amplitude)} {fvec(rec.vt.amplitude)}")
        elif kind == "orient":
            d = float([u[0] * 1800 - 720, float(int(u[0] * 20) - 8) * 45.0, u[0] * 360][s % 3])
            rec.orient_sensor_to(d)
            mutated = True
            op_toks.append(f"orient {hexf(d)}")
        elif kind == "split":
            kk = max(1, int(u[0] * n_cur * 0.7))
            L = float([kk * dt, kk * dt + 0.37 * dt, (n_cur + 3) * dt, 0.3 * dt][0 if s % 5 < 2 else (1 if s % 5 < 4 else 2 + (s // 5) % 2)])
            j = None
            try:
                ws = rec.split(L)
                if s % 3 != 0:
                    j = int(u[1] * len(ws))
                    for w in ws:
                        for cn in ("ns", "ew", "vt"):
                            if np.shares_memory(getattr(w, cn).amplitude, getattr(rec, cn).amplitude):
                                problems.append("split window shares memory with its source")
                    rec = ws[j]
                    mutated = True
            except ValueError:
                status = "value"
            except ZeroDivisionError:
                status = "zerodiv"
            op_toks.append(f"split {hexf(L)} {'none' if j is None else j}")
        elif kind == "copy":
            rec = SeismicRecording3C.from_seismic_recording_3c(rec)
            op_toks.append("copy")
        elif kind == "sl":
            fn = os.path.join(work, "mid.json")
            rec.save(fn)
            new = SeismicRecording3C.load(fn)
            os.remove(fn)
            why = same_recording(rec, new)
            if why:
                problems.append("mid-history save/load: " + why)
            rec = new
            op_toks.append("sl")
        elif kind == "set":
            arrs = [samples(rr, n_cur, case["stream"]) for _ in range(3)]
            rec.ns.amplitude, rec.ew.amplitude, rec.vt.amplitude = arrs
            mutated = True
            op_toks.append(f"set {fvec(arrs[0])} {fvec(arrs[1])} {fvec(arrs[2])}")
    return rec, status, op_toks[0], mutated


def same_recording(a, b):
    """the property sentence: every sample bit for bit, the time step, the orientation and the metadata content"""
    for cn in ("ns", "ew", "vt"):
        x, y = getattr(a, cn), getattr(b, cn)
        if x.amplitude.dtype != np.float64 or y.amplitude.dtype != np.float64:
            return f"{cn}: dtype"
        if bits(x.amplitude) != bits(y.amplitude):
            return f"{cn}: samples differ"
        if x.dt_in_seconds != y.dt_in_seconds:
            return f"{cn}: dt differs"
    if a.degrees_from_north != b.degrees_from_north:
        return f"degrees_from_north {a.degrees_from_north!r} -> {b.degrees_from_north!r}"
    if canon(a.meta) != canon(b.meta) or list(a.meta.keys()) != list(b.meta.keys()):
        return "meta content differs"
    return None


def parse_hist(line):
    t = Toks(line)
    st = t.tok()
    if st != "ok":
        return dict(err=" ".join(t.rest()))
    nops = t.nat()
    per = [[t.tok(), t.nat(), t.tok()] for _ in range(nops)]
    ns, ew, vt = t.vec(), t.vec(), t.vec()
    dt, deg = t.flt(), t.flt()
    return dict(per=per, ns=ns, ew=ew, vt=vt, dt=dt, deg=deg, meta=" ".join(t.rest()))


def check_hist(ctx, case, line, per_op, rec, problems, mutated, mo, work):
    from hvsrpy.seismic_recording_3c import SeismicRecording3C
    rp = dict(case=case, impl_per_op=per_op, model_per_op=mo.get("per"), model_error=mo.get("err"))
    for p in problems:
        ctx.violation("save-load-restores-everything" if "save/load" in p else "copies-share-no-sample-storage", dict(rp, why=p),
                      seam="SeismicRecording3C history")
    if "err" in mo:
        ctx.violation("history-correspondence", rp, seam="SeismicRecording3C vs Model.Rec (constructor)")
        return
    if mo["per"] != per_op:
        first = next((i for i, (a, b) in enumerate(zip(per_op, mo["per"])) if a != b), None)
        opk = case["ops"][first][0] if first is not None else "?"
        deg_differs = first is not None and per_op[first][2] != mo["per"][first][2] and per_op[first][:2] == mo["per"][first][:2]
        clause = "orientation-normalised" if deg_differs else \
            {"trim": "trim-keeps-nearest-samples", "orient": "orientation-normalised"}.get(opk, "history-correspondence")
        ctx.violation(clause, dict(rp, first_divergent_op=first, op=opk), seam="SeismicRecording3C vs Model.Rec.step")
        return
    ctx.traces += 1
    exact = case["stream"] in ("exact", "special")
    sc = max([1.0] + [float(np.max(np.abs(getattr(rec, c).amplitude))) for c in ("ns", "ew", "vt") if rec.ns.n_samples])
    for cn in ("ns", "ew", "vt"):
        a = getattr(rec, cn).amplitude
        b = np.array(mo[cn])
        ok = (bits(a) == bits(b)) if exact else vclose(a, b, sc)
        if not ok:
            ctx.violation("history-correspondence", dict(rp, why=f"final {cn} samples differ", impl=a.tolist()[:8], model=mo[cn][:8]),
                          seam="SeismicRecording3C vs Model.Rec.step")
            return
    if hexf(rec.ns.dt_in_seconds) != hexf(mo["dt"]) or hexf(rec.degrees_from_north) != hexf(mo["deg"]):
        ctx.violation("history-correspondence", dict(rp, why="dt or degrees differ"), seam="SeismicRecording3C vs Model.Rec.step")
        return
    if jtok(rec.meta) != mo["meta"]:
        ctx.violation("metadata-content", dict(rp, impl_meta=str(rec.meta), model_meta=mo["meta"][:600]), seam="SeismicRecording3C.meta vs Model.Rec")
        return
    # invariant of the model's theorem (orientation_normalised) observed on the implementation
    d = rec.degrees_from_north
    if not (0 <= d < 360):
        ctx.supporting["deg_not_in_[0,360)"] = ctx.supporting.get("deg_not_in_[0,360)", 0) + 1
    # ---- save / load
    fn = os.path.join(work, "final.json")
    rec.save(fn)
    new = SeismicRecording3C.load(fn)
    with open(fn) as f:
        raw = json.load(f)
    os.remove(fn)
    why = same_recording(rec, new)
    if why:
        ctx.violation("save-load-restores-everything", dict(rp, why=why), seam="SeismicRecording3C.save/load")
        return
    ctx.supporting["save_load_round_trips"] = ctx.supporting.get("save_load_round_trips", 0) + 1
    if not (new == rec):
        # __eq__ compares meta with tuple != list; the property speaks about content
        from copy import deepcopy
        probe = SeismicRecording3C.from_seismic_recording_3c(rec)
        probe.meta = canon_keep_numbers(rec.meta)
        if new == probe:
            ctx.count("eq_false_only_because_tuple_in_meta")
        else:
            ctx.violation("save-load-restores-everything", dict(rp, why="loaded != original under __eq__"), seam="SeismicRecording3C.__eq__")
    else:
        ctx.count("eq_true")
    if set(raw.keys()) != {"dt_in_seconds", "ns_amplitude", "ew_amplitude", "vt_amplitude", "degrees_from_north", "meta"}:
        ctx.violation("save-load-restores-everything", dict(rp, why="file layout", keys=sorted(raw.keys())), seam="SeismicRecording3C._to_dict")
    # second generation is a fixed point
    new.save(fn)
    new2 = SeismicRecording3C.load(fn)
    os.remove(fn)
    why = same_recording(new, new2) or (None if new2 == new else "second generation != first under __eq__")
    if why:
        ctx.violation("save-load-restores-everything", dict(rp, why="second generation: " + why), seam="SeismicRecording3C.save/load")


def canon_keep_numbers(v):
    if isinstance(v, (list, tuple)):
        return [canon_keep_numbers(x) for x in v]
    if isinstance(v, dict):
        return {k: canon_keep_numbers(x) for k, x in v.items()}
    return v


# ----------------------------------------------------------------------------------------------
# (b) aliasing
def alias_probe(ctx, rng, case):
    from hvsrpy.timeseries import TimeSeries
    from hvsrpy.seismic_recording_3c import SeismicRecording3C
    n, k, dt = case["n"], case["k"], case["dt"]
    r = np.random.default_rng(case["sseed"])
    base = [r.normal(0, 1, n) for _ in range(3)]
    ts_in = [TimeSeries(b, dt) for b in base]
    rec = SeismicRecording3C(*ts_in, degrees_from_north=case["deg"])
    # history before copying (mutating ops)
    for op in case["pre_ops"]:
        if op == "trim" and rec.ns.n_samples > 6:
            rec.trim(dt * 1, dt * (rec.ns.n_samples - 2))
        elif op == "detrend":
            rec.detrend()
        elif op == "window":
            rec.window(width=0.2)
        elif op == "orient":
            rec.orient_sensor_to(case["deg"] + 33.0)
        elif op == "filter" and rec.ns.n_samples >= 48:
            rec.butterworth_filter((None, 0.2 / dt))
    n = rec.ns.n_samples
    k = max(1, min(k, n))
    flags = {}
    pairs = []   # (label, source arrays getter, copy arrays getter)

    def arrs(o):
        return [o.ns.amplitude, o.ew.amplitude, o.vt.amplitude]

    t_copy = TimeSeries.from_timeseries(rec.ns)
    flags["ts"] = bool(np.shares_memory(t_copy.amplitude, rec.ns.amplitude))
    t_ctor = TimeSeries(rec.ns.amplitude, dt)
    flags["ts_ctor"] = bool(np.shares_memory(t_ctor.amplitude, rec.ns.amplitude))
    flags["ctor"] = any(np.shares_memory(a, b.amplitude) or np.shares_memory(a, c) for a in [x for x in arrs(SeismicRecording3C(*ts_in))] for b in ts_in for c in base)
    rec_ctor = SeismicRecording3C(rec.ns, rec.ew, rec.vt, degrees_from_north=rec.degrees_from_north, meta=rec.meta)
    flags["ctor2"] = any(np.shares_memory(a, b) for a in arrs(rec_ctor) for b in arrs(rec))
    rec_copy = SeismicRecording3C.from_seismic_recording_3c(rec)
    flags["copy"] = any(np.shares_memory(a, b) for a in arrs(rec_copy) for b in arrs(rec))
    ws_ts = rec.ns.split(k * dt)
    flags["split_ts"] = any(np.shares_memory(w.amplitude, rec.ns.amplitude) for w in ws_ts) or \
        any(np.shares_memory(a.amplitude, b.amplitude) for i, a in enumerate(ws_ts) for b in ws_ts[i + 1:])
    ws = rec.split(k * dt)
    flags["split_3c"] = any(np.shares_memory(a, b) for w in ws for a in arrs(w) for b in arrs(rec)) or \
        any(np.shares_memory(a, b) for i, w in enumerate(ws) for v in ws[i + 1:] for a in arrs(w) for b in arrs(v))
    # positive control of the location model: trim keeps a view of the old buffer
    tt = TimeSeries(base[0], dt)
    old = tt.amplitude
    s, e = case["s"], case["e"]
    view = None
    if n >= 4:
        tt.trim(s * dt, e * dt)
        view = bool(np.shares_memory(old, tt.amplitude))
    # in-place writes on either side
    vis_copy = vis_src = False
    copies = [("ts", [t_copy.amplitude], [rec.ns.amplitude]), ("ts_ctor", [t_ctor.amplitude], [rec.ns.amplitude]),
              ("ctor2", arrs(rec_ctor), arrs(rec)), ("copy", arrs(rec_copy), arrs(rec)),
              ("split_ts", [w.amplitude for w in ws_ts], [rec.ns.amplitude]), ("split_3c", [a for w in ws for a in arrs(w)], arrs(rec))]
    where = []
    for label, cps, srcs in copies:
        snap_src = [bits(a) for a in srcs]
        for a in cps:           # write through the copy
            a[int(r.integers(0, len(a)))] = 12345.678
            a *= 1.5
        if [bits(a) for a in srcs] != snap_src:
            vis_copy = True
            where.append(label + ":copy->source")
        snap_cp = [bits(a) for a in cps]
        for a in srcs:          # write through the source
            a[int(r.integers(0, len(a)))] = -9876.5
            a += 1.0
        if [bits(a) for a in cps] != snap_cp:
            vis_src = True
            where.append(label + ":source->copy")
    # the caller's TimeSeries objects / arrays handed to the constructor are independent of the stored components
    snap = [bits(a) for a in arrs(rec)]
    for t_, b in zip(ts_in, base):
        t_.amplitude[0] = 777.0
        b[0] = 888.0
    if [bits(a) for a in arrs(rec)] != snap:
        vis_src = True
        where.append("ctor:argument->stored")
    return dict(flags=flags, trim_view=view, vis_copy=vis_copy, vis_src=vis_src, where=where, n=n, k=k, nwin=len(ws_ts))


def check_alias(ctx, case, res, mo_line):
    t = Toks(mo_line)
    assert t.tok() == "ok", mo_line
    m_ts, m_ctor, m_copy, m_split = t.bool(), t.bool(), t.bool(), t.bool()
    m_nwin = t.nat()
    m_view, m_v1, m_v2 = t.bool(), t.bool(), t.bool()
    rp = dict(case=case, impl_output=res, model_output=dict(ts=m_ts, ctor=m_ctor, copy=m_copy, split=m_split, trim_view=m_view,
                                                            write_copy_visible=m_v1, write_source_visible=m_v2))
    f = res["flags"]
    bad = []
    if f["ts"] != m_ts or f["ts_ctor"] != m_ts:
        bad.append("TimeSeries copy constructor")
    if f["ctor"] != m_ctor or f["ctor2"] != m_ctor:
        bad.append("components stored by the constructor")
    if f["copy"] != m_copy:
        bad.append("from_seismic_recording_3c")
    if f["split_ts"] != m_split or f["split_3c"] != m_split:
        bad.append("split windows")
    if res["vis_copy"] != m_v1 or res["vis_src"] != m_v2:
        bad.append("in-place write visible across copies: " + ",".join(res["where"]))
    if bad:
        ctx.violation("copies-share-no-sample-storage", dict(rp, why=bad), seam="np.shares_memory / in-place writes vs location model")
        return
    ctx.traces += 1
    if res["trim_view"] is not None and res["trim_view"] != m_view:
        ctx.violation("location-model-positive-control", dict(rp, why="trim is expected to keep a view of the old buffer"),
                      found_input=True, seam="np.shares_memory after trim vs location model")


# ----------------------------------------------------------------------------------------------
# (c) trim seam
def gen_trim_case(rng, i):
    stream = ["on", "between", "midpoint", "refuse", "between", "ends"][i % 6]
    n = int(rng.integers(2, 400))
    dyadic = stream == "midpoint" or rng.random() < 0.3
    dt = float(rng.choice(DYADIC_DT if dyadic else OTHER_DT))
    i0 = int(rng.integers(0, n - 1))
    i1 = int(rng.integers(i0 + 1, n))
    t = np.arange(n) * dt
    if stream == "on":
        t0, t1 = t[i0], t[i1]
    elif stream == "between":
        e0, e1 = rng.uniform(-0.45, 0.45, 2) * dt
        t0 = t[i0] + (abs(e0) if i0 == 0 else e0)
        t1 = t[i1] + (-abs(e1) if i1 == n - 1 else e1)
    elif stream == "midpoint":
        t0 = t[i0] + dt / 2
        t1 = t[i1] - dt / 2 if i1 - i0 >= 2 else t[i1]
        if rng.random() < 0.5:
            t1 = t[i1] + dt / 2 if i1 < n - 1 else t[i1]
    elif stream == "ends":
        t0, t1 = [(0.0, t[-1]), (0.0, t[i1]), (t[i0], t[-1]), (0.0, np.nextafter(t[-1], 0))][int(rng.integers(0, 4))]
    else:
        t0, t1 = [(-dt * rng.uniform(1e-9, 2), t[i1]), (t[i1], t[i0]), (t[i0], t[i0]), (t[i0], t[-1] + dt * rng.uniform(1e-9, 2)),
                  (t[i0], np.nextafter(t[-1], np.inf)), (-5e-324, t[i1]), (-0.0, t[i1])][int(rng.integers(0, 7))]
    return dict(kind="trim", stream=stream, n=n, dt=dt, t0=float(t0), t1=float(t1), dyadic=bool(dyadic), three=bool(i % 4 == 0))


def impl_trim(case):
    from hvsrpy.timeseries import TimeSeries
    from hvsrpy.seismic_recording_3c import SeismicRecording3C
    n, dt = case["n"], case["dt"]
    ramp = np.arange(n, dtype=float)
    ts = TimeSeries(ramp, dt)
    out = {}
    try:
        ts.trim(case["t0"], case["t1"])
        a = ts.amplitude
        out["ts"] = [int(a[0]), int(a[-1])] if len(a) else "empty"
        out["contig"] = bool(len(a) and np.array_equal(a, np.arange(a[0], a[-1] + 1)))
    except IndexError:
        out["ts"] = "err index"
    except Exception as e:
        out["ts"] = "err " + type(e).__name__
    if case.get("three"):
        rec = SeismicRecording3C(TimeSeries(ramp, dt), TimeSeries(ramp + n, dt), TimeSeries(-ramp, dt))
        try:
            rec.trim(case["t0"], case["t1"])
            a, b, c = rec.ns.amplitude, rec.ew.amplitude - n, -rec.vt.amplitude
            out["3c"] = [int(a[0]), int(a[-1])] if np.array_equal(a, b) and np.array_equal(a, c) else "components differ"
        except IndexError:
            out["3c"] = "err index"
            if not (rec.ns.n_samples == rec.ew.n_samples == rec.vt.n_samples == n):
                out["3c"] = "partial trim"
    return out


def trim_spec(case):
    """property text in exact rational arithmetic on the doubles: (s, e, margin) or 'err index'"""
    n = case["n"]
    dt, t0, t1 = Fraction(case["dt"]), Fraction(case["t0"]), Fraction(case["t1"])
    tm = [Fraction(float(i) * case["dt"]) for i in range(n)]   # the code's own sample times (np.arange(n)*dt)
    if t0 < 0 or t0 >= t1 or t1 > tm[-1]:
        return "err index"
    res = []
    mg = None
    for t in (t0, t1):
        d = [abs(x - t) for x in tm]
        i = min(range(n), key=lambda j: (d[j], j))
        others = [d[j] - d[i] for j in range(n) if j != i]
        m = float(min(others)) if others else 1.0
        mg = m if mg is None else min(mg, m)
        res.append(i)
    return res[0], res[1], mg


def check_trim(ctx, case, im, mo_line):
    t = Toks(mo_line)
    st = t.tok()
    mo = [t.nat(), t.nat()] if st == "ok" else "err " + t.tok()
    rp = dict(case=case, impl_output=im, model_output=mo)
    sp = trim_spec(case)
    if im["ts"] != mo:
        # float evaluation of |i*dt - t| may order two almost equidistant samples differently only at a near tie
        if not isinstance(sp, str) and 0 < sp[2] < MARGIN * case["dt"] and not case["dyadic"]:
            ctx.near_tie_skipped += 1
            return
        ctx.violation("trim-refuses-illogical-ranges" if (isinstance(mo, str) or isinstance(im["ts"], str)) else "trim-keeps-nearest-samples",
                      rp, seam="TimeSeries.trim vs Model.Split.trimIdx")
        return
    ctx.traces += 1
    ctx.supporting["trim_exact_rational_spec_cases"] = ctx.supporting.get("trim_exact_rational_spec_cases", 0) + 1
    spv = sp if isinstance(sp, str) else [sp[0], sp[1]]
    if im["ts"] != spv:
        if not isinstance(sp, str) and 0 < sp[2] < MARGIN * case["dt"]:
            ctx.near_tie_skipped += 1
        else:
            ctx.violation("trim-refuses-illogical-ranges" if (isinstance(spv, str) or isinstance(im["ts"], str)) else "trim-keeps-nearest-samples",
                          dict(rp, exact_spec=spv), seam="TimeSeries.trim vs exact rational nearest-sample spec")
            return
    if not isinstance(im["ts"], str) and not im["contig"]:
        ctx.violation("trim-keeps-nearest-samples", dict(rp, why="kept samples are not the contiguous run s..e"), seam="TimeSeries.trim")
    if "3c" in im and im["3c"] != im["ts"]:
        ctx.violation("trim-keeps-nearest-samples", dict(rp, why="components trimmed differently"), seam="SeismicRecording3C.trim")


# ----------------------------------------------------------------------------------------------
def witness_deg360(work):
    """degrees_from_north = -1e-20 is normalised to 360.0 (float rounding of d - 360*floor(d/360)); a save/load then gives 0.0"""
    from hvsrpy.timeseries import TimeSeries
    from hvsrpy.seismic_recording_3c import SeismicRecording3C
    ts = TimeSeries(np.arange(8.0), 0.5)
    rec = SeismicRecording3C(ts, ts, ts)
    rec.orient_sensor_to(-1e-20)
    fn = os.path.join(work, "w360.json")
    rec.save(fn)
    new = SeismicRecording3C.load(fn)
    os.remove(fn)
    return rec.degrees_from_north, new.degrees_from_north, bool(new == rec)


def witness_assumptions(work):
    """the two inputs excluded by the model's assumptions, observed on the implementation (recorded in the evidence, not violations)"""
    from hvsrpy.timeseries import TimeSeries
    from hvsrpy.seismic_recording_3c import SeismicRecording3C
    fn = os.path.join(work, "wa.json")
    r = SeismicRecording3C(TimeSeries([1, 2, 3], 0.01), TimeSeries([1, 2, 3], 0.010000001), TimeSeries([1, 2, 3], 0.01))
    r.save(fn)
    l = SeismicRecording3C.load(fn)
    x = np.array([np.nan, -np.nan, np.inf, -np.inf, 1.0])
    r2 = SeismicRecording3C(TimeSeries(x, 0.5), TimeSeries(x, 0.5), TimeSeries(x, 0.5))
    r2.save(fn)
    l2 = SeismicRecording3C.load(fn)
    os.remove(fn)
    return dict(component_dt=dict(ew_dt_before=r.ew.dt_in_seconds, ew_dt_after_load=l.ew.dt_in_seconds),
                non_finite=dict(inf_bit_exact=bits(r2.ns.amplitude[2:4]) == bits(l2.ns.amplitude[2:4]),
                                nan_sign_bit_kept=bits(r2.ns.amplitude[:2]) == bits(l2.ns.amplitude[:2])))


def run(ctx):
    ctx.rule = ("(a) histories of 1-8 operations (trim incl. refusals, detrend, Tukey window, Butterworth filter, orient_sensor_to with angles in [-720,1080], "
                "split and continue on a window, copy constructor, save/load, direct sample assignment) on recordings with 8-160 samples, dyadic and "
                "non-dyadic time steps, user meta incl. nesting/unicode/overrides of the default keys, special doubles (-0.0, subnormals, max) in the "
                "exact streams; (b) aliasing probes after mutating pre-histories; (c) trim intervals on samples / between samples / exact midpoints on "
                "dyadic dt / record ends / refusals. Non-trivial = at least one mutating operation between snapshot and observation "
                "(history mutated before save; in-place write for aliasing; trim that removes samples or is refused); distinct by input hash")
    ctx.trusted += ["json.dump/json.load round-trip Python floats exactly (repr round trip) and preserve dict order",
                    "numpy: np.array(x) copies, basic slicing returns a view (the location model's two primitives; both are probed with np.shares_memory)",
                    "scipy Butterworth filter and Tukey window are opaque sample transformers in the state machine (arbitrary f in the theorems)"]
    ctx.assumptions += ["the three components of a recording carry one time step (the constructor accepts |dt_i - dt_ns| <= 1e-8 and _to_dict stores ns's)",
                        "meta values are JSON-representable with string keys; tuples and lists are the same content",
                        "samples are finite or +-inf (the sign bit of a NaN does not survive JSON's 'NaN' token)"]
    ensure_driver()
    rng = np.random.default_rng(ctx.seed)
    work = os.path.join(WORK, "c18")
    os.makedirs(work, exist_ok=True)
    try:
        _run(ctx, rng, work)
    finally:
        shutil.rmtree(work, ignore_errors=True)
        try:
            os.rmdir(WORK)
        except OSError:
            pass


def gen_alias_case(rng, i):
    n = int(rng.integers(8, 200))
    ops = [str(x) for x in rng.choice(["trim", "detrend", "window", "orient", "filter"], size=int(rng.integers(0, 4)))]
    s = int(rng.integers(0, max(1, n // 2)))
    return dict(kind="alias", n=n, k=int(rng.integers(1, max(2, n // 2))), dt=float(rng.choice(DYADIC_DT + OTHER_DT)),
                deg=float(rng.uniform(-720, 1080)), pre_ops=ops, s=s, e=int(rng.integers(s + 1, n)), sseed=int(rng.integers(0, 2 ** 31)))


def _run(ctx, rng, work):
    cases = [dict(c["case"], corpus=True) for c in load_corpus("C18")]
    ctx.count("corpus_cases", len(cases))
    cases += [gen_hist_case(rng, i) for i in range(ctx.budget(600, 8000))]
    cases += [gen_alias_case(rng, i) for i in range(ctx.budget(150, 2000))]
    cases += [gen_trim_case(rng, i) for i in range(ctx.budget(1200, 15000))]
    lines, extra = [], []
    for c in cases:
        if c["kind"] == "hist":
            line, per_op, rec, problems, mutated = exec_hist(c, work)
            lines.append(line)
            extra.append((per_op, rec, problems, mutated))
        elif c["kind"] == "alias":
            try:
                res = alias_probe(ctx, rng, c)
            except Exception as e:
                ctx.violation("copies-share-no-sample-storage", dict(case=c, why="probe raised " + type(e).__name__ + ": " + str(e)[:200]),
                              seam="aliasing probe")
                res = None
            if res is None:
                lines.append("alias 8 1 0 1")
                extra.append(None)
                continue
            # the model is asked about the recording as it is after the pre-history
            lines.append(f"alias {res['n']} {res['k']} {min(c['s'], res['n'] - 2) if res['n'] >= 4 else 0} {min(c['e'], res['n'] - 1) if res['n'] >= 4 else 1}")
            extra.append(res)
        else:
            lines.append(f"trim {c['n']} {hexf(c['dt'])} {hexf(c['t0'])} {hexf(c['t1'])}")
            extra.append(impl_trim(c))
    outs = run_driver(lines, exe=EXE)
    for c, ex, ln in zip(cases, extra, outs):
        if c["kind"] == "hist":
            per_op, rec, problems, mutated = ex
            ctx.case(("hist", c["n"], c["dt"], c["deg"], str(c["meta"]), str(c["ops"]), c["sseed"]), mutated,
                     sample=dict(n=c["n"], dt=c["dt"], deg=c["deg"], ops=[o[0] for o in c["ops"]], per_op=per_op))
            ctx.count("hist:" + c["stream"])
            for o, st in zip(c["ops"], per_op):
                ctx.count("op:" + o[0] + ("" if st[0] == "-" else ":refused"))
            check_hist(ctx, c, ln, per_op, rec, problems, mutated, parse_hist(ln), work)
        elif c["kind"] == "alias" and ex is None:
            ctx.case(("alias", c["n"], c["k"], c["dt"], c["deg"], c["pre_ops"], c["sseed"]), True)
        elif c["kind"] == "alias":
            ctx.case(("alias", c["n"], c["k"], c["dt"], c["deg"], c["pre_ops"], c["sseed"]), True,
                     sample=dict(case=c, flags=ex["flags"], trim_view=ex["trim_view"]))
            ctx.count("alias:pre_ops=%d" % len(c["pre_ops"]))
            check_alias(ctx, c, ex, ln)
        else:
            removed = isinstance(ex["ts"], str) or ex["ts"] != [0, c["n"] - 1]
            ctx.case(("trim", c["n"], c["dt"], c["t0"], c["t1"]), removed, sample=dict(case=c, impl=ex, model=ln))
            ctx.count("trim:" + c["stream"])
            ctx.count("trim:outcome=" + ("refused" if isinstance(ex["ts"], str) else "ok"))
            check_trim(ctx, c, ex, ln)
    # float edge of the normalisation (see the report): recorded, compared modulo 360
    d0, d1, eq = witness_deg360(work)
    ctx.supporting["witness_deg_-1e-20"] = dict(before=d0, after_load=d1, eq=eq)
    if not (d0 == d1 or (d0 == 360.0 and d1 == 0.0)):
        ctx.violation("save-load-restores-everything", dict(case=dict(kind="witness_deg360"), before=d0, after=d1), seam="SeismicRecording3C.save/load")
    ctx.supporting["witness_outside_model_assumptions"] = witness_assumptions(work)
    if d0 != d1:
        ctx.notes.append("orient_sensor_to(-1e-20) stores degrees_from_north = 360.0 (float rounding of d - 360*floor(d/360)); after save/load it is 0.0 "
                         "(same orientation modulo 360, but outside [0,360) and loaded != original under __eq__)")


def replay(case):
    work = os.path.join(WORK, "c18r")
    os.makedirs(work, exist_ok=True)
    try:
        if case["kind"] == "hist":
            line, per_op, rec, problems, mutated = exec_hist(case, work)
            mo = parse_hist(run_driver([line], exe=EXE)[0])
            return dict(impl_per_op=per_op, model=dict(per=mo.get("per"), err=mo.get("err")), problems=problems,
                        impl_deg=rec.degrees_from_north, model_deg=mo.get("deg"), impl_meta=str(rec.meta))
        if case["kind"] == "alias":
            res = alias_probe(None, None, case)
            return dict(impl=res)
        if case["kind"] == "trim":
            im = impl_trim(case)
            mo = run_driver([f"trim {case['n']} {hexf(case['dt'])} {hexf(case['t0'])} {hexf(case['t1'])}"], exe=EXE)[0]
            return dict(impl=im, model=mo, spec=str(trim_spec(case)))
        if case["kind"] == "witness_deg360":
            return dict(result=witness_deg360(work))
    finally:
        shutil.rmtree(work, ignore_errors=True)
    return None
