"""Generators and mirrors for the HVSR-object state machine (M-HV): shared by C05 C06 C08 C11 C12 C13 C20."""
import math
import numpy as np

from common import *

DISTS = ["normal", "lognormal"]


# ----------------------------------------------------------------------------
# curves
def gen_freq(rng, n=None):
    n = n or int(rng.integers(8, 40))
    if rng.random() < 0.6:
        return np.geomspace(rng.uniform(0.1, 0.5), rng.uniform(10, 50), n)
    return np.linspace(rng.uniform(0.1, 0.5), rng.uniform(5, 25), n)


def gen_curve(rng, freq, style=None, f0=None):
    """one non-negative curve on `freq`"""
    n = len(freq)
    style = style or rng.choice(["bump", "bump", "bump", "noisy", "multi", "monotone", "flat", "integer", "plateau"])
    if style == "flat":
        return np.full(n, float(rng.uniform(0.5, 3)))
    if style == "monotone":
        c = np.sort(rng.uniform(0.5, 5, n))
        return c if rng.random() < 0.5 else c[::-1].copy()
    if style == "integer":
        return rng.integers(1, 5, n).astype(float)
    if style == "plateau":
        c = rng.integers(1, 4, n).astype(float)
        i = int(rng.integers(1, max(2, n - 3)))
        w = int(rng.integers(2, 5))
        c[i:i + w] = 6.0
        return c
    f0 = f0 if f0 is not None else float(np.exp(rng.uniform(np.log(freq[1]), np.log(freq[-2]))))
    a0 = rng.uniform(2, 8)
    base = rng.uniform(0.6, 1.4)
    c = base + (a0 - base) * np.exp(-0.5 * (np.log(freq / f0) / rng.uniform(0.1, 0.5)) ** 2)
    if style == "multi":
        for _ in range(int(rng.integers(1, 3))):
            f1 = float(np.exp(rng.uniform(np.log(freq[0]), np.log(freq[-1]))))
            c = c + rng.uniform(0.3, 1.0) * a0 * np.exp(-0.5 * (np.log(freq / f1) / rng.uniform(0.05, 0.3)) ** 2)
    if style in ("noisy", "multi"):
        c = c * np.exp(rng.normal(0, 0.08, n))
    return np.maximum(c, 0.01)


ZERO_SAMPLES = False      # switched on by the harnesses whose comparison treats NaN / +-inf / undefined alike (C05, C11)


def gen_curve_set(rng, freq, nrows, outliers=True):
    """a window set around a common resonance with planted outliers and odd curves"""
    spread = float(rng.choice([0.12, 0.25, 0.4]))
    f0 = float(np.exp(rng.uniform(np.log(freq[2]), np.log(freq[-3]))))
    rows = []
    for _ in range(nrows):
        u = rng.random()
        if outliers and u < 0.2:
            rows.append(gen_curve(rng, freq, "bump", f0=float(np.exp(rng.uniform(np.log(freq[1]), np.log(freq[-2]))))))
        elif u < 0.3:
            rows.append(gen_curve(rng, freq))
        else:
            rows.append(gen_curve(rng, freq, "bump" if rng.random() < 0.7 else "noisy", f0=f0 * float(np.exp(rng.normal(0, spread)))))
    rows = np.array(rows)
    if ZERO_SAMPLES and rng.random() < 0.08:
        # a dead sample: amplitudes >= 0 are legal, an exact 0 has log = -inf (a value, not a missing sample)
        rows[int(rng.integers(0, nrows)), int(rng.integers(0, len(freq)))] = 0.0
    return rows


def gen_range(rng, freq):
    k = rng.random()
    f = freq
    pick = lambda: float(rng.choice([rng.uniform(f[0] * 0.5, f[-1] * 1.3), f[int(rng.integers(0, len(f)))]]))
    if rng.random() < 0.07:
        # a limit of exactly zero (int or float) is a limit, not "no limit": 0 and 0.0 are falsy in Python, None is the only open end
        z = 0 if rng.random() < 0.5 else 0.0
        return [(None, z), (z, None), (z, z), (pick(), z), (z, pick())][int(rng.integers(0, 5))]
    if k < 0.25:
        return (None, None)
    if k < 0.4:
        return (pick(), None)
    if k < 0.55:
        return (None, pick())
    a, b = sorted([pick(), pick()])
    if k < 0.9:
        return (a, b)
    if k < 0.95:
        return (b, a)            # inverted-empty
    return (f[-1] * 2, f[-1] * 3)  # out of grid


# ----------------------------------------------------------------------------
# implementation side
def nan2none(x):
    x = float(x)
    return None if (x != x or math.isinf(x)) else x


def impl_state_trad(h):
    fr = getattr(h, "_main_peak_frq", None)
    am = getattr(h, "_main_peak_amp", None)
    rng_ = getattr(h, "_search_range_in_hz", None)
    return dict(range=None if rng_ is None else [None if v is None else float(v) for v in rng_],
                pf=None if fr is None else [nan2none(v) for v in fr],
                pa=None if am is None else [nan2none(v) for v in am],
                vwin=[bool(b) for b in h.valid_window_boolean_mask],
                vpeak=[bool(b) for b in h.valid_peak_boolean_mask])


def impl_state(obj):
    import hvsrpy
    if isinstance(obj, hvsrpy.HvsrAzimuthal):
        return dict(kind="A", hvsrs=[impl_state_trad(h) for h in obj.hvsrs])
    return dict(kind="T", **impl_state_trad(obj))


def parse_trad(t):
    assert t.tok() == "T"
    x = t.tok()
    if x == "unset":
        rng_ = None
    else:
        rng_ = [None if x == "none" else unhex(x), t.oflt()]
    return dict(range=rng_, pf=t.ovec(), pa=t.ovec(), vwin=t.bvec(), vpeak=t.bvec())


def parse_obj(t):
    if t.t[t.i] == "A":
        t.tok()
        n = t.nat()
        return dict(kind="A", hvsrs=[parse_trad(t) for _ in range(n)])
    return dict(kind="T", **parse_trad(t))


def cmp_trad_state(a, b):
    """a = impl, b = model; returns list of differing fields (exact comparison: no float arithmetic is involved)"""
    bad = []
    if a["range"] is not None and a["range"] != b["range"]:
        bad.append("range")
    for k in ("pf", "pa"):
        if a[k] is not None and a[k] != b[k]:
            bad.append(k)
    for k in ("vwin", "vpeak"):
        if a[k] != b[k]:
            bad.append(k)
    return bad


def cmp_state(a, b):
    if a["kind"] != b["kind"]:
        return ["kind"]
    if a["kind"] == "A":
        if len(a["hvsrs"]) != len(b["hvsrs"]):
            return ["n_azimuths"]
        bad = []
        for i, (x, y) in enumerate(zip(a["hvsrs"], b["hvsrs"])):
            bad += [f"az{i}.{f}" for f in cmp_trad_state(x, y)]
        return bad
    return cmp_trad_state(a, b)


STAT_ERRS = (ValueError, ZeroDivisionError, IndexError, FloatingPointError, TypeError, KeyError, AttributeError)


def _call(fn):
    try:
        with np.errstate(all="ignore"):
            return fn()
    except STAT_ERRS as e:
        return "err"
    except NotImplementedError:      # "distribution type ... not recognized": a refusal
        return "err"


def impl_stats(obj, d):
    def sc(fn):
        r = _call(fn)
        return r if isinstance(r, str) else nan2none(r)

    def cv(fn):
        r = _call(fn)
        return r if isinstance(r, str) else [nan2none(v) for v in np.asarray(r).ravel()]

    def pk(fn):
        r = _call(fn)
        return r if isinstance(r, str) else [float(r[0]), float(r[1])]

    def cov(fn):
        r = _call(fn)
        if isinstance(r, str):
            return r
        r = np.asarray(r, dtype=float)
        if r.shape != (2, 2) or not np.all(np.isfinite(r)):
            return None
        return [float(r[0, 0]), float(r[0, 1]), float(r[1, 1])]
    return {
        "mf": sc(lambda: obj.mean_fn_frequency(d)), "sf": sc(lambda: obj.std_fn_frequency(d)),
        "ma": sc(lambda: obj.mean_fn_amplitude(d)), "sa": sc(lambda: obj.std_fn_amplitude(d)),
        "mc": cv(lambda: obj.mean_curve(d)), "sc": cv(lambda: obj.std_curve(d)),
        "mcp": pk(lambda: obj.mean_curve_peak(d)),
        "nf+": sc(lambda: obj.nth_std_fn_frequency(1.0, d)), "nf-": sc(lambda: obj.nth_std_fn_frequency(-1.0, d)),
        "na+": sc(lambda: obj.nth_std_fn_amplitude(1.0, d)), "na-": sc(lambda: obj.nth_std_fn_amplitude(-1.0, d)),
        "cov": cov(lambda: obj.cov_fn(d)),
    }


def parse_stats(line):
    t = Toks(line)
    if t.tok() != "ok":
        return None
    out = {}
    while not t.done():
        k = t.tok()
        if k in ("mf", "sf", "ma", "sa", "nf+", "nf-", "na+", "na-"):
            x = t.tok()
            out[k] = "err" if x.startswith("err") else (None if x == "none" else unhex(x))
        elif k in ("mc", "sc"):
            x = t.tok()
            out[k] = "err" if x.startswith("err") else t.ovec()
        elif k == "mcp":
            x = t.tok()
            out[k] = "err" if x.startswith("err") else [t.flt(), t.flt()]
        elif k == "cov":
            x = t.tok()
            out[k] = "err" if x.startswith("err") else (None if x == "none" else [t.flt(), t.flt(), t.flt()])
    return out


def _finite_or_none(v):
    """numpy reports an undefined statistic as NaN or +-inf, the model's Float arithmetic may produce either as well (log 0 = -inf,
    inf - inf = NaN): all of them mean "undefined" """
    if isinstance(v, float):
        return v if math.isfinite(v) else None
    if isinstance(v, list):
        return [_finite_or_none(x) for x in v]
    return v


def cmp_stats(im, mo, scale=1.0, rtol=1e-8):
    """returns (list of differing keys, near_tie_keys)"""
    bad, near = [], []
    im = {k: _finite_or_none(v) for k, v in im.items()}
    mo = {k: _finite_or_none(v) for k, v in mo.items()}
    for k in im:
        a, b = im[k], mo.get(k)
        # +-n sigma values are undefined when the standard deviation is (numpy: NaN or inf from 0/0 resp. eps/0)
        if k in ("nf+", "nf-") and im.get("sf") in (None, "err") and mo.get("sf") in (None, "err"):
            continue
        if k in ("na+", "na-") and im.get("sa") in (None, "err") and mo.get("sa") in (None, "err"):
            continue
        if a == "err" or b == "err":
            # an undefined statistic may surface as an exception on one side and NaN on the other only
            # for values numpy computes as NaN; exceptions must agree for curve/peak accessors
            if a != b:
                if k in ("sc", "mcp", "mc"):
                    bad.append(k)
                elif not (a in ("err", None) and b in ("err", None)):
                    bad.append(k)
            continue
        if a is None or b is None:
            if a != b:
                # model `none` (0/0) vs numpy value: an undefined statistic; tolerate only inf/NaN (mapped to None)
                bad.append(k)
            continue
        if k in ("mc", "sc"):
            if len(a) != len(b) or any((x is None) != (y is None) for x, y in zip(a, b)):
                bad.append(k)
            elif not all(x is None or close(x, y, scale, rtol) for x, y in zip(a, b)):
                bad.append(k)
        elif k == "mcp":
            if not (close(a[0], b[0], scale, rtol) and close(a[1], b[1], scale, rtol)):
                # a different argmax among (nearly) equal maxima of a *computed* curve is a rounding tie
                if close(a[1], b[1], scale, 1e-7):
                    near.append(k)
                else:
                    bad.append(k)
        elif k == "cov":
            if not vclose(a, b, scale, 1e-7):
                bad.append(k)
        else:
            if not close(a, b, scale, rtol):
                bad.append(k)
    return bad, near


# ----------------------------------------------------------------------------
# objects and histories mirrored op by op
def make_records_for_mask(mask, dt=0.01, n=64):
    """records for maximum_value_window_rejection: window i is kept iff mask[i]"""
    import hvsrpy
    recs = []
    for keep in mask:
        amp = np.sin(np.arange(n) * 0.3) * (0.1 if keep else 1.0)
        ts = hvsrpy.TimeSeries(amp, dt)
        recs.append(hvsrpy.SeismicRecording3C(ts, ts, ts))
    return recs


class _Capture(__import__("logging").Handler):
    def __init__(self):
        super().__init__(level=10)
        self.msgs = []

    def emit(self, record):
        self.msgs.append(record.getMessage())


def parse_debug(msgs):
    """per-iteration dict of the values the implementation logs at DEBUG level"""
    import re
    its = []
    for m in msgs:
        m = m.strip()
        if m.startswith("c_iteration:"):
            its.append({})
        else:
            g = re.match(r"(\w+): (\S+)$", m)
            if g and its:
                try:
                    its[-1][g.group(1)] = float(g.group(2))
                except ValueError:
                    pass
    return its


def fdwra_near_tie(dbg, n, dfn, peak_sets, scale, exact_zero=False, exact_tie=False):
    return fdwra_near_tie_index(dbg, n, dfn, peak_sets, scale, exact_zero, exact_tie) is not None


def fdwra_near_tie_index(dbg, n, dfn, peak_sets, scale, exact_zero=False, exact_tie=False):
    """index of the first iteration in which some decision (zero guards, convergence limits, accept bounds) is within
    rounding distance of its threshold: in exact arithmetic it is decided one way, in floating point either way"""
    eps = 1e-9
    dfn = {"log-normal": "lognormal"}.get(dfn, dfn)
    for j, it in enumerate(dbg):
        # exact_zero: the data are small integers under the normal distribution, so means, the mean-curve peak frequency and a zero standard
        # deviation are computed exactly by numpy and by the model alike -- the zero guards are then exact events, not rounding ties
        for k in ("std_fn_before", "std_fn_after"):
            if not exact_zero and k in it and abs(it[k]) < eps:
                return j
        if not exact_zero and "diff_before" in it and abs(it["diff_before"]) < eps * scale:
            return j
        for k in ("d_diff", "s_diff"):
            # exact_tie: peaks on a dyadic grid under the normal distribution -- mean fn, the mean-curve peak and hence d_diff are computed without rounding
            # (one correctly rounded division at the end), so d_diff == 0.01 is an exact event decided by the published rule ("below 0.01"), not a rounding tie
            if k in it and abs(it[k] - 0.01) < 1e-7 and not (exact_tie and k == "d_diff"):
                return j
        if "mean_fn_before" in it and "std_fn_before" in it:
            m, sd = it["mean_fn_before"], it["std_fn_before"]
            if m == m and sd == sd:
                if dfn == "normal":
                    lo, hi = m - n * sd, m + n * sd
                else:
                    lo, hi = math.exp(math.log(m) - n * sd), math.exp(math.log(m) + n * sd)
                for peaks in peak_sets:
                    for f in peaks:
                        if f == f and (abs(f - lo) <= 1e-9 * scale or abs(f - hi) <= 1e-9 * scale):
                            return j
    return None


def fdwra_with_trace(obj, n, maxit, dfn, dmc, rng_, exact_zero=False, kw_empty=False, exact_tie=False):
    import hvsrpy
    import logging
    lg = logging.getLogger("hvsrpy.window_rejection")
    cap = _Capture()
    old = lg.level
    lg.addHandler(cap)
    lg.setLevel(logging.DEBUG)
    try:
        with np.errstate(all="ignore"):
            ret = hvsrpy.frequency_domain_window_rejection(obj, n=n, max_iterations=maxit, distribution_fn=dfn,
                                                           distribution_mc=dmc, search_range_in_hz=tuple(rng_),
                                                           **(dict(find_peaks_kwargs={}) if kw_empty else {}))
    except STAT_ERRS:
        ret = "err"
    finally:
        lg.removeHandler(cap)
        lg.setLevel(old)
    dbg = parse_debug(cap.msgs)
    hs = obj.hvsrs if isinstance(obj, hvsrpy.HvsrAzimuthal) else [obj]
    peak_sets = [list(getattr(h, "_main_peak_frq", [])) for h in hs]
    near = fdwra_near_tie(dbg, n, dfn, peak_sets, float(np.max(obj.frequency)), exact_zero, exact_tie)
    fdwra_with_trace.last_index = fdwra_near_tie_index(dbg, n, dfn, peak_sets, float(np.max(obj.frequency)), exact_zero, exact_tie)
    return ret, dbg, near


def as_user_containers(oid, freq, rows):
    """the same numbers in the containers users hand over: nested lists (oid % 5 == 1), integer arrays when every value is
    integral (oid % 5 == 3), single-precision arrays when every value is exactly representable (oid % 5 == 4)"""
    k = oid % 5
    if k == 1:
        return freq.tolist(), rows.tolist()
    if k == 3 and np.all(rows == np.round(rows)) and np.all(np.abs(rows) < 2 ** 30):
        return freq, rows.astype(np.int64)
    if k == 4 and np.array_equal(rows.astype(np.float32).astype(float), rows) and np.array_equal(freq.astype(np.float32).astype(float), freq):
        return freq.astype(np.float32), rows.astype(np.float32)
    if k in (0, 2):
        # float64 work buffers the caller goes on using: scribbled on by `reuse_buffers` right after the object is built
        fb, rb = freq.copy(), rows.copy()
        _BUFFERS.append((fb, rb))
        return fb, rb
    return freq, rows


_BUFFERS = []


def reuse_buffers():
    """the caller re-uses its arrays for the next site: an object must have kept its own copy of what it was given"""
    while _BUFFERS:
        fb, rb = _BUFFERS.pop()
        fb[:] = fb[::-1].copy() * 3.0 + 1.0
        rb[:] = 7.0 + rb[..., ::-1].copy() * 0.0


class Mirror:
    """a real hvsrpy object together with the request lines that rebuild it in the driver"""

    def __init__(self, oid):
        self.oid = oid
        self.lines = []
        self.obj = None
        self.kind = None

    @staticmethod
    def trad(oid, freq, rows):
        import hvsrpy
        m = Mirror(oid)
        m.kind = "T"
        m.freq, m.rows = np.array(freq, dtype=float), np.array(rows, dtype=float)
        m.obj = hvsrpy.HvsrTraditional(*as_user_containers(oid, m.freq, m.rows))
        reuse_buffers()
        m.lines.append(f"hv.new {oid} {fvec(m.freq)} {fmat(m.rows)}")
        return m

    @staticmethod
    def az(oid, freq, rows_per_az, azimuths):
        import hvsrpy
        m = Mirror(oid)
        m.kind = "A"
        m.freq = np.array(freq, dtype=float)
        m.rows_per_az = [np.array(r, dtype=float) for r in rows_per_az]
        m.azimuths = [float(a) for a in azimuths]
        hs = [hvsrpy.HvsrTraditional(*as_user_containers(oid + k, m.freq, r)) for k, r in enumerate(m.rows_per_az)]
        m.obj = hvsrpy.HvsrAzimuthal(hs, m.azimuths)
        reuse_buffers()
        ids = []
        for k, r in enumerate(m.rows_per_az):
            sub = oid * 1000 + k + 1
            m.lines.append(f"hv.new {sub} {fvec(m.freq)} {fmat(r)}")
            ids.append(sub)
        m.lines.append(f"hv.az {oid} {fvec(m.azimuths)} {fnvec(ids)}")
        return m

    def nwin(self):
        return len(self.rows) if self.kind == "T" else len(self.rows_per_az[0])

    # each op: apply to the implementation, append the model line; returns the impl's return value
    def update(self, rng_, kw_empty=False):
        self.obj.update_peaks_bounded(search_range_in_hz=tuple(rng_), find_peaks_kwargs={} if kw_empty else None)
        self.lines.append(f"hv.update {self.oid} {fopt(rng_[0])} {fopt(rng_[1])} {1 if kw_empty else 0}")

    def tmask(self, mask):
        import hvsrpy
        recs = make_records_for_mask(mask)
        hvsrpy.maximum_value_window_rejection(recs, maximum_value_threshold=0.5, normalized=False, hvsr=self.obj)
        self.lines.append(f"hv.tmask {self.oid} {fbvec(mask)}")

    def manual(self, idxs, az=0):
        h = self.obj if self.kind == "T" else self.obj.hvsrs[az]
        for i in idxs:   # what the GUI loop of manual_window_rejection does for a selected window
            h.valid_window_boolean_mask[i] = False
            h.valid_peak_boolean_mask[i] = False
        self.lines.append(f"hv.manual {self.oid} {az} {fnvec(idxs)}")

    def setmasks(self, vw, vp, az=0):
        h = self.obj if self.kind == "T" else self.obj.hvsrs[az]
        h.valid_window_boolean_mask = np.array(vw, dtype=bool)      # the two masks are public attributes: any combination is a legal state
        h.valid_peak_boolean_mask = np.array(vp, dtype=bool)
        self.lines.append(f"hv.setmasks {self.oid} {az} {fbvec(vw)} {fbvec(vp)}")

    def fdwra(self, n, maxit, dfn, dmc, rng_):
        import hvsrpy
        ret, dbg, near = fdwra_with_trace(self.obj, n, maxit, dfn, dmc, rng_, exact_zero=getattr(self, "exact_zero", False), exact_tie=getattr(self, "exact_tie", False))
        self.last_debug = dbg
        self.last_near_tie = near
        self.last_near_index = fdwra_with_trace.last_index
        canon = {"log-normal": "lognormal"}
        self.lines.append(f"hv.fdwra {self.oid} {hexf(n)} {maxit} {canon.get(dfn, dfn)} {canon.get(dmc, dmc)} {fopt(rng_[0])} {fopt(rng_[1])}")
        return ret

    def fdwra_kw(self, n, maxit, dfn, dmc, rng_, kw_empty=True, az=None):
        """frequency_domain_window_rejection with find_peaks_kwargs={} (the entry peak search is skipped when the stored range equals the requested one),
        on the whole object or -- az given -- on ONE azimuth of an azimuthal object (users do analyse single azimuths)"""
        target = self.obj if az is None else self.obj.hvsrs[az]
        ret, dbg, near = fdwra_with_trace(target, n, maxit, dfn, dmc, rng_, exact_zero=getattr(self, "exact_zero", False), kw_empty=kw_empty, exact_tie=getattr(self, "exact_tie", False))
        self.last_debug = dbg
        self.last_near_tie = near
        self.last_near_index = fdwra_with_trace.last_index
        canon = {"log-normal": "lognormal"}
        self.lines.append(f"hv.fdwrakw {self.oid} {hexf(n)} {maxit} {canon.get(dfn, dfn)} {canon.get(dmc, dmc)} {fopt(rng_[0])} {fopt(rng_[1])} "
                          f"{1 if kw_empty else 0} {0 if az is None else az + 1}")
        return ret

    def sub_update(self, az, rng_, kw_empty=False):
        """update_peaks_bounded on one azimuth of an azimuthal object"""
        self.obj.hvsrs[az].update_peaks_bounded(search_range_in_hz=tuple(rng_), find_peaks_kwargs={} if kw_empty else None)
        self.lines.append(f"hv.subupdate {self.oid} {az} {fopt(rng_[0])} {fopt(rng_[1])} {1 if kw_empty else 0}")

    def state_line(self):
        return f"hv.state {self.oid}"

    def stat_line(self, d):
        return f"hv.stat {self.oid} {d}"


def gen_op(rng, m):
    """random op descriptor for mirror m"""
    u = rng.random()
    nw = m.nwin()
    if u < 0.4:
        return ("update", gen_range(rng, m.freq), bool(rng.random() < 0.3))
    if u < 0.6:
        return ("fdwra", float(rng.choice([0.5, 1.0, 1.5, 2.0, 2.5, 3.0])), int(rng.choice([1, 2, 3, 50])),
                str(rng.choice(DISTS)), str(rng.choice(DISTS)), gen_range(rng, m.freq) if rng.random() < 0.5 else (None, None))
    if u < 0.72:
        mask = [bool(b) for b in (rng.random(nw) < 0.75)]
        return ("tmask", mask)
    if u < 0.8:
        vw = [bool(b) for b in (rng.random(nw) < 0.8)]
        vp = [bool(a and b) for a, b in zip(vw, rng.random(nw) < 0.8)] if rng.random() < 0.6 else [bool(b) for b in (rng.random(nw) < 0.7)]
        return ("setmasks", vw, vp, 0 if m.kind == "T" else int(rng.integers(0, len(m.rows_per_az))))
    k = int(rng.integers(1, max(2, nw // 3)))
    idx = sorted(set(int(i) for i in rng.integers(0, nw, k)))
    az = 0 if m.kind == "T" else int(rng.integers(0, len(m.rows_per_az)))
    return ("manual", idx, az)


def apply_op(m, op):
    if op[0] == "update":
        m.update(op[1], op[2]); return None
    if op[0] == "fdwra":
        return m.fdwra(op[1], op[2], op[3], op[4], op[5])
    if op[0] == "tmask":
        m.tmask(op[1]); return None
    if op[0] == "manual":
        m.manual(op[1], op[2]); return None
    if op[0] == "setmasks":
        m.setmasks(op[1], op[2], op[3]); return None
    raise ValueError(op)


def op_json(op):
    return [list(x) if isinstance(x, tuple) else x for x in op]
