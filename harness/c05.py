"""C05 -- statistics over exactly the accepted windows: histories on HvsrTraditional vs Model/Stats+HvState"""
import numpy as np

from common import *
import hvgen
import hvhist

PROP_MODULES = ["HvsrVerif.Props.C05", "HvsrVerif.Props.C05Cov"]
BRIDGE_MODULES = ["HvsrVerif.Bridge.C05", "HvsrVerif.Bridge.PyStats", "HvsrVerif.Bridge.PyVec"]


def nontrivial(h):
    st = h["steps"][-1]["state"]
    acc = sum(st["vpeak"])
    pf = [f for f, v in zip(st["pf"] or [], st["vpeak"]) if v and f is not None]
    return acc >= 2 and acc < len(st["vpeak"]) and len(set(pf)) >= 2


def oracle_probes(ctx, rng, h):
    """implementation-side oracles of the frame property (supporting tests)"""
    import hvsrpy
    m = h["mirror"]
    obj = m.obj
    vw = np.array(obj.valid_window_boolean_mask)
    vp = np.array(obj.valid_peak_boolean_mask)
    if vw.sum() < 2 or vp.sum() < 2 or not np.array_equal(vw, vp):
        return
    ctx.supporting["oracle_rebuilt_objects"] = ctx.supporting.get("oracle_rebuilt_objects", 0) + 1
    # (1) object built from the accepted windows alone, same search range
    rebuilt = hvsrpy.HvsrTraditional(obj.frequency, obj.amplitude[vw])
    rebuilt.update_peaks_bounded(search_range_in_hz=obj._search_range_in_hz)
    # windows without a peak are dropped by the rebuilt object's own masks: only comparable if all accepted have peaks
    if not np.all(rebuilt.valid_peak_boolean_mask):
        return
    # (2) poisoned rejected rows
    pois = hvsrpy.HvsrTraditional(obj.frequency, np.where(vw[:, None], obj.amplitude, obj.amplitude[:, ::-1] * 1e3 + 7))
    pois.update_peaks_bounded(search_range_in_hz=obj._search_range_in_hz)
    pois.valid_window_boolean_mask = vw.copy()
    pois.valid_peak_boolean_mask = vp.copy()
    for d in hvgen.DISTS:
        a = hvgen.impl_stats(obj, d)
        for name, other in (("rebuilt-from-accepted", rebuilt), ("poisoned-rejected-rows", pois)):
            b = hvgen.impl_stats(other, d)
            bad, near = hvgen.cmp_stats(a, b, scale=float(np.max(m.freq)), rtol=1e-10)
            if bad:
                ctx.violation("rejected-windows-never-influence", dict(case=hvhist.history_json(h), oracle=name, distribution=d,
                                                                       differing=bad, original={k: a[k] for k in bad}, other={k: b[k] for k in bad}),
                              seam="HvsrTraditional statistics")


def alias_probe(ctx, h):
    """every key of DISTRIBUTION_MAP selects the estimator of its canonical name"""
    from hvsrpy.constants import DISTRIBUTION_MAP
    obj = h["mirror"].obj
    for alias, canon in DISTRIBUTION_MAP.items():
        if alias == canon:
            continue
        a = hvgen.impl_stats(obj, alias)
        b = hvgen.impl_stats(obj, canon)
        ctx.supporting["alias_cases"] = ctx.supporting.get("alias_cases", 0) + 1
        bad, _ = hvgen.cmp_stats(a, b, rtol=1e-12)
        # other spellings of the registered names (the name is lower-cased before the look-up): each statistic is either refused or the
        # canonical value -- never a different number
        for sp in {alias.upper(), alias.title(), canon.upper(), canon.capitalize()} - set(DISTRIBUTION_MAP):
            v = hvgen.impl_stats(obj, sp)
            both = [k for k in v if v[k] != "err" and b[k] != "err"]
            bad2, _ = hvgen.cmp_stats({k: v[k] for k in both}, {k: b[k] for k in both}, rtol=1e-12)
            ctx.supporting["spelling_cases"] = ctx.supporting.get("spelling_cases", 0) + 1
            if bad2:
                ctx.violation("distribution-alias", dict(case=hvhist.history_json(h), alias=sp, canonical=canon, differing=bad2,
                                                         alias_values={k: v[k] for k in bad2}, canonical_values={k: b[k] for k in bad2}),
                              seam="distribution argument, spelling with capitals")
                break
        if bad:
            ctx.violation("distribution-alias", dict(case=hvhist.history_json(h), alias=alias, canonical=canon, differing=bad,
                                                     alias_values={k: a[k] for k in bad}, canonical_values={k: b[k] for k in bad}),
                          seam="distribution argument")


def reciprocal_probe(ctx, h):
    obj = h["mirror"].obj
    pf = np.asarray(obj.peak_frequencies, dtype=float)
    if len(pf) < 2 or np.any(np.isnan(pf)):
        return
    from hvsrpy.statistics import _nanmean_weighted, _nanstd_weighted
    med_f, sig_f = obj.mean_fn_frequency("lognormal"), obj.std_fn_frequency("lognormal")
    med_t, sig_t = _nanmean_weighted("lognormal", 1 / pf), _nanstd_weighted("lognormal", 1 / pf)
    ctx.supporting["reciprocal_cases"] = ctx.supporting.get("reciprocal_cases", 0) + 1
    lo, hi = obj.nth_std_fn_frequency(-1.5, "lognormal"), obj.nth_std_fn_frequency(1.5, "lognormal")
    if not (close(med_t, 1 / med_f, 1.0, 1e-10) and close(sig_t, sig_f, 1.0, 1e-9 if sig_f > 1e-6 else 1e-3)
            and close(lo * hi, med_f * med_f, 1.0, 1e-10)):
        ctx.violation("frequency-period-consistency", dict(case=hvhist.history_json(h), median_f=med_f, median_T=med_t, sigma_f=sig_f,
                                                          sigma_T=sig_t, minus=lo, plus=hi), seam="lognormal statistics")


def run(ctx):
    ctx.rule = ("histories = random sequences (1-8 ops) of peak-range updates, FDWRA runs, time-domain masks and manual rejections on real "
                "HvsrTraditional objects (3-12 curves, 8-40 frequencies; bumps, noisy, multi-peak, monotone, flat, integer ties, plateaus), mirrored op by op "
                "in the driver; every statistic, both distributions, compared after every op; non-trivial = final state has >=2 accepted, >=1 rejected "
                "window and >=2 distinct peak frequencies; distinct by history hash")
    rng = np.random.default_rng(ctx.seed)
    hvgen.ZERO_SAMPLES = True      # 8 % of the curve sets hold one exact zero amplitude (log 0 = -inf)
    n = ctx.budget(150, 2500)
    hists = [hvhist.build_history(rng, i + 1, "T", int(rng.integers(1, 9))) for i in range(n)]
    hvhist.run_histories(ctx, hists, "statistics-equal-estimators-on-accepted", "accept-state-after-history", nontrivial)
    for i, h in enumerate(hists):
        oracle_probes(ctx, rng, h)
        reciprocal_probe(ctx, h)
        if i % 5 == 0:
            alias_probe(ctx, h)


def replay(case):
    rng = np.random.default_rng(0)
    m = hvgen.Mirror.trad(1, case["freq"], case["rows"]) if case["kind"] == "T" else hvgen.Mirror.az(1, case["freq"], case["rows_per_az"], case["azimuths"])
    for op in case["ops"]:
        hvgen.apply_op(m, tuple(tuple(x) if isinstance(x, list) and len(x) == 2 and not isinstance(x[0], bool) and op[0] in ("update", "fdwra") and (x[0] is None or isinstance(x[0], float)) else x for x in op))
    m.lines.append(m.state_line())
    for d in hvgen.DISTS:
        m.lines.append(m.stat_line(d))
    outs = run_driver(m.lines)
    return dict(impl_state=hvgen.impl_state(m.obj), impl_stats={d: hvgen.impl_stats(m.obj, d) for d in hvgen.DISTS}, model=outs[-3:])
