"""Differential validation of the source translator (tools/py2lean.py).

For every translated target of the given groups, the ORIGINAL Python statements (executed by CPython inside the real hvsrpy module,
tools/pyslice.py) and the generated Lean definition (evaluated at Float by the driver `drv_py`, whose command table is generated too)
are run on the same inputs. The translator is thereby not merely trusted: what it emits is checked, on every run, to compute what the
Python statements compute. Inputs: the numeric literals that occur in the translated source (exact, and one ulp either side), zero,
signs, magnitudes from 1e-6 to 1e6, integers; strings from the alias tables; booleans; None.
"""
import ast
import copy
import importlib
import math
import os
import sys

import numpy as np

from common import *

sys.path.insert(0, os.path.join(VERIF, "tools"))


def _literals(spec, plan):
    vals = set()
    for s in list(plan.get("prologue", [])) + list(plan.get("slice", [])):
        for n in ast.walk(s):
            if isinstance(n, ast.Constant) and isinstance(n.value, (int, float)) and not isinstance(n.value, bool):
                if math.isfinite(float(n.value)):
                    vals.add(float(n.value))
    return sorted(vals)


def _gen_num(rng, lits):
    u = rng.random()
    if lits and u < 0.3:
        x = float(rng.choice(lits))
        k = rng.random()
        if k < 0.4:
            return x
        if k < 0.6:
            return float(np.nextafter(x, np.inf))
        if k < 0.8:
            return float(np.nextafter(x, -np.inf))
        return x * float(rng.choice([0.5, 2.0, 0.95, 1.05, 4.0, 0.25]))
    if u < 0.36:
        return 0.0
    if u < 0.5:
        return float(rng.integers(-5, 400))
    mag = 10.0 ** rng.uniform(-6, 6) if u < 0.7 else 10.0 ** rng.uniform(-1.5, 1.5)
    return float(mag * (1 if rng.random() < 0.75 else -1))


def _gen(rng, t, lits, strings):
    if t == "num":
        return np.float64(_gen_num(rng, lits))
    if t == "int":
        return int(rng.choice([0, 1, 2, int(rng.integers(0, 60)), int(rng.integers(0, 100000))]))
    if t == "bool":
        return bool(rng.random() < 0.5)
    if t == "str":
        return str(rng.choice(strings))
    if t == "onum":
        return None if rng.random() < 0.35 else np.float64(_gen_num(rng, lits))
    if t == "pint":     # a positive integer (e.g. the starting power of nextpow2: zero would never terminate)
        return int(rng.choice([1, 2, 3, 2 ** 15, int(rng.integers(1, 70000))]))
    if t == "fuel":
        return 200
    if t == "dictn":    # settings.fft_settings: None, a dict without the key, {"n": None}, {"n": k}
        u = rng.random()
        k = int(rng.choice([0, 1, 2 ** 15, 2 ** 16, int(rng.integers(0, 200000))]))
        return None if u < 0.25 else ({} if u < 0.4 else ({"n": None} if u < 0.6 else {"n": k}))
    raise ValueError(t)


def _tok(v, t):
    if t == "num":
        return hexf(float(v))
    if t == "int":
        return str(int(v))
    if t == "bool":
        return "1" if v else "0"
    if t == "str":
        return v
    if t == "onum":
        return "none" if v is None else hexf(float(v))
    if t in ("pint", "fuel"):
        return str(int(v))
    if t == "dictn":
        return _dictn(v)
    raise ValueError(t)


def _dictn(v):
    return "None" if v is None else ("nokey" if "n" not in v else ("nnone" if v["n"] is None else str(int(v["n"]))))


def _flatten(x):
    if isinstance(x, (tuple, list)):
        out = []
        for e in x:
            out += _flatten(e)
        return out
    if isinstance(x, np.ndarray):
        return [v for v in x.ravel().tolist()]
    return [x]


def _same(a, b, t, scale=1.0):
    if t == "num":
        a, b = float(a), float(b)
        if math.isnan(a) or math.isnan(b):
            return math.isnan(a) and math.isnan(b)
        if math.isinf(a) or math.isinf(b):
            return a == b
        # relative 1e-9, plus an absolute allowance for results of cancellation (1 - x with x ~ 1): libm differences of an ulp in
        # log/exp/sin between numpy and Lean's Float are then amplified; `scale` is the magnitude of the inputs and literals
        return abs(a - b) <= 1e-9 * max(abs(a), abs(b)) + 1e-12 * scale
    if t == "int":
        return int(a) == int(b)
    if t == "bool":
        return bool(a) == bool(b)
    if t == "dictn":
        return _dictn(a) == b
    if t == "obool":
        return (a is None and b is None) or (a is not None and b is not None and bool(a) == bool(b))
    return a == b


def _decision_boundary(run, inp, py):
    """does the PYTHON outcome change branch (skip/raise/return kind, or a boolean/integer result) when one float input moves by 1e-9 relative?"""
    import warnings

    def shape(r):
        return (r[0],) + tuple(x for x in (_flatten(r[1]) if r[0] not in ("skip", "raise") else []) if isinstance(x, (bool, np.bool_, int, np.integer, str)))
    base = shape(py)
    for k, v in inp.items():
        if not isinstance(v, (float, np.floating)) or not math.isfinite(float(v)) or v == 0:
            continue
        for d in (1e-9, -1e-9):
            with np.errstate(all="ignore"), warnings.catch_warnings():
                warnings.simplefilter("ignore")
                try:
                    r = run(dict(inp, **{k: float(v) * (1 + d)}))
                except Exception:   # noqa
                    continue
            if shape(r) != base:
                return True
    return False


def validate(ctx, groups, rng):
    """fills ctx.supporting['translator_validation'] and reports a disagreement as a violation of the tie (with the input)"""
    import py2lean
    import pyslice
    note = ctx.supporting.setdefault("translator_validation", {})
    if not py2lean.PLANS:
        note["status"] = "unavailable: no plans (translator did not run in this process)"
        return
    rc, log = lake(["build", "drv_py"])
    if rc != 0:
        note["status"] = "unavailable: drv_py does not build"
        return
    n_inputs = ctx.budget(120, 1200)
    for spec in py2lean.TARGETS:
        name = spec["name"]
        if spec["group"] not in groups or name not in py2lean.PLANS:
            continue
        _, tree, plan = py2lean.PLANS[name]
        try:
            module = importlib.import_module(spec["file"][:-3].replace("/", "."))
            run = pyslice.runner(name, module)
        except Exception as e:
            note[name] = f"unavailable: {type(e).__name__}: {e}"
            continue
        lits = _literals(spec, plan) if "lambda" not in spec else []
        tables = {}
        for t_ in spec.get("tables", []):
            tables[t_] = dict(getattr(module, t_))
        strings = sorted({k for tb in tables.values() for k in tb} | {"normal", "lognormal", "log-normal", "Normal", "weibull"})
        if spec.get("str_values"):      # strings that reach every branch of this target (channel names, ...)
            strings = list(spec["str_values"])
        ot = spec.get("out_types", ["num"] * len(spec["out"]))
        pseudo = [int(o[o.index("[") + 1:-1]) for o in spec["out"] if o.endswith("]") and not o.endswith("[]")] if all(
            o.endswith("]") and not o.endswith("[]") for o in spec["out"]) else None
        cases, lines = [], []
        for _ in range(n_inputs):
            inp = {p: _gen(rng, t, lits, strings) for p, t in spec["params"]}
            toks = []
            for t_ in spec.get("tables", []):
                toks += [str(len(tables[t_]))] + [x for kv in sorted(tables[t_].items()) for x in kv]
            toks += [_tok(inp[p], t) for p, t in spec["params"]]
            cases.append(inp)
            lines.append(f"py.{name} " + " ".join(toks))
        outs = run_driver(lines, exe="drv_py")
        agree = raised = near = 0
        for inp, line in zip(cases, outs):
            with np.errstate(all="ignore"):
                import warnings
                with warnings.catch_warnings():
                    warnings.simplefilter("ignore")
                    py = run(copy.deepcopy(inp))      # a slice may store into a dict it was handed
            t = Toks(line)
            kind = t.tok()
            if kind not in ("val", "some", "none"):
                note[name] = "driver: " + line[:80]
                break
            if py[0] in ("skip", "raise"):
                if spec.get("option"):
                    ok = kind == "none"
                else:
                    raised += 1       # a total translation has no counterpart for an exception (e.g. int(nan)): not compared
                    continue
            else:
                vals = _flatten(py[1])
                if py[0] == "return" and pseudo is not None:
                    vals = [vals[k] for k in pseudo]
                if kind == "none" or len(vals) != len(ot):
                    ok = False
                else:
                    lean_vals = []
                    for ty in ot:
                        if ty == "dictn":
                            lean_vals.append(t.tok())
                            continue
                        if ty == "obool":
                            tk = t.tok()
                            lean_vals.append(None if tk == "none" else tk == "1")
                            continue
                        lean_vals.append(t.flt() if ty == "num" else (int(t.tok()) if ty == "int" else (t.tok() == "1" if ty == "bool" else t.tok())))
                    scale = max([1.0] + [abs(float(v)) for v in inp.values() if isinstance(v, (float, np.floating)) and math.isfinite(float(v))]
                                + [abs(x) for x in lits])
                    ok = all(_same(a, b, ty, scale) for a, b, ty in zip(vals, lean_vals, ot))
            if not ok and _decision_boundary(run, inp, py):
                # the Python side itself takes another branch when one input moves by 1e-9 (relative): the input sits on a comparison whose operands are
                # transcendental (10**x vs exp(x ln 10)) -- a rounding tie, counted and not judged (false alarm at seed 25 of the session-4 sweep corrected)
                near += 1
                continue
            if ok:
                agree += 1
            else:
                ctx.violation("translator-validation", dict(case=dict(target=name, inputs={k: (None if v is None else (float(v) if isinstance(v, (float, np.floating)) else v))
                                                                                   for k, v in inp.items()}),
                                                             python=str(py)[:300], lean=line[:300]),
                              seam="tools/py2lean.py " + name)
                note[name] = "DISAGREE"
                break
        else:
            note[name] = f"agree on {agree} inputs" + (f" ({raised} raised in Python, not compared)" if raised else "") + (f" ({near} on a decision boundary, not compared)" if near else "")
        ctx.traces += agree


def replay(case):
    """re-execute one stored translator-validation case: the Python statements and the generated Lean definition"""
    import py2lean
    import pyslice
    regenerate_tables()
    lake(["build", "drv_py"])
    spec = next(s for s in py2lean.TARGETS if s["name"] == case["target"])
    module = importlib.import_module(spec["file"][:-3].replace("/", "."))
    run = pyslice.runner(spec["name"], module)
    inp = {p: (None if case["inputs"][p] is None else (np.float64(case["inputs"][p]) if t in ("num", "onum") else case["inputs"][p])) for p, t in spec["params"]}
    toks = []
    for t_ in spec.get("tables", []):
        tb = dict(getattr(module, t_))
        toks += [str(len(tb))] + [x for kv in sorted(tb.items()) for x in kv]
    toks += [_tok(inp[p], t) for p, t in spec["params"]]
    with np.errstate(all="ignore"):
        py = run(inp)
    return dict(python=str(py), lean=run_driver([f"py.{spec['name']} " + " ".join(toks)], exe="drv_py")[0])


# ------------------------------------------------------------------------------------------------ array functions (tools/py2lean_vec.py)
def _gen_vec(rng, n, positive=True):
    out = []
    for _ in range(n):
        u = rng.random()
        if u < 0.2:
            out.append(float("nan"))
        elif u < 0.3:
            out.append(float(rng.choice([1.0, 2.0, 0.5])))
        else:
            x = float(10.0 ** rng.uniform(-2, 2))
            out.append(x if positive or rng.random() < 0.6 else -x)
    return out


def _vec_case(rng, spec, tables):
    strings = sorted({k for tb in tables.values() for k in tb} | {"Normal", "LOGNORMAL", "Log-Normal", "weibull", ""})
    n = int(rng.choice([0, 1, 2, 3, 5, 8, 13]))
    inp = {}
    if any(t == "m" for _, t in spec["params"]):      # rows x columns with one weight per row (hvsr_spatial._statistics)
        rows, cols = int(rng.choice([1, 1, 2, 3, 5])), int(rng.choice([1, 2, 3, 6]))
        for p, t in spec["params"]:
            if t == "m":
                inp[p] = [[float(x) for x in rng.normal(rng.uniform(-3, 3), rng.uniform(0.1, 2), cols)] for _ in range(rows)]
            elif t == "v":
                u = rng.random()
                w = rng.uniform(0.1, 2, rows)
                if u < 0.1:
                    w[:] = 0.0
                elif u < 0.2 and rows >= 2:
                    w[:] = 0.0; w[0], w[1] = 1.0, -1.0
                elif u < 0.3:
                    w[1:] = 0.0
                inp[p] = [float(x) for x in w]
        return inp
    for p, t in spec["params"]:
        if t == "str" and p == "denominator":
            inp[p] = str(rng.choice(["nist", "cheng", "cheng", "nist", "other"]))
        elif t == "str":
            inp[p] = str(rng.choice(strings))
        elif t == "n":
            inp[p] = float(rng.choice([-2.0, -1.0, 1.0, 2.0, 0.0, float(rng.uniform(-3, 3))]))
        elif t == "v" and p == "weights":
            w = rng.random(n) + 0.05
            inp[p] = [float(x) for x in (w / w.sum() if (n and rng.random() < 0.7) else w * float(rng.choice([0.0, 1.0, 3.0])))]
        elif t == "v":
            inp[p] = _gen_vec(rng, n)
        elif t == "b":
            inp[p] = [bool(x) for x in (rng.random(n) < rng.choice([0.5, 0.8, 1.0, 0.0]))]
        elif t == "ov":
            u = rng.random()
            if u < 0.4:
                inp[p] = None
            elif u < 0.7:       # Cheng-style weights: positive, summing to one
                w = rng.random(n) + 0.05
                inp[p] = [float(x) for x in (w / w.sum() if n else w)]
            elif u < 0.8:
                inp[p] = [0.0] * n
            else:
                inp[p] = [float(x) for x in rng.uniform(0.1, 3.0, n)]
    return inp


def _vec_line(spec, tables, inp):
    toks = []
    for t_ in spec["tables"]:
        toks += [str(len(tables[t_]))] + [x for kv in sorted(tables[t_].items()) for x in kv]
    for p, t in spec["params"]:
        v = inp[p]
        if t == "str":
            toks.append(v if v != "" else "\"\"")
        elif t == "n":
            toks.append(hexf(v))
        elif t == "v":
            toks += [str(len(v))] + ["none" if x != x else hexf(x) for x in v]
        elif t == "b":
            toks += [str(len(v))] + ["1" if x else "0" for x in v]
        elif t == "m":
            toks += [str(len(v))]
            for row in v:
                toks += [str(len(row))] + ["none" if x != x else hexf(x) for x in row]
        elif t == "ov":
            toks += ["None"] if v is None else [str(len(v))] + ["none" if x != x else hexf(x) for x in v]
    return f"pyvec.{spec['name']} " + " ".join(toks)


def _vec_python(module, spec, inp):
    kwargs = {}
    obj = None
    if spec.get("cls"):          # a method: a bare instance of the real class carrying exactly the attributes the translation reads
        cls = getattr(module, spec["cls"])
        if spec.get("stubs"):    # abstract inputs: a subclass whose helper method / property hand back the generated arrays
            ns = {}
            for attr, (kind, pname) in spec["stubs"].items():
                arr = np.array(inp[pname], dtype=float)
                ns[attr] = (lambda self, a=arr: a.copy()) if kind == "call" else property(lambda self, a=arr: [a.copy()])
            cls = type("Stubbed" + spec["cls"], (cls,), ns)
        obj = object.__new__(cls)
    for p, t in spec["params"]:
        v = inp[p]
        val = (None if v is None else np.array(v, dtype=float)) if t in ("v", "ov", "m") else (np.array(v, dtype=bool) if t == "b" else v)
        if p.startswith("self."):
            setattr(obj, p[5:], val)
        elif any(pname == p for _, pname in (spec.get("stubs") or {}).values()):
            pass
        else:
            kwargs[p] = val
    try:
        with np.errstate(all="ignore"):
            import warnings
            with warnings.catch_warnings():
                warnings.simplefilter("ignore")
                r = getattr(obj, spec["func"])(**kwargs) if obj is not None else getattr(module, spec["func"])(**kwargs)
    except Exception as e:
        return ("raise", type(e).__name__)
    if isinstance(r, tuple):
        return ("pair", [float(x) for x in r])
    r = float(r)
    return ("val", r) if math.isfinite(r) else ("nan", r)


def _vec_agree(py, line, scale):
    t = line.split()
    if t and t[0] == "pair":
        if py[0] != "pair" or len(py[1]) != len(t) - 1:
            return False
        for a, tok in zip(py[1], t[1:]):
            b = None if tok == "none" else unhex(tok)
            if b is not None and not math.isfinite(b):
                b = None
            if (b is None) != (not math.isfinite(a)):
                return False
            if b is not None and abs(a - b) > 1e-9 * max(abs(a), abs(b)) + 1e-12 * scale:
                return False
        return True
    if not t or t[0] not in ("raise", "nan", "val"):
        return False
    kind, val = t[0], (unhex(t[1]) if t[0] == "val" else None)
    if kind == "val" and not math.isfinite(val):
        kind = "nan"
    if py[0] != kind:
        # a square root whose radicand is zero up to rounding (one value, or all values equal, with a negative denominator): NaN on one side, ~0 on the
        # other -- the sign of a rounding residue, not a disagreement about the function
        if {py[0], kind} == {"nan", "val"} and abs(py[1] if py[0] == "val" else val) <= 1e-6 * scale:
            return True
        return False
    return kind != "val" or abs(py[1] - val) <= 1e-9 * max(abs(py[1]), abs(val)) + 1e-12 * scale


def validate_vec(ctx, rng, names=None, vgroups=None):
    """the array functions translated by tools/py2lean_vec.py: the REAL function (CPython) and the generated definition (Float) on the same arrays"""
    import py2lean_vec
    note = ctx.supporting.setdefault("translator_validation", {})
    rc, log = lake(["build", "drv_py"])
    if rc != 0:
        note["status_vec"] = "unavailable: drv_py does not build"
        return
    st, _ = py2lean_vec.emit(REPO)
    n_inputs = ctx.budget(300, 3000)
    for spec in py2lean_vec.TARGETS:
        name = spec["name"]
        if names is not None and name not in names:
            continue
        if vgroups is not None and spec.get("vgroup", "Vec") not in vgroups:
            continue
        if st.get("pyvec:" + name) != "translated":
            continue
        module = importlib.import_module(spec["file"][:-3].replace("/", "."))
        tables = {t_: dict(getattr(module, t_)) for t_ in spec["tables"]}
        cases = [_vec_case(rng, spec, tables) for _ in range(n_inputs)]
        cases = [c for c in cases if all(v != "" for v in c.values() if isinstance(v, str))]      # the empty string cannot cross the line protocol
        outs = run_driver([_vec_line(spec, tables, c) for c in cases], exe="drv_py")
        agree = 0
        kinds = {}
        for inp, line in zip(cases, outs):
            py = _vec_python(module, spec, inp)
            scale = max([1.0] + [abs(x) for v in inp.values() if isinstance(v, list) for x in (v if not (v and isinstance(v[0], list)) else [y for r_ in v for y in r_]) if x == x])
            if _vec_agree(py, line, scale):
                agree += 1
                kinds[py[0]] = kinds.get(py[0], 0) + 1
            else:
                ctx.violation("translator-validation", dict(case=dict(target="pyvec:" + name, inputs=inp), python=str(py)[:300], lean=line[:300]),
                              seam="tools/py2lean_vec.py " + name)
                note["pyvec:" + name] = "DISAGREE"
                break
        else:
            note["pyvec:" + name] = f"agree on {agree} inputs {kinds}"
        ctx.traces += agree


def replay_vec(case):
    import py2lean_vec
    regenerate_tables()
    lake(["build", "drv_py"])
    spec = next(s for s in py2lean_vec.TARGETS if "pyvec:" + s["name"] == case["target"])
    module = importlib.import_module(spec["file"][:-3].replace("/", "."))
    tables = {t_: dict(getattr(module, t_)) for t_ in spec["tables"]}
    inp = {k: ([float("nan") if (x is None or x != x) else x for x in v] if isinstance(v, list) else v) for k, v in case["inputs"].items()}
    return dict(python=str(_vec_python(module, spec, inp)), lean=run_driver([_vec_line(spec, tables, inp)], exe="drv_py")[0])
