"""C07 -- readers put the stored samples on the right components for every format.

Files of every supported format are GENERATED (obspy writers for MSEED/SAC/GCF, own renderers for the text
formats SAF/MiniShark/PEER), read back through the real `hvsrpy.read`, and compared with
  (a) the oracle = the samples/time step/orientation that were written (property sentence evaluated directly),
  (b) Model/Readers.lean through `drv_c07` (routing, scaling, orientation, error kind, argument broadcasting,
      reader dispatch).
"""
import os
import io
import itertools
import pathlib
from fractions import Fraction

import numpy as np

from common import *

PROP_MODULES = ["HvsrVerif.Props.C07"]
BRIDGE_MODULES = ["HvsrVerif.Bridge.C07", "HvsrVerif.Bridge.PyReaders"]
EXE = "drv_c07"

PERMS = ["".join(p) for p in itertools.permutations("NEZ")]
PREFIXES = ["BH", "HH", "EH", "SH", "LH", "HN", "CN", "EL", ""]
READERS = ["mseed", "saf", "minishark", "sac", "gcf", "peer"]
F32 = 2.0 ** -24          # half an ulp of single precision (relative)
T0 = (2020, 1, 1)


# ----------------------------------------------------------------------------
# small helpers
def ekind(e):
    """exception -> error-kind enum shared with the model"""
    if isinstance(e, UnboundLocalError):
        return "unbound"
    if isinstance(e, UnicodeDecodeError):
        return "decode"
    if isinstance(e, FileNotFoundError):
        return "nofile"
    if isinstance(e, ValueError):
        return "value"
    if isinstance(e, IndexError):
        return "index"
    if isinstance(e, AttributeError):
        return "attr"
    if isinstance(e, TypeError):
        return "type"
    return "other:" + type(e).__name__


def rat(x):
    """exact rational token of a python number (every double is a rational)"""
    fr = Fraction(x)
    return f"{fr.numerator}/{fr.denominator}"


def unrat(tok):
    a, b = tok.split("/")
    return Fraction(int(a), int(b))


def orat(x):
    return "none" if x is None else rat(x)


def deg_close(a, b):
    """orientation compared modulo 360 (canonicalisation allowed by DESIGN 2.3)"""
    d = abs(float(a) - float(b)) % 360.0
    return min(d, 360.0 - d) <= 1e-9 * max(1.0, abs(float(a)), abs(float(b)))


def norm360(d):
    return float(Fraction(d) - 360 * (Fraction(d) // 360))


def same(a, b, tol):
    """component == expected samples: exactly (tol 0) or to single precision (relative tol)"""
    a = np.asarray(a, dtype=float)
    b = np.asarray(b, dtype=float)
    if a.shape != b.shape:
        return False
    if tol == 0:
        return bool(np.array_equal(a, b))
    return bool(np.all(np.abs(a - b) <= tol * np.abs(b)))


def who(comp, sources, tol):
    """index of the written source (trace/column/file) whose samples the returned component holds, -1 if none"""
    a = comp.amplitude
    for j, s in enumerate(sources):
        if len(s) >= len(a) and len(a) > 0 and same(a, np.asarray(s, dtype=float)[:len(a)], tol):
            return j
    return -1


def wd():
    os.makedirs(WORK, exist_ok=True)
    return WORK


_counter = [0]


def fresh(ext):
    _counter[0] += 1
    return os.path.join(wd(), f"c07_{_counter[0]}.{ext}")


def rm(paths):
    for p in paths:
        try:
            os.remove(p)
        except OSError:
            pass


# ----------------------------------------------------------------------------
# sample generation (always from the case's own seed so that a replay needs no stored samples)
def gen_samples(rng, n, dtype, lim):
    if dtype == "int32":
        return rng.integers(-lim, lim + 1, n).astype(np.int32)
    x = (rng.normal(size=n) * lim / 4).astype(np.float32)
    return x


# ----------------------------------------------------------------------------
# obspy based formats: mseed1 (one file), mseed3, sac_le, sac_be (three files), gcf (one file)
def mk_trace(ch, data, fs):
    from obspy import Trace, UTCDateTime
    tr = Trace(data=data)
    tr.stats.network = "UT"
    tr.stats.station = "STN11"
    tr.stats.location = ""
    tr.stats.channel = ch
    tr.stats.sampling_rate = fs
    tr.stats.starttime = UTCDateTime(*T0)
    return tr


def build_obspy(c):
    """write the traces of case c; returns (read argument, files to delete, written arrays, decoded tokens)"""
    import obspy
    rng = np.random.default_rng(c["dseed"])
    arrs = [gen_samples(rng, n, c["dtype"], c["lim"]) for (_ch, n, _fs) in c["traces"]]
    trs = [mk_trace(ch, a, fs) for (ch, _n, fs), a in zip(c["traces"], arrs)]
    fmt = c["fmt"]
    files = []
    if fmt in ("mseed1", "gcf"):
        f = fresh("mseed" if fmt == "mseed1" else "gcf")
        obspy.Stream(trs).write(f, format="MSEED" if fmt == "mseed1" else "GCF")
        files = [f]
        arg = f
    else:
        for tr in trs:
            if fmt == "mseed3":
                f = fresh("mseed")
                obspy.Stream([tr]).write(f, format="MSEED")
            else:
                f = fresh("sac")
                bo = {"sac_le": 0, "sac_be": 1}.get(fmt, len(files) % 2)       # sac_mix: byte order alternates between the files
                obspy.Stream([tr]).write(f, format="SAC", byteorder=bo)
            files.append(f)
        arg = list(files)
    if c.get("cut") is not None:       # truncated file (error stream)
        with open(files[-1], "rb") as fh:
            b = fh.read()
        with open(files[-1], "wb") as fh:
            fh.write(b[:max(0, len(b) - c["cut"])])
    # decoded token stream (obspy decode is trusted): channel, npts, delta of every trace hvsrpy will see.
    # The full decode is used (not header-only): obspy's own GCF writer/reader pair fails on some lengths
    # ("failure to decode data block"), such files are no test input for hvsrpy.
    toks = []
    try:
        decoded = []
        for f in files:
            for tr in obspy.read(f, format={"mseed1": "MSEED", "mseed3": "MSEED", "gcf": "GCF"}.get(fmt, "SAC")):
                toks.append((str(tr.stats.channel), int(tr.stats.npts), float(tr.stats.delta)))
                decoded.append(np.asarray(tr.data, dtype=float))
        if c.get("err") is None and c.get("cut") is None:
            # the trusted pair must return what was written, else the case is discarded
            if len(decoded) != len(arrs) or not all(any(np.array_equal(d, a.astype(float)) for d in decoded) for a in arrs):
                toks = "roundtrip"
    except Exception:
        toks = None if (c.get("err") is not None or c.get("cut") is not None) else "roundtrip"
    if c.get("io") == "pathlib":
        arg = pathlib.Path(arg) if isinstance(arg, str) else [pathlib.Path(a) for a in arg]
    elif c.get("io") == "memory" and fmt == "mseed1":
        with open(files[0], "rb") as fh:
            arg = io.BytesIO(fh.read())
    return arg, files, arrs, toks


def orient_letter(fmt, ch):
    if not ch:
        return ""
    return ch[-1].upper() if fmt == "gcf" else ch[-1]


def obspy_line(c, toks):
    if toks is None:
        return None
    parts = [f"readers.obspy {orat(c['deg'])} {len(toks)}"]
    for ch, n, dt in toks:
        parts.append(f"{ch if ch else '-'} {n} {rat(dt)}")
    return " ".join(parts)


# ----------------------------------------------------------------------------
# text formats: renderers
def saf_text(c, rows):
    nl = "\r\n" if c["nl"] == "crlf" else "\n"
    L = []
    if c.get("version", True):
        L.append("SESAME ASCII data format (saf) v. 1    (this line must not be modified)")
    if c.get("fs") is not None:
        L.append(f"SAMP_FREQ = {c['fs']}")
    if c.get("ndat") is not None:
        L.append("NDAT = %010d" % c["ndat"] if c.get("pad", True) else f"NDAT = {c['ndat']}")
    L += ["START_TIME = 2021 11 22 13 31 10.000", "CLIPPING SAMPLES = 0000000000 0000000000 0000000000",
          "SENSOR_TYPE = Velocity", "RESPFILE =", "# The above response file is correlated only to the Z-channel",
          "ACQ_SYSTEM = SARA SR04HS (Geobox)", "STA_CODE = SRHV-02", "STA_COORD_TYPE = 0"]
    if c.get("rot") is not None:
        L.append(f"NORTH_ROT = {c['rot']}")
    L.append("UNITS = Counts")
    base = c.get("chbase", 0)
    for k, letter in enumerate(c["chan"]):
        L.append(f"CH{k + base}_ID = {letter}")
    L += ["STA_X =", "STA_Y =", "STA_Z = 0", "####--------------------------------"]
    sep = c.get("sep", " ")
    L += [f"{a}{sep}{b}{sep}{d}" for a, b, d in rows.tolist()]
    return nl.join(L) + nl


def mshark_text(c, rows):
    nl = "\r\n" if c["nl"] == "crlf" else "\n"
    L = ["#File name:\t0003_181115_0441", "#Sensor:\tMiniShark 0003", "#Start date:\t15.11.2018", "#Start time:\t04.41.00"]
    if c.get("fs") is not None:
        L.append(f"#Sample rate (sps):\t{c['fs']}")
    if c.get("ndat") is not None:
        L.append(f"#Sample number:\t{c['ndat']}")
    L.append("#Recording time (min):\t30")
    if c.get("conv") is not None:
        L.append(f"#Conversion factor:\t{c['conv']}")
    if c.get("gain") is not None:
        L.append(f"#Gain:\t{c['gain']}")
    L += ["#Dynamic range (Vpp):\t5", "#Clipped samples:\t0.00%", "#Latitude:\t 3319.9875 S", "#Longitude:\t07035.8866 W",
          "#Coordinates:\tWGS84", "#Acceleration channels:\tno", "#--------------------------------------------------"]
    L += [f"{a}\t{b}\t{d}" for a, b, d in rows.tolist()]
    return nl.join(L) + nl


def fmt_sample(x, style):
    if style == "python":
        return "%16.7E" % x
    # fortran style: mantissa in [0.1, 1) without the leading zero, as in the PEER NGA files
    if x == 0:
        return "    .0000000E+00"
    s = "%.6E" % x          # d.ddddddE+xx
    mant, ex = s.split("E")
    neg = mant.startswith("-")
    digits = mant.lstrip("-").replace(".", "")
    e = int(ex) + 1
    out = ("-" if neg else "") + "." + digits + "E" + ("+" if e >= 0 else "-") + "%02d" % abs(e)
    return out.rjust(16)


def peer_text(key, npts, dttext, samples_text, nl, percol=5):
    nls = "\r\n" if nl == "crlf" else "\n"
    L = ["PEER NGA STRONG MOTION DATABASE RECORD",
         f"Northridge-01, 1/17/1994, Alhambra - Fremont School, {key}",
         "VELOCITY TIME SERIES IN UNITS OF CM/S",
         f"NPTS=   {npts}, DT=   {dttext} SEC"]
    for i in range(0, len(samples_text), percol):
        L.append("".join(samples_text[i:i + percol]))
    return nls.join(L) + nls


def write_text(text, c, ext):
    """file on disk (newline untouched) or StringIO, per c['io']"""
    if c.get("io") == "memory":
        return io.StringIO(text), None
    f = fresh(ext)
    with open(f, "w", newline="") as fh:
        fh.write(text)
    if c.get("io") == "pathlib":
        return pathlib.Path(f), f
    return f, f


def first_idx(letters, x):
    return letters.index(x) if x in letters else None


def build_saf(c):
    rng = np.random.default_rng(c["dseed"])
    rows = rng.integers(-c["lim"], c["lim"] + 1, (c["n"], 3)).astype(np.int64)
    text = saf_text(c, rows)
    arg, f = write_text(text, c, "saf")
    base = c.get("chbase", 0)
    ch = [None if first_idx(c["chan"], x) is None else first_idx(c["chan"], x) + base for x in "VNE"]
    sep_ok = c.get("sep", " ") in (" ", "\t")
    nrows = c["n"] if sep_ok else 0
    line = " ".join(["readers.saf", "1" if c.get("version", True) else "0", onat(c.get("ndat")), onat(c.get("fs")),
                     onat(ch[0]), onat(ch[1]), onat(ch[2]), onat(c.get("rot")), orat(c["deg"]), str(nrows)]
                    + ([" ".join(f"{a} {b} {d}" for a, b, d in rows.tolist())] if nrows else []))
    return arg, ([f] if f else []), rows, line


def build_mshark(c):
    rng = np.random.default_rng(c["dseed"])
    rows = rng.integers(-c["lim"], c["lim"] + 1, (c["n"], 3)).astype(np.int64)
    text = mshark_text(c, rows)
    arg, f = write_text(text, c, "minishark")
    line = " ".join(["readers.mshark", onat(c.get("ndat")), onat(c.get("fs")), onat(c.get("conv")), onat(c.get("gain")),
                     orat(c["deg"]), str(c["n"])] + ([" ".join(f"{a} {b} {d}" for a, b, d in rows.tolist())] if c["n"] else []))
    return arg, ([f] if f else []), rows, line


def onat(x):
    return "none" if x is None else str(int(x))


PEER_KEY_OK = __import__("re").compile(r"^(UP|VER|\d|\d\d|\d\d\d|[FGDCESHB][HLGMN][ENZ])$")


def build_peer(c):
    rng = np.random.default_rng(c["dseed"])
    args, files, data, toks = [], [], [], []
    for (key, n, npts, dttext) in c["files"]:
        x = rng.normal(size=n) * 10.0 ** rng.integers(-3, 3)
        st = [fmt_sample(v, c["style"]) for v in x.tolist()]
        vals = np.array([float(s) for s in st], dtype=float)      # the numbers stored in the file
        text = peer_text(key, npts, dttext, st, c["nl"])
        arg, f = write_text(text, c, "vt2")
        args.append(arg)
        if f:
            files.append(f)
        data.append(vals)
        ktok = key if PEER_KEY_OK.match(key) else "none"
        toks.append(f"{ktok} {npts} {rat(Fraction(dttext if not dttext.startswith('.') else '0' + dttext))} {n}")
    line = f"readers.peer {orat(c['deg'])} {len(toks)} " + " ".join(toks)
    return args, files, data, line


# ----------------------------------------------------------------------------
# the implementation
def rewind(arg):
    for a in (arg if isinstance(arg, list) else [arg]):
        if isinstance(a, (io.BytesIO, io.StringIO)):
            a.seek(0, 0)


def call_read(arg, deg, wrap=False, kwargs=None):
    import hvsrpy
    rewind(arg)
    a = [[arg]] if (wrap and not isinstance(arg, list)) else [arg]
    try:
        with quiet():
            recs = hvsrpy.read(a, obspy_read_kwargs=kwargs, degrees_from_north=deg)
    except Exception as e:
        return ("err", ekind(e))
    if not isinstance(recs, list) or len(recs) != 1:
        return ("bad", f"read() returned {type(recs).__name__} of length {len(recs) if hasattr(recs, '__len__') else '?'}")
    return ("ok", recs[0])


def call_reader(name, arg, deg, kwargs=None):
    """one per-format reader directly (data_wrangler.READ_FUNCTION_DICT), for the error kind and the dispatch probe"""
    import hvsrpy.data_wrangler as dw
    rewind(arg)
    try:
        with quiet():
            rec = dw.READ_FUNCTION_DICT[name](arg, obspy_read_kwargs=kwargs, degrees_from_north=deg)
    except Exception as e:
        return ("err", ekind(e))
    return ("ok", rec)


def rec_summary(rec, sources, tol):
    return dict(ns=who(rec.ns, sources, tol), ew=who(rec.ew, sources, tol), vt=who(rec.vt, sources, tol),
                n=[rec.ns.n_samples, rec.ew.n_samples, rec.vt.n_samples],
                dt=[rec.ns.dt_in_seconds, rec.ew.dt_in_seconds, rec.vt.dt_in_seconds],
                deg=rec.degrees_from_north)


def rec_equal(a, b):
    return (np.array_equal(a.ns.amplitude, b.ns.amplitude) and np.array_equal(a.ew.amplitude, b.ew.amplitude)
            and np.array_equal(a.vt.amplitude, b.vt.amplitude) and a.ns.dt_in_seconds == b.ns.dt_in_seconds
            and a.degrees_from_north == b.degrees_from_north)


# ----------------------------------------------------------------------------
# model answers
def parse_model(line):
    t = line.split()
    if not t:
        return dict(st="bad", raw=line)
    if t[0] == "err":
        return dict(st="err", kind=t[1] if len(t) > 1 else "?", raw=line)
    if t[0] != "ok":
        return dict(st="bad", raw=line)
    return dict(st="ok", t=t[1:])


def parse_routing(m):
    """ok ins iew ivt n dt deg"""
    t = m["t"]
    return dict(ns=int(t[0]), ew=int(t[1]), vt=int(t[2]), n=int(t[3]), dt=float(unrat(t[4])), deg=float(unrat(t[5])))


def parse_columns(m, as_rat):
    """ok dt deg n ns* ew* vt*"""
    t = m["t"]
    dt = float(unrat(t[0]))
    deg = float(unrat(t[1]))
    n = int(t[2])
    conv = (lambda s: float(unrat(s))) if as_rat else (lambda s: float(int(s)))
    vals = [conv(s) for s in t[3:3 + 3 * n]]
    return dict(dt=dt, deg=deg, n=n, ns=np.array(vals[:n]), ew=np.array(vals[n:2 * n]), vt=np.array(vals[2 * n:3 * n]))


# ----------------------------------------------------------------------------
# case generators
def pick(rng, xs):
    return xs[int(rng.integers(0, len(xs)))]


def gen_deg(rng):
    r = rng.random()
    if r < 0.45:
        return None
    if r < 0.6:
        return float(pick(rng, [0.0, 90.0, 15.0, 359.5, 360.0, 400.0, -20.0, 725.25, -360.0]))
    if r < 0.7:
        return int(pick(rng, [0, 30, 90, 270, 360, 450, -45]))
    return float(np.round(rng.uniform(-400, 800), 3))


def gen_n(rng):
    r = rng.random()
    if r < 0.6:
        return int(rng.integers(50, 400))
    if r < 0.9:
        return int(rng.integers(400, 1200))
    return int(rng.integers(1200, 2001))


def obspy_autodetects(files, fmt, opt):
    """does obspy.read(file, **opt) -- no format named -- open every file of the case as the format it was written in?"""
    import obspy
    want = {"mseed1": "MSEED", "mseed3": "MSEED", "gcf": "GCF"}.get(fmt, "SAC")
    try:
        with quiet():
            return all(all(tr.stats._format == want for tr in obspy.read(f, **opt)) for f in files if isinstance(f, (str, os.PathLike)))
    except Exception:   # noqa: whatever obspy's detection raises
        return False


def gen_obspy(rng, fmt, err=None):
    n = gen_n(rng)
    dtype = "int32" if fmt == "gcf" or rng.random() < 0.5 else "float32"
    if fmt == "gcf":
        fs = float(pick(rng, [50, 100, 200, 250, 40, 125, 500, 20, 10, 1000]))
    else:
        fs = float(pick(rng, [50, 100, 200, 250, 40, 62.5, 128, 500, 20, 1000, 31.25, 75]))
    lim = int(pick(rng, [100, 2 ** 15, 2 ** 20, 2 ** 23]))
    if dtype == "int32" and fmt in ("mseed1", "mseed3") and rng.random() < 0.3:
        lim = 2 ** 27
    pre = pick(rng, PREFIXES)
    perm = pick(rng, PERMS)
    pres = [pre, pre, pre]
    if err is None and fmt != "gcf" and pre != "" and rng.random() < 0.25:
        # instruments mixing sensor bands (e.g. a short-period vertical EHZ with broadband HHN/HHE): the component is the LAST letter
        pres = [pick(rng, [p for p in PREFIXES if p]) for _ in range(3)]
    names = [q + x for q, x in zip(pres, perm)]
    c = dict(kind="obspy", fmt=fmt, dtype=dtype, lim=lim, dseed=int(rng.integers(0, 2 ** 31)), deg=gen_deg(rng),
             io=pick(rng, ["path", "path", "path", "pathlib", "memory"]), wrap=bool(rng.random() < 0.3), err=err, perm=perm, prefix=pre, prefixes=pres)
    tr = [[nm, n, fs] for nm in names]
    if err == "dup":
        i, j = rng.permutation(3)[:2]
        tr[int(i)][0] = tr[int(j)][0]
    elif err == "other":
        sub = pick(rng, [{"N": "1", "E": "2"}, {"N": "X", "E": "Y"}, {"Z": "3"}, {"E": "2"}, {"N": "R", "E": "T"}])
        for t in tr:
            t[0] = pre + sub.get(t[0][-1], t[0][-1])
    elif err == "lower":
        if fmt == "gcf":
            c["err"] = None       # the GCF stream id is case-insensitive: decoded as upper case, so this is a valid variant
        for t in tr:
            t[0] = t[0].lower()
        if pre == "":
            c["prefix"] = ""
    elif err == "two":
        del tr[int(rng.integers(0, 3))]
    elif err == "four":
        extra = pick(rng, ["Z", "N", "E", "1"])
        tr.insert(int(rng.integers(0, 4)), [("XX" if pre == "" else pre[::-1]) + extra, n, fs])
    elif err == "len":
        tr[int(rng.integers(0, 3))][1] = n - int(rng.integers(1, 20))
    elif err == "fs":
        tr[int(rng.integers(0, 3))][2] = fs * 2
    elif err == "cut":
        c["cut"] = int(rng.integers(1, 700))
    c["traces"] = tr
    return c


def gen_saf(rng, err=None):
    n = gen_n(rng)
    chan = "".join(pick(rng, list(itertools.permutations("VNE"))))
    c = dict(kind="saf", chan=chan, n=n, ndat=n, fs=int(pick(rng, [50, 100, 128, 200, 250, 500, 1000, 1, 75])),
             rot=pick(rng, [None, 0, 0, 30, 45, 90, 180, 270, 300, 359, 7]), nl=pick(rng, ["lf", "crlf"]),
             io=pick(rng, ["path", "path", "memory", "pathlib"]), lim=int(pick(rng, [1000, 2 ** 15, 2 ** 24, 2 ** 31 - 1])),
             dseed=int(rng.integers(0, 2 ** 31)), deg=gen_deg(rng), wrap=bool(rng.random() < 0.3), err=err, pad=bool(rng.random() < 0.7))
    # (a valid layout whose CH1 is the vertical is refused by the code's NORTH_ROT rule unless the orientation is explicit or the
    #  keyword is absent: kept in the stream, judged by the model only -- see saf_rule_blocks)
    if err == "ndat_more":
        c["ndat"] = n + int(rng.integers(1, 30))
    elif err == "ndat_less":
        c["ndat"] = n - int(rng.integers(1, 30))
    elif err == "no_version":
        c["version"] = False
    elif err == "no_ndat":
        c["ndat"] = None
    elif err == "no_fs":
        c["fs"] = None
    elif err == "dup_chan":
        c["chan"] = pick(rng, ["VNN", "VEE", "VVN", "NNE", "VNX", "XNE", "VXE"])
    elif err == "onebased":
        c["chbase"] = 1
    elif err == "sep":
        c["sep"] = pick(rng, [",", "  ", ";"])
    return c


def gen_mshark(rng, err=None):
    n = gen_n(rng)
    c = dict(kind="mshark", n=n, ndat=n, fs=int(pick(rng, [50, 100, 128, 200, 250, 500, 1000])),
             gain=int(pick(rng, [1, 2, 4, 8, 16, 32, 64, 3, 10])), conv=int(pick(rng, [1, 65536, 52428, 1000, 419430, 7])),
             nl=pick(rng, ["lf", "crlf"]), io=pick(rng, ["path", "path", "memory", "pathlib"]),
             lim=int(pick(rng, [1000, 2 ** 15, 2 ** 23, 2 ** 31 - 1])), dseed=int(rng.integers(0, 2 ** 31)), deg=gen_deg(rng),
             wrap=bool(rng.random() < 0.3), err=err)
    if err == "ndat_more":
        c["ndat"] = n + int(rng.integers(1, 30))
    elif err == "ndat_less":
        c["ndat"] = n - int(rng.integers(1, 30))
    elif err == "no_gain":
        c["gain"] = None
    elif err == "no_conv":
        c["conv"] = None
    elif err == "no_ndat":
        c["ndat"] = None
    elif err == "no_fs":
        c["fs"] = None
    return c


PEER_DT = [".0200", ".0100", "0.0050", ".0050", "0.01", ".0250", "0.004", ".0078125"]


def gen_peer(rng, err=None):
    n = gen_n(rng)
    r = rng.random()
    if r < 0.6:      # numeric azimuth codes with distinct distance from north
        vkey = pick(rng, ["UP", "VER"])
        while True:
            a = int(rng.integers(0, 361))
            b = (a + int(pick(rng, [90, 90, 90, 270, 80, 100]))) % 360
            ra, rb = (a - 360 if a > 180 else a), (b - 360 if b > 180 else b)
            if abs(ra) != abs(rb):
                break
        if rng.random() < 0.4:
            a, b = pick(rng, [(0, 90), (360, 90), (0, 270), (90, 180), (180, 270), (360, 270), (5, 95)])
        w = pick(rng, [3, 3, 0])
        hk = [("%0" + str(w) + "d") % a if w else str(a), ("%0" + str(w) + "d") % b if w else str(b)]
        keys = [hk[0], hk[1], vkey]
    else:            # letter codes
        p = pick(rng, "FGDCESHB") + pick(rng, "HLGMN")
        keys = [p + "N", p + "E", p + "Z"]
    order = [int(i) for i in rng.permutation(3)]
    dt = pick(rng, PEER_DT)
    files = [[keys[i], n, n, dt] for i in order]
    c = dict(kind="peer", files=files, style=pick(rng, ["python", "fortran"]), nl=pick(rng, ["lf", "crlf"]),
             io=pick(rng, ["path", "path", "memory", "pathlib"]), dseed=int(rng.integers(0, 2 ** 31)), deg=gen_deg(rng), err=err, order=order)
    if err is None and rng.random() < 0.35:       # unequal lengths are legal in PEER: trimmed to the shortest
        for f in files:
            f[1] = f[2] = n - int(rng.integers(0, 40))
    if err == "npts_more":
        f = files[int(rng.integers(0, 3))]
        f[2] = f[1] + int(rng.integers(1, 30))
    elif err == "npts_less":
        f = files[int(rng.integers(0, 3))]
        f[2] = f[1] - int(rng.integers(1, 30))
    elif err == "dt":
        files[int(rng.integers(1, 3))][3] = pick(rng, [d for d in PEER_DT if float(d) != float(dt)])
    elif err == "dup":
        i, j = [int(x) for x in rng.permutation(3)[:2]]
        if files[j][0] in ("UP", "VER") or files[j][0][-1] == "Z" or not files[j][0].isdigit():
            files[i][0] = files[j][0]
        else:
            files[i][0], files[j][0] = "UP", "UP"
    elif err == "novert":
        for f in files:
            if f[0] in ("UP", "VER"):
                f[0] = "180"
            elif f[0][-1] == "Z":
                f[0] = f[0][:-1] + "N"
    elif err == "mixed":
        if files[0][0].isdigit() or files[0][0] in ("UP", "VER"):
            for f in files:
                if f[0].isdigit():
                    f[0] = "HNE"
                    break
        else:
            for f in files:
                if f[0][-1] == "Z":
                    f[0] = "UP"
    elif err == "badkey":
        files[int(rng.integers(0, 3))][0] = pick(rng, ["XYZ", "1234", "up", "H1", "NORTH"])
    elif err == "two":
        j = int(rng.integers(0, 3))
        numeric_h = files[j][0].isdigit()
        del files[j]
        if numeric_h:       # UP/VER + one numeric horizontal: argmin == argmax == 0 (same defect as equal distances)
            c["tie"] = True
            c["err"] = "two_numeric"
    return c


def peer_tie_case(rng, dup=False):
    """numeric horizontals with the same distance from north (135/225, 90/270, ...) or the same code twice"""
    a = int(pick(rng, [135, 90, 100, 170, 45, 1, 179]))
    b = a if dup else 360 - a
    keys = ["%03d" % a, "%03d" % b, pick(rng, ["UP", "VER"])]
    order = [int(i) for i in rng.permutation(3)]
    n = int(rng.integers(50, 200))
    return dict(kind="peer", files=[[keys[i], n, n, ".0100"] for i in order], style="fortran", nl="lf", io="path",
                dseed=int(rng.integers(0, 2 ** 31)), deg=None, err="tie_dup" if dup else None, order=order, tie=True)


# ----------------------------------------------------------------------------
# one single-recording case: implementation, oracle, model
def run_single(ctx, c, mline_out):
    """executes case c on the implementation and evaluates the oracle; returns a record whose model line is answered later"""
    kind = c["kind"]
    files = []
    rec = dict(case=c)
    try:
        if kind == "obspy":
            arg, files, arrs, toks = build_obspy(c)
            if toks == "roundtrip":
                ctx.count("discarded:obspy-own-roundtrip-failed:" + c["fmt"])
                return None
            sources = [a.astype(float) for a in arrs]
            tol = 0.0
            line = obspy_line(c, toks)
            reader = {"mseed1": "mseed", "mseed3": "mseed", "sac_le": "sac", "sac_be": "sac", "sac_mix": "sac", "gcf": "gcf"}[c["fmt"]]
            rec["toks"] = toks
        elif kind == "saf":
            arg, files, rows, line = build_saf(c)
            sources = [rows[:, k].astype(float) for k in range(3)]
            tol = F32
            reader = "saf"
        elif kind == "mshark":
            arg, files, rows, line = build_mshark(c)
            g = (c.get("gain") or 1) * (c.get("conv") or 1)
            sources = [rows[:, k].astype(float) / g for k in range(3)]
            tol = 4 * F32      # three single-precision roundings (store, /gain, /conversion), each half an ulp, plus second-order terms
            reader = "minishark"
        else:
            arg, files, data, line = build_peer(c)
            sources = data
            tol = 0.0
            reader = "peer"
        rec.update(sources=sources, tol=tol, reader=reader, line=line)
        # reader options handed over by the caller WITHOUT a format entry (an empty dict, or one holding a neutral obspy option): the file is read exactly as
        # without options, for every format (the trial dispatch passes the same options to one reader after the other), and the caller's dict is left as it was
        opt = [None, None, {}, {"headonly": False}][(len(line or "") + len(sources[0])) % 4]
        if opt is not None and kind == "obspy" and not obspy_autodetects(files, c["fmt"], opt):
            # options without a format entry leave the format detection to obspy (hvsrpy's own default options name the format): obspy's detection takes some
            # valid GCF files written by obspy itself for SAC and raises (a false alarm at seed 12 of the session-4 sweep corrected) -- outside the property
            ctx.count("caller_options_dropped:obspy-autodetection-fails:" + c["fmt"])
            opt = None
        opt_before = None if opt is None else dict(opt)
        im = call_read(arg, c["deg"], wrap=c.get("wrap", False), kwargs=opt)
        rec["reader_options"] = opt_before
        if opt is not None and opt != opt_before:
            rec["options_mutated"] = dict(opt)
        rec["impl_status"] = im[0]
        if im[0] == "ok":
            rec["impl"] = rec_summary(im[1], sources, tol)
            rec["impl_rec"] = im[1]
        else:
            rec["impl"] = im[1]
        # the reader itself (error kind; "which reader answers" for the dispatch probe)
        if c.get("err") or c.get("probe_reader") or im[0] != "ok":
            d = call_reader(reader, arg, c["deg"])
            rec["direct"] = (d[0], rec_summary(d[1], sources, tol) if d[0] == "ok" else d[1])
        if c.get("probe_dispatch"):
            vec = []
            outs = []
            for name in READERS:
                d = call_reader(name, arg, c["deg"])
                vec.append(d[0] == "ok")
                outs.append(d)
            rec["dispatch_vec"] = vec
            rec["dispatch_outs"] = outs
    finally:
        rm(files)
    if line is not None:
        rec["mline"] = len(mline_out)
        mline_out.append(line)
        if "dispatch_vec" in rec:
            rec["dline"] = len(mline_out)
            mline_out.append("readers.dispatch " + " ".join("1" if b else "0" for b in rec["dispatch_vec"]))
    return rec


def expected_components(c, rec):
    """property oracle for a valid case: (index of the source that must be ns, ew, vt), n, dt"""
    kind = c["kind"]
    if kind == "obspy":
        idx = {}
        for j, (ch, n, fs) in enumerate(c["traces"]):
            idx[orient_letter(c["fmt"], ch)] = j
        return (idx["N"], idx["E"], idx["Z"]), c["traces"][0][1], 1.0 / c["traces"][0][2], ("sac" in c["fmt"])
    if kind == "saf":
        return (c["chan"].index("N"), c["chan"].index("E"), c["chan"].index("V")), c["n"], 1.0 / float(c["fs"]), False
    if kind == "mshark":
        return (1, 2, 0), c["n"], 1.0 / float(c["fs"]), False
    # peer: vertical = UP/VER/..Z; letter codes: ..N / ..E ; numeric: per the model (checked there); here only distinctness
    keys = [f[0] for f in c["files"]]
    vt = [j for j, k in enumerate(keys) if k in ("UP", "VER") or k[-1] == "Z"][0]
    ns = ew = None
    for j, k in enumerate(keys):
        if j != vt and not k.isdigit():
            if k[-1] == "N":
                ns = j
            if k[-1] == "E":
                ew = j
    return (ns, ew, vt), min(f[1] for f in c["files"]), float(c["files"][0][3]), False


def check_single(ctx, rec, outs):
    c = rec["case"]
    kind = c["kind"]
    label = c["fmt"] if kind == "obspy" else kind
    err = c.get("err")
    st = rec["impl_status"]
    replay = dict(case=c, impl_status=st, impl=rec["impl"] if st != "ok" else {k: v for k, v in rec["impl"].items()})
    seam = "hvsrpy.read -> data_wrangler._read_" + rec["reader"]
    ctx.traces += 1
    ctx.count("fmt:" + label)
    ctx.count("stream:" + ("error:" + str(err) if err else "valid"))
    if c.get("io"):
        ctx.count("io:" + c["io"])
    if c.get("nl"):
        ctx.count("newline:" + c["nl"])
    ctx.count("deg:" + ("none" if c["deg"] is None else type(c["deg"]).__name__))
    ctx.count("reader_options:" + ("none" if rec.get("reader_options") is None else ("empty-dict" if not rec["reader_options"] else "neutral-option")))
    replay["reader_options"] = rec.get("reader_options")
    if "options_mutated" in rec:
        # observed on the unchanged tree: the SAC trial writes its byte-order guess into the caller's dict. The property speaks about what each recording is READ
        # with, not about the caller's dict, so this is counted, not judged (a first version of this check raised a false alarm here)
        ctx.count("reader_options:dict-modified-by-the-call")

    # ---------------- oracle: the property sentence evaluated on the implementation
    if st == "bad":
        ctx.violation("read-returns-one-recording-per-entry", replay, seam=seam)
        return
    if err and not c.get("tie"):
        ctx.supporting["must_raise_cases"] = ctx.supporting.get("must_raise_cases", 0) + 1
        if st == "ok":
            ctx.violation("error-instead-of-recording:" + ("sample-count" if "ndat" in err or "npts" in err else
                                                           "component" if err in ("dup", "two", "four", "other", "novert", "dup_chan", "mixed") else "unrecognised"),
                          dict(replay, expected="an exception"), seam=seam)
    valid_for_oracle = (not err) and not c.get("tie") and not (kind == "saf" and saf_rule_blocks(c))
    if valid_for_oracle:
        ctx.supporting["oracle_cases"] = ctx.supporting.get("oracle_cases", 0) + 1
        (ens, eew, evt), en, edt, sacdt = expected_components(c, rec)
        if st != "ok":
            ctx.violation("valid-file-is-read", dict(replay, expected=dict(ns=ens, ew=eew, vt=evt, n=en, dt=edt)), seam=seam)
        else:
            im = rec["impl"]
            if (ens is not None and im["ns"] != ens) or (eew is not None and im["ew"] != eew) or im["vt"] != evt or \
                    len({im["ns"], im["ew"], im["vt"]}) != 3 or -1 in (im["ns"], im["ew"], im["vt"]):
                ctx.violation("components-hold-stored-samples", dict(replay, expected=dict(ns=ens, ew=eew, vt=evt)), seam=seam)
            if im["n"] != [en, en, en]:
                ctx.violation("components-hold-stored-samples:length", dict(replay, expected_n=en), seam=seam)
            # SAC stores delta in single precision and obspy rounds it to microseconds: 1e-6 s absolute; otherwise double precision
            if any((abs(x - edt) > 1e-6) if sacdt else (abs(x - edt) > 1e-12 * edt) for x in im["dt"]):
                ctx.violation("file-time-step", dict(replay, expected_dt=edt), seam=seam)
            if c["deg"] is not None and not deg_close(im["deg"], norm360(c["deg"])):
                ctx.violation("explicit-degrees-from-north-applied", dict(replay, expected_deg=norm360(c["deg"])), seam=seam)
            if c["deg"] is None and kind in ("obspy", "mshark") and im["deg"] != 0.0:
                ctx.violation("default-orientation-is-zero", dict(replay, expected_deg=0.0), seam=seam)
    if c.get("tie") and st == "ok":
        im = rec["impl"]
        ctx.supporting["peer_equal_distance_cases"] = ctx.supporting.get("peer_equal_distance_cases", 0) + 1
        if len({im["ns"], im["ew"], im["vt"]}) != 3:
            ctx.violation("peer-horizontals-distinct", dict(replay, peer_equal_distance=True,
                          note="numeric PEER azimuth codes at the same distance from north (or the same code twice): "
                               "np.argmin and np.argmax both return the first file, which becomes ns AND ew; the other horizontal file is dropped"),
                          seam=seam)

    # ---------------- model
    if "mline" not in rec:
        ctx.count("model:skipped-undecodable")
        # undecodable by obspy itself: the implementation must raise as well
        if st == "ok":
            ctx.violation("error-instead-of-recording:unrecognised", dict(replay, expected="an exception (obspy cannot decode the file)"), seam=seam)
        return
    m = parse_model(outs[rec["mline"]])
    replay["model"] = m.get("raw", outs[rec["mline"]][:300])
    if m["st"] == "bad":
        raise InfraError("driver answered: " + outs[rec["mline"]][:200])
    if (m["st"] == "ok") != (st == "ok"):
        ctx.violation("model:recording-or-error", replay, found_input=True, seam=seam)
        return
    if m["st"] == "err":
        ctx.count("errkind:" + m["kind"])
        d = rec.get("direct")
        if d is not None:
            if d[0] == "ok":
                ctx.violation("model:reader-raises", dict(replay, reader_direct="ok"), seam=seam)
            elif d[1] != m["kind"] and not (m["kind"] == "value" and d[1] == "decode"):
                ctx.violation("model:error-kind", dict(replay, reader_direct=d[1]), seam=seam)
        return
    im = rec["impl"]
    if kind in ("obspy", "peer"):
        r = parse_routing(m)
        if kind == "obspy":
            # model indices refer to the decoded token stream; map to the written traces by orientation letter
            toks = rec["toks"]
            def back(i):
                o = toks[i][0][-1] if toks[i][0] else ""
                js = [j for j, (ch, _n, _fs) in enumerate(c["traces"]) if orient_letter(c["fmt"], ch) == o]
                return js[0] if len(js) == 1 else -2
            want = (back(r["ns"]), back(r["ew"]), back(r["vt"]))
        else:
            want = (r["ns"], r["ew"], r["vt"])
        if (im["ns"], im["ew"], im["vt"]) != want:
            ctx.violation("model:routing", dict(replay, model_routing=list(want)), seam=seam)
        if im["n"] != [r["n"]] * 3:
            ctx.violation("model:length", dict(replay, model_n=r["n"]), seam=seam)
        if not all(close(x, r["dt"]) for x in im["dt"]):
            ctx.violation("model:time-step", dict(replay, model_dt=r["dt"]), seam=seam)
        if not deg_close(im["deg"], r["deg"]) or not (0 <= im["deg"] < 360 or c["deg"] is not None):
            ctx.violation("model:orientation", dict(replay, model_deg=r["deg"]), seam=seam)
    else:
        r = parse_columns(m, as_rat=(kind == "mshark"))
        rr = rec["impl_rec"]
        tol = rec["tol"]
        ok = (same(rr.ns.amplitude, r["ns"], tol) and same(rr.ew.amplitude, r["ew"], tol) and same(rr.vt.amplitude, r["vt"], tol))
        if not ok:
            ctx.violation("model:components", dict(replay, model_n=r["n"]), seam=seam)
        if not all(close(x, r["dt"]) for x in im["dt"]):
            ctx.violation("model:time-step", dict(replay, model_dt=r["dt"]), seam=seam)
        if not deg_close(im["deg"], r["deg"]):
            ctx.violation("model:orientation", dict(replay, model_deg=r["deg"]), seam=seam)
    # dispatch probe
    if "dline" in rec:
        ctx.supporting["dispatch_probes"] = ctx.supporting.get("dispatch_probes", 0) + 1
        dm = parse_model(outs[rec["dline"]])
        vec = rec["dispatch_vec"]
        ctx.count("dispatch_vec:" + "".join("1" if b else "0" for b in vec))
        if dm["st"] != "ok":
            ctx.violation("model:dispatch", dict(replay, dispatch_vec=vec, model=dm.get("raw")), seam="hvsrpy.read_single")
        else:
            k = int(dm["t"][0])
            winner = rec["dispatch_outs"][k]
            if winner[0] != "ok" or not rec_equal(winner[1], rec["impl_rec"]):
                ctx.violation("model:dispatch", dict(replay, dispatch_vec=vec, model_winner=READERS[k]), seam="hvsrpy.read_single")


def saf_rule_blocks(c):
    """the code's NORTH_ROT precondition (CH1 must be a horizontal when NORTH_ROT is used); such files are judged by the model only"""
    return c["deg"] is None and c.get("rot") is not None and c["chan"][1] == "V"


def nontrivial_single(c):
    kind = c["kind"]
    if c.get("err") or c.get("tie"):
        return True
    if c["deg"] is not None:
        return True
    if kind == "obspy":
        return c["perm"] != "NEZ"
    if kind == "saf":
        return c["chan"] != "VNE" or (c.get("rot") or 0) != 0
    if kind == "peer":
        return c["order"] != [0, 1, 2] or any(f[0].isdigit() and int(f[0]) % 360 != 0 and f[0] not in ("090", "90") for f in c["files"])
    return False


def canon(c):
    return {k: v for k, v in c.items() if k not in ("probe_dispatch", "probe_reader")}


# ----------------------------------------------------------------------------
# read(): argument matrix
def gen_matrix(rng, force=None):
    k = int(rng.integers(1, 5))
    recs = []
    for i in range(k):
        r = rng.random()
        if r < 0.6:
            sub = gen_obspy(rng, "mseed1")
            sub["io"] = "path"
            for t in sub["traces"]:
                t[2] = FS_MATRIX
        elif r < 0.8:
            sub = gen_saf(rng)
            sub["io"] = "path"
            if sub["chan"][1] == "V":
                sub["chan"] = "VNE"
        else:
            sub = gen_peer(rng)
            sub["io"] = "path"
        sub["deg"] = None
        sub["wrap"] = False
        n = sub["traces"][0][1] if sub["kind"] == "obspy" else sub["n"] if sub["kind"] == "saf" else min(f[1] for f in sub["files"])
        sub["nfull"] = n
        recs.append(sub)
    kwm = force[0] if force else pick(rng, ["none", "scalar", "list", "tuple", "list_none", "short", "long"])
    dgm = force[1] if force else pick(rng, ["none", "scalar", "scalar_int", "list", "tuple", "list_none", "short", "long", "array"])

    def keep(i):
        return int(rng.integers(5, 45))

    if kwm == "none":
        kw = ["none"]
    elif kwm == "scalar":
        kw = ["scalar", keep(0)]
    else:
        m = k if kwm in ("list", "tuple", "list_none") else (k - 1 if kwm == "short" else k + 2)
        kw = ["tuple" if kwm == "tuple" else "list", [None if (kwm == "list_none" or rng.random() < 0.2) else keep(i) for i in range(m)]]
    if dgm == "none":
        dg = ["none"]
    elif dgm == "scalar":
        dg = ["scalar", float(np.round(rng.uniform(-100, 500), 2))]
    elif dgm == "scalar_int":
        dg = ["scalar", int(rng.integers(-90, 400))]
    else:
        m = k if dgm in ("list", "tuple", "list_none", "array") else (k - 1 if dgm == "short" else k + 2)
        dg = [{"tuple": "tuple", "array": "array"}.get(dgm, "list"),
              [None if (dgm == "list_none" and rng.random() < 0.5) else float(np.round(rng.uniform(-100, 500), 2)) for i in range(m)]]
    return dict(kind="matrix", recs=recs, kw=kw, dg=dg, wrapall=bool(rng.random() < 0.3), as_tuple=bool(rng.random() < 0.2))


def spec_tok(s):
    if s[0] == "none":
        return "none"
    if s[0] == "scalar":
        return "scalar"
    return f"list {len(s[1])}"


def run_matrix(ctx, c, mline_out):
    import hvsrpy
    from obspy import UTCDateTime
    files = []
    rec = dict(case=c)
    try:
        args, srcs, tols, fss = [], [], [], []
        for sub in c["recs"]:
            if sub["kind"] == "obspy":
                arg, fl, arrs, _t = build_obspy(sub)
                if _t == "roundtrip":
                    raise InfraError("obspy MSEED write/read round trip failed")
                src, tol = [a.astype(float) for a in arrs], 0.0
            elif sub["kind"] == "saf":
                arg, fl, rows, _l = build_saf(sub)
                src, tol = [rows[:, j].astype(float) for j in range(3)], F32
            else:
                arg, fl, data, _l = build_peer(sub)
                src, tol = data, 0.0
            files += fl
            args.append([arg] if (c["wrapall"] and not isinstance(arg, list)) else arg)
            srcs.append(src)
            tols.append(tol)

        # a kwargs entry keeps the first m samples: endtime = t0 + (m-1)/fs with fs = FS_MATRIX for every obspy recording of the matrix
        def resolve(m):
            if m is None:
                return None
            return {"format": "MSEED", "endtime": UTCDateTime(*T0) + (m - 1) / FS_MATRIX}

        kw = c["kw"]
        if kw[0] == "none":
            kwarg = None
        elif kw[0] == "scalar":
            kwarg = resolve(kw[1])
        else:
            kwarg = [resolve(m) for m in kw[1]]
            if kw[0] == "tuple":
                kwarg = tuple(kwarg)
        dg = c["dg"]
        if dg[0] == "none":
            dgarg = None
        elif dg[0] == "scalar":
            dgarg = dg[1]
        elif dg[0] == "tuple":
            dgarg = tuple(dg[1])
        elif dg[0] == "array":
            dgarg = np.array(dg[1], dtype=float)
        else:
            dgarg = list(dg[1])
        fn = tuple(args) if c["as_tuple"] else args
        try:
            with quiet():
                out = hvsrpy.read(fn, obspy_read_kwargs=kwarg, degrees_from_north=dgarg)
            rec["impl_status"] = "ok"
            rec["impl"] = [rec_summary(r, srcs[i], tols[i]) if i < len(srcs) else None for i, r in enumerate(out)]
        except Exception as e:
            rec["impl_status"] = "err"
            rec["impl"] = ekind(e)
    finally:
        rm(files)
    rec["mline"] = len(mline_out)
    mline_out.append(f"readers.broadcast {len(c['recs'])} {spec_tok(c['kw'])} {spec_tok(c['dg'])}")
    return rec


FS_MATRIX = 100.0


def file_deg(sub):
    """orientation the file's own metadata gives (used only for recordings read without an explicit value)"""
    if sub["kind"] == "obspy":
        return 0.0
    if sub["kind"] == "saf":
        if sub.get("rot") is None:
            return 0.0
        return norm360(sub["rot"] if sub["chan"][1] == "N" else sub["rot"] + 90)
    return None     # peer: compared in the single-recording stream


def check_matrix(ctx, rec, outs):
    c = rec["case"]
    k = len(c["recs"])
    ctx.traces += 1
    ctx.count("matrix:kw=" + c["kw"][0] + ("" if c["kw"][0] in ("none", "scalar") else ("=" if len(c["kw"][1]) == k else "<" if len(c["kw"][1]) < k else ">")))
    ctx.count("matrix:deg=" + c["dg"][0] + ("" if c["dg"][0] in ("none", "scalar") else ("=" if len(c["dg"][1]) == k else "<" if len(c["dg"][1]) < k else ">")))
    m = parse_model(outs[rec["mline"]])
    replay = dict(case=c, impl_status=rec["impl_status"], impl=rec["impl"], model=m.get("raw", outs[rec["mline"]][:300]))
    seam = "hvsrpy.read (argument broadcasting)"
    if m["st"] != "ok":
        raise InfraError("driver answered: " + outs[rec["mline"]][:200])
    t = m["t"]
    cnt = int(t[0])
    tags = [(t[1 + 2 * i], t[2 + 2 * i]) for i in range(cnt)]
    full = (c["kw"][0] in ("none", "scalar") or len(c["kw"][1]) == k) and (c["dg"][0] in ("none", "scalar") or len(c["dg"][1]) == k)
    # what each recording must receive, from the model's tags
    def val(spec, tag):
        if tag == "none":
            return None
        if tag == "s":
            return spec[1]
        return spec[1][int(tag)]
    # property-direct expectation (independent of the model) when the arguments have one entry per recording
    if full:
        ctx.supporting["broadcast_oracle_cases"] = ctx.supporting.get("broadcast_oracle_cases", 0) + 1
        direct = []
        for i in range(k):
            kwv = None if c["kw"][0] == "none" else c["kw"][1] if c["kw"][0] == "scalar" else c["kw"][1][i]
            dgv = None if c["dg"][0] == "none" else c["dg"][1] if c["dg"][0] == "scalar" else c["dg"][1][i]
            direct.append((kwv, dgv))
        model_vals = [(val(c["kw"], a), val(c["dg"], b)) for a, b in tags]
        if cnt != k or model_vals != direct:
            ctx.violation("model:broadcast-spec", dict(replay, expected=direct), found_input=False, seam=seam)
    if rec["impl_status"] != "ok":
        # a mis-sized kwargs/deg list only truncates (zip); an exception here is a broadcasting failure
        ctx.violation("each-recording-gets-its-own-arguments", dict(replay, expected_recordings=cnt), seam=seam)
        return
    im = rec["impl"]
    if len(im) != cnt:
        ctx.violation("each-recording-gets-its-own-arguments:count" if full else "model:broadcast-length", dict(replay, expected_recordings=cnt), seam=seam)
        return
    for i, (a, b) in enumerate(tags):
        sub = c["recs"][i]
        kwv, dgv = val(c["kw"], a), val(c["dg"], b)
        s = im[i]
        # in order: recording i holds the samples of entry i
        if -1 in (s["ns"], s["ew"], s["vt"]) or len({s["ns"], s["ew"], s["vt"]}) != 3:
            ctx.violation("recordings-in-order", dict(replay, index=i), seam=seam)
            continue
        en = sub["nfull"]
        if kwv is not None and sub["kind"] == "obspy":
            en = min(en, kwv)      # endtime = t0 + (m-1)/fs keeps the first m samples
        if s["n"] != [en] * 3:
            ctx.violation("each-recording-gets-its-own-reader-options", dict(replay, index=i, expected_n=en, kwargs_keep=kwv), seam=seam)
        if dgv is not None:
            if not deg_close(s["deg"], norm360(dgv)):
                ctx.violation("each-recording-gets-its-own-degrees-from-north", dict(replay, index=i, expected_deg=norm360(dgv)), seam=seam)
        else:
            fd = file_deg(sub)
            if fd is not None and not deg_close(s["deg"], fd):
                ctx.violation("each-recording-gets-its-own-degrees-from-north", dict(replay, index=i, expected_deg=fd, source="file metadata"), seam=seam)


# ----------------------------------------------------------------------------
# special streams: junk files, polyglot (dispatch order observable)
def run_junk(ctx, rng, j):
    import hvsrpy
    kind = ["random", "empty", "text", "missing", "headeronly_saf", "html", "nul"][j % 7]
    f = fresh("bin")
    if kind == "random":
        with open(f, "wb") as fh:
            fh.write(rng.bytes(int(rng.integers(1, 5000))))
    elif kind == "empty":
        open(f, "wb").close()
    elif kind == "text":
        with open(f, "w") as fh:
            fh.write("station log\n1 2 3\n4\t5\t6\n" * int(rng.integers(1, 30)))
    elif kind == "headeronly_saf":
        with open(f, "w") as fh:
            fh.write("SESAME ASCII data format (saf) v. 1\nSAMP_FREQ = 100\n")
    elif kind == "html":
        with open(f, "w") as fh:
            fh.write("<html><body>404 not found</body></html>\n")
    elif kind == "nul":
        with open(f, "wb") as fh:
            fh.write(b"\0" * int(rng.integers(1, 4000)))
    shape = ["single", "triple", "wrapped"][(j // 7) % 3]
    arg = f if shape == "single" else [f, f, f] if shape == "triple" else [f]
    c = dict(kind="junk", junk=kind, shape=shape)
    try:
        try:
            with quiet():
                out = hvsrpy.read([arg])
            st = "ok"
        except Exception as e:
            st = "err:" + ekind(e)
    finally:
        rm([f])
    ctx.case(("junk", kind, shape, j), True, sample=None)
    ctx.count("fmt:junk")
    ctx.count("stream:error:junk-" + kind)
    ctx.supporting["must_raise_cases"] = ctx.supporting.get("must_raise_cases", 0) + 1
    if st == "ok":
        ctx.violation("error-instead-of-recording:unrecognised", dict(case=c, impl_status=st, expected="an exception"), seam="hvsrpy.read_single")
    return [0, 0, 0, 0, 0, 0]


def run_rewrite(ctx, rng, j):
    """a file of a text format is read, REWRITTEN under the same name, and read again: the second read returns what the file holds NOW (compared with the same
    text written under a fresh name), whether the first read was refused (sample count vs header, duplicated channel) or succeeded -- and a refused read in
    between changes nothing for a file that was not touched"""
    import shutil
    kind = ["saf", "mshark", "peer"][j % 3]
    gen, build = {"saf": (gen_saf, build_saf), "mshark": (gen_mshark, build_mshark), "peer": (gen_peer, build_peer)}[kind]
    first_err = [None, "ndat_more", "ndat_less"][(j // 3) % 3] if kind != "peer" else [None, "npts_more", "npts_less"][(j // 3) % 3]
    if kind == "peer" and first_err not in (None,) + tuple(PEER_ERRS):
        first_err = PEER_ERRS[(j // 3) % len(PEER_ERRS)]
    c1 = gen(rng, err=first_err); c1["io"] = "path"; c1["wrap"] = False
    c2 = gen(rng); c2["io"] = "path"; c2["wrap"] = False
    if kind == "peer":
        c2["files"] = c2["files"][:len(c1["files"])] if len(c2["files"]) >= len(c1["files"]) else c2["files"]
    files = []
    c = dict(kind="rewrite", fmt=kind, first=c1, second=c2)
    try:
        arg1, f1, _, _ = build(c1)
        files += f1
        arg2, f2, _, _ = build(c2)
        files += f2
        if len(f1) != len(f2) or not f1:
            ctx.count("rewrite:skipped-unequal-file-count")
            return
        st1 = call_read(arg1, c1["deg"])
        for src, dst in zip(f2, f1):
            shutil.copyfile(src, dst)                                 # the second text under the names of the first ...
        again = call_read(arg1, c2["deg"])                            # (read before any other read succeeds: nothing in between may clear what the first left)
        fresh_read = call_read(arg2, c2["deg"])                       # ... and under fresh names
        ctx.count("rewrite:%s:first-%s:second-%s" % (kind, st1[0], fresh_read[0]))
        ctx.case(("rewrite", kind, j, canon(c1), canon(c2)), True, sample=None)
        ctx.supporting["rewritten_file_cases"] = ctx.supporting.get("rewritten_file_cases", 0) + 1
        ok = (again[0] == fresh_read[0]) and (again[0] != "ok" or rec_equal(again[1], fresh_read[1])) and (again[0] == "ok" or again[1] == fresh_read[1])
        if not ok:
            ctx.violation("file-read-as-it-now-stands", dict(case=c, first_read=st1[0] if st1[0] != "err" else st1, rewritten_read=again[0] if again[0] == "ok" else again,
                                                             same_text_under_fresh_name=fresh_read[0] if fresh_read[0] == "ok" else fresh_read,
                                                             note="the file was rewritten under the same name between the two reads"), seam="hvsrpy.read twice on one path")
    finally:
        rm(files)


def polyglot_case(rng):
    """one text that is both a SAF and a MiniShark file (tab separated rows satisfy both row expressions): the two
    readers return different samples (MiniShark divides by gain and conversion), so the dispatch order is observable"""
    n = int(rng.integers(50, 150))
    return dict(kind="polyglot", n=n, fs=int(pick(rng, [100, 200, 250])), gain=int(pick(rng, [2, 4, 8])), conv=int(pick(rng, [10, 1000, 65536])),
                chan="".join(pick(rng, [("V", "N", "E"), ("V", "E", "N")])), rot=int(pick(rng, [0, 30, 90])), dseed=int(rng.integers(0, 2 ** 31)),
                lim=2 ** 20, deg=None, nl="lf")


def run_polyglot(ctx, c, mline_out):
    rng = np.random.default_rng(c["dseed"])
    rows = rng.integers(-c["lim"], c["lim"] + 1, (c["n"], 3)).astype(np.int64)
    saf = saf_text(dict(c, ndat=c["n"], sep="\t", pad=False), rows)
    head = saf[:saf.index("####")]
    body = saf[saf.index("####"):]
    ms = "\n".join([f"#Sample rate (sps):\t{c['fs']}", f"#Sample number:\t{c['n']}", f"#Conversion factor:\t{c['conv']}", f"#Gain:\t{c['gain']}"]) + "\n"
    f = fresh("txt")
    with open(f, "w", newline="") as fh:
        fh.write(head + ms + body)
    rec = dict(case=c)
    try:
        im = call_read(f, None)
        outs = [call_reader(name, f, None) for name in READERS]
    finally:
        rm([f])
    rec["impl_status"] = im[0]
    rec["impl_rec"] = im[1] if im[0] == "ok" else None
    rec["impl"] = im[1] if im[0] != "ok" else "recording"
    rec["dispatch_vec"] = [o[0] == "ok" for o in outs]
    rec["dispatch_outs"] = outs
    rec["dline"] = len(mline_out)
    mline_out.append("readers.dispatch " + " ".join("1" if b else "0" for b in rec["dispatch_vec"]))
    return rec


def check_polyglot(ctx, rec, outs):
    c = rec["case"]
    ctx.traces += 1
    ctx.count("fmt:polyglot-saf+minishark")
    vec = rec["dispatch_vec"]
    ctx.count("dispatch_vec:" + "".join("1" if b else "0" for b in vec))
    ctx.supporting["dispatch_probes"] = ctx.supporting.get("dispatch_probes", 0) + 1
    dm = parse_model(outs[rec["dline"]])
    replay = dict(case=c, impl_status=rec["impl_status"], dispatch_vec=vec, model=dm.get("raw"))
    if vec[1:3] != [True, True]:
        ctx.count("polyglot:not-ambiguous")
    if dm["st"] != "ok" or rec["impl_status"] != "ok":
        ctx.violation("model:dispatch", replay, seam="hvsrpy.read_single")
        return
    k = int(dm["t"][0])
    w = rec["dispatch_outs"][k]
    if w[0] != "ok" or not rec_equal(w[1], rec["impl_rec"]):
        ctx.violation("model:dispatch", dict(replay, model_winner=READERS[k]), seam="hvsrpy.read_single")


# ----------------------------------------------------------------------------
OBSPY_FMTS = ["mseed1", "mseed3", "sac_le", "sac_be", "sac_mix", "gcf"]
OBSPY_ERRS = ["dup", "other", "lower", "two", "four", "len", "fs", "cut"]
SAF_ERRS = ["ndat_more", "ndat_less", "no_version", "no_ndat", "no_fs", "dup_chan", "onebased", "sep"]
MSHARK_ERRS = ["ndat_more", "ndat_less", "no_gain", "no_conv", "no_ndat", "no_fs"]
PEER_ERRS = ["npts_more", "npts_less", "dt", "dup", "novert", "mixed", "badkey", "two"]
MATRIX_KW = ["none", "scalar", "list", "tuple", "list_none"]
MATRIX_DG = ["none", "scalar", "scalar_int", "list", "tuple", "list_none", "array"]


def ensure_driver():
    exe = os.path.join(LEAN, ".lake", "build", "bin", EXE)
    rc, log = lake(["build", EXE])
    if rc != 0 or not os.path.exists(exe):
        raise InfraError("cannot build " + EXE + ":\n" + log[-2000:])


def witness_c07b(rng):
    """fixed witnesses of the PEER equal-distance defect (runs first on every run)"""
    cs = []
    for keys in (["UP", "135", "225"], ["UP", "225", "135"], ["090", "VER", "270"]):
        cs.append(dict(kind="peer", files=[[k, 60, 60, ".0100"] for k in keys], style="fortran", nl="lf", io="path", dseed=7, deg=None,
                       err=None, order=[0, 1, 2], tie=True, witness="C07-b"))
    return cs


def run(ctx):
    ctx.rule = ("cases = generated files of every format (mseed one/three files, sac little/big endian, gcf via obspy writers; saf, minishark, "
                "peer rendered with LF/CRLF, as path, pathlib.Path or in-memory text), all 6 trace/file orders, 9 channel prefixes, int32/float32 "
                "samples, 50-2000 samples, 7-12 sampling rates, explicit/absent degrees_from_north; error streams: sample count vs header, "
                "missing/duplicated/misnamed component, unequal lengths or rates, truncated and junk files; read() argument matrix over "
                "scalar/list/tuple/None for both optional arguments on 1-4 mixed-format recordings; polyglot SAF+MiniShark text for the "
                "dispatch order. non-trivial = trace/file/column order differs from the canonical (N,E,Z)/(V,N,E) order, or an error branch, "
                "or an orientation that does not come from the default (explicit value, NORTH_ROT != 0, PEER azimuth code); distinct by case hash")
    ctx.trusted += ["obspy encode/decode pair for MSEED, SAC, GCF (files are written with obspy's writers; the token stream handed to the model "
                    "is obspy's own header-only decode)",
                    "Python `re` and `open(..., 'r')` universal-newline translation (the harness tokenises its own renderings; the regular "
                    "expressions of regex.py are tied by the table extractor only)",
                    "numpy float32 storage/division (model computes MiniShark scaling in exact rationals; compared to 4 half-ulps of single precision)"]
    ctx.assumptions += ["SAF/MiniShark sampling rates are integers (SAMP_FREQ/#Sample rate expressions accept digits only)",
                        "MiniShark gain and conversion factor are non-zero",
                        "PEER numeric azimuth codes of the two horizontals have different distances from north (the equal-distance case is "
                        "reported separately: clause peer-horizontals-distinct)"]
    ctx.notes += ["finding C07-b (clause peer-horizontals-distinct, replay flag peer_equal_distance): _read_peer with numeric azimuth codes "
                  "whose distances from north are equal (135/225, 90/270, the same code twice) or with a single horizontal file returns a "
                  "recording whose ns and ew are the same file; the other file is dropped and the result depends on the file order",
                  "observation (not a finding, the property text has no clause on it): _read_saf uses NORTH_ROT + 90 when CH1 is the east "
                  "component; if NORTH_ROT is the azimuth of CH1, the north component then points to NORTH_ROT - 90",
                  "observation: SAMP_FREQ / '#Sample rate' accept digits only, a fractional rate makes the file unreadable"]
    ensure_driver()
    rng = np.random.default_rng(ctx.seed)
    singles = []
    # corpus first
    for cc in load_corpus("C07"):
        if isinstance(cc.get("case"), dict) and cc["case"].get("kind") in ("obspy", "saf", "mshark", "peer"):
            singles.append(dict(cc["case"], corpus=True))
    ctx.count("corpus_cases", len(load_corpus("C07")))
    singles += witness_c07b(rng)
    # valid streams: every format x all 6 orders at least once
    n_valid = ctx.budget(9, 60)
    for fmt in OBSPY_FMTS:
        for perm in PERMS:
            for _ in range(n_valid if perm != "NEZ" else max(1, n_valid // 3)):
                c = gen_obspy(rng, fmt)
                c["perm"] = perm
                for t, x, q in zip(c["traces"], perm, c.get("prefixes", [c["prefix"]] * 3)):
                    t[0] = q + x
                singles.append(c)
    for chan in itertools.permutations("VNE"):
        for _ in range(ctx.budget(20, 150)):
            c = gen_saf(rng)
            c["chan"] = "".join(chan)
            singles.append(c)
    for _ in range(ctx.budget(100, 800)):
        singles.append(gen_mshark(rng))
    for _ in range(ctx.budget(200, 1500)):
        singles.append(gen_peer(rng))
    for _ in range(ctx.budget(12, 80)):
        singles.append(peer_tie_case(rng, dup=bool(rng.random() < 0.4)))
    # error streams
    ne = ctx.budget(5, 30)
    for fmt in OBSPY_FMTS:
        for e in OBSPY_ERRS:
            for _ in range(ne):
                singles.append(gen_obspy(rng, fmt, err=e))
    for e in SAF_ERRS:
        for _ in range(ctx.budget(10, 80)):
            singles.append(gen_saf(rng, err=e))
    for e in MSHARK_ERRS:
        for _ in range(ctx.budget(10, 80)):
            singles.append(gen_mshark(rng, err=e))
    for e in PEER_ERRS:
        for _ in range(ctx.budget(10, 80)):
            singles.append(gen_peer(rng, err=e))
    # dispatch probes on a subset of the valid cases
    valid_idx = [i for i, c in enumerate(singles) if not c.get("err") and not c.get("tie") and c.get("io") != "memory"]
    for i in rng.permutation(valid_idx)[:ctx.budget(150, 1000)]:
        singles[int(i)]["probe_dispatch"] = True

    lines = []
    recs = [r for r in (run_single(ctx, c, lines) for c in singles) if r is not None]
    # argument matrix: every scalar/list combination at least once, then random
    mats = []
    for a in MATRIX_KW:
        for b in MATRIX_DG:
            for _ in range(ctx.budget(3, 20)):
                mats.append(gen_matrix(rng, force=(a, b)))
    for _ in range(ctx.budget(100, 1000)):
        mats.append(gen_matrix(rng))
    for cc in load_corpus("C07"):
        if isinstance(cc.get("case"), dict) and cc["case"].get("kind") == "matrix":
            mats.insert(0, cc["case"])
    mrecs = [run_matrix(ctx, c, lines) for c in mats]
    polys = [run_polyglot(ctx, polyglot_case(rng), lines) for _ in range(ctx.budget(20, 150))]
    for j in range(ctx.budget(42, 420)):
        run_junk(ctx, rng, j)
    for j in range(ctx.budget(27, 180)):
        run_rewrite(ctx, rng, j)
    lines.append("readers.dispatch 0 0 0 0 0 0")
    outs = run_driver(lines, exe=EXE)
    if not outs[-1].startswith("err"):
        ctx.violation("model:dispatch", dict(case="all readers fail", model=outs[-1]), found_input=False, seam="readers.dispatch")
    for rec in recs:
        c = rec["case"]
        sample = None
        if len(ctx.samples) < 5 and rec["impl_status"] == "ok":
            sample = dict(case={k: v for k, v in c.items() if k != "traces" or len(str(v)) < 300}, impl=rec["impl"],
                          model=outs[rec["mline"]][:120] if "mline" in rec else None)
        ctx.case(canon(c), nontrivial_single(c), sample=sample)
        check_single(ctx, rec, outs)
    for rec in mrecs:
        c = rec["case"]
        k = len(c["recs"])
        ctx.case(canon(c), True if (c["kw"][0] != "none" or c["dg"][0] != "none") else False,
                 sample=None)
        check_matrix(ctx, rec, outs)
    for rec in polys:
        ctx.case(canon(rec["case"]), True)
        check_polyglot(ctx, rec, outs)


def replay(case):
    ensure_driver()
    lines = []
    ctx = Ctx("C07", "quick", 0)
    if case.get("kind") == "matrix":
        rec = run_matrix(ctx, case, lines)
        outs = run_driver(lines, exe=EXE)
        check_matrix(ctx, rec, outs)
    elif case.get("kind") == "polyglot":
        rec = run_polyglot(ctx, case, lines)
        outs = run_driver(lines, exe=EXE)
        check_polyglot(ctx, rec, outs)
    else:
        rec = run_single(ctx, case, lines)
        if rec is None:
            cleanup()
            return dict(discarded="obspy's own write/read round trip fails on this case")
        outs = run_driver(lines, exe=EXE)
        check_single(ctx, rec, outs)
    cleanup()
    return dict(impl_status=rec.get("impl_status"), impl=rec.get("impl") if not isinstance(rec.get("impl"), dict) else rec.get("impl"),
                model=[o[:400] for o in outs], violations=[dict(clause=v["clause"]) for v in ctx.violations])
