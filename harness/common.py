"""Shared machinery of the correspondence harness.

Run with /venv/bin/python (hvsrpy is imported from HVSRPY_SRC or /repo).
"""
import os
import sys
import json
import time
import struct
import fcntl
import hashlib
import shutil
import re
import subprocess
import contextlib
import io
import warnings

VERIF = os.path.dirname(os.path.dirname(os.path.abspath(__file__)))
LEAN = os.path.join(VERIF, "lean")
REPO = os.environ.get("HVSRPY_SRC", "/repo")
HARNESS = os.path.join(VERIF, "harness")
DRIVER = os.path.join(LEAN, ".lake", "build", "bin", "hvsrdrv")
WORK = os.path.join(VERIF, ".work", str(os.getpid()))

os.environ.setdefault("NUMBA_CACHE_DIR", os.path.join(VERIF, ".cache", "numba"))
os.environ.setdefault("MPLBACKEND", "Agg")
os.environ.setdefault("MPLCONFIGDIR", os.path.join(VERIF, ".cache", "mpl"))
os.environ["HVSRPY_VERIF"] = "1"
os.makedirs(os.environ["NUMBA_CACHE_DIR"], exist_ok=True)
os.makedirs(os.environ["MPLCONFIGDIR"], exist_ok=True)
sys.dont_write_bytecode = True
if REPO not in sys.path:
    sys.path.insert(0, REPO)
warnings.filterwarnings("ignore")

STD_AXIOMS = {"propext", "Classical.choice", "Quot.sound"}
TRUSTED_GLOBAL = [
    "Lean 4.33 kernel; axioms propext, Classical.choice, Quot.sound only (audited with #print axioms on every run)",
    "correspondence harness (this Python code), driver glue (Proto.lean/Drv/*.lean), float<->bit-pattern conversion",
    "Lean Float = IEEE double for + - * / sqrt; libm for exp/log/sin/cos; theorems are over Real and do not speak about rounding",
    "numpy/CPython semantics mirrored by the models (argmin/argmax first occurrence, slicing, dict order, round-half-even)",
]


# ----------------------------------------------------------------------------
# floats on the wire
def hexf(x):
    return struct.pack(">d", float(x)).hex()


def unhex(s):
    return struct.unpack(">d", bytes.fromhex(s))[0]


def fopt(x):
    return "none" if x is None else hexf(x)


def fvec(v):
    v = list(v)
    return " ".join([str(len(v))] + [hexf(x) for x in v])


def fmat(m):
    m = list(m)
    return " ".join([str(len(m))] + [fvec(r) for r in m])


def fbvec(v):
    v = list(v)
    return " ".join([str(len(v))] + ["1" if b else "0" for b in v])


def fnvec(v):
    v = list(v)
    return " ".join([str(len(v))] + [str(int(b)) for b in v])


class Toks:
    """reader for a driver answer line"""

    def __init__(self, line):
        self.t = line.split()
        self.i = 0

    def tok(self):
        t = self.t[self.i]
        self.i += 1
        return t

    def nat(self):
        return int(self.tok())

    def flt(self):
        return unhex(self.tok())

    def oflt(self):
        t = self.tok()
        return None if t == "none" else unhex(t)

    def bool(self):
        return self.tok() == "1"

    def vec(self):
        return [self.flt() for _ in range(self.nat())]

    def ovec(self):
        return [self.oflt() for _ in range(self.nat())]

    def bvec(self):
        return [self.bool() for _ in range(self.nat())]

    def nvec(self):
        return [self.nat() for _ in range(self.nat())]

    def mat(self):
        return [self.vec() for _ in range(self.nat())]

    def rest(self):
        return self.t[self.i:]

    def done(self):
        return self.i >= len(self.t)


def run_driver(lines, exe="hvsrdrv"):
    """Send all request lines to a native driver, return the answer lines (1:1)."""
    if not lines:
        return []
    data = ("\n".join(lines) + "\n").encode()
    p = subprocess.run([os.path.join(LEAN, ".lake", "build", "bin", exe)], input=data, stdout=subprocess.PIPE, stderr=subprocess.PIPE)
    if p.returncode != 0:
        raise InfraError(f"driver exited with {p.returncode}: {p.stderr.decode()[:500]}")
    out = p.stdout.decode().split("\n")
    if out and out[-1] == "":
        out.pop()
    if len(out) != len(lines):
        raise InfraError(f"driver returned {len(out)} lines for {len(lines)} requests")
    return out


class InfraError(Exception):
    pass


# ----------------------------------------------------------------------------
# numeric comparison rules (DESIGN 2.3) -- fixed, never loosened to quiet a check
RTOL = 1e-9
ATOL_SCALE = 1e-12
MARGIN = 1e-7


def close(a, b, scale=1.0, rtol=RTOL):
    if a is None or b is None:
        return a is None and b is None
    if a != a or b != b:  # NaN
        return (a != a) and (b != b)
    if a == b:
        return True
    return abs(a - b) <= rtol * max(abs(a), abs(b)) + ATOL_SCALE * scale


def vclose(a, b, scale=1.0, rtol=RTOL):
    a = list(a)
    b = list(b)
    return len(a) == len(b) and all(close(x, y, scale, rtol) for x, y in zip(a, b))


def sha8(obj):
    return hashlib.sha256(json.dumps(obj, sort_keys=True, default=str).encode()).hexdigest()[:8]


# ----------------------------------------------------------------------------
# lean: build, audit
@contextlib.contextmanager
def lake_lock():
    os.makedirs(os.path.join(VERIF, ".cache"), exist_ok=True)
    with open(os.path.join(VERIF, ".cache", "lake.lock"), "w") as f:
        fcntl.flock(f, fcntl.LOCK_EX)
        try:
            yield
        finally:
            fcntl.flock(f, fcntl.LOCK_UN)


def lake(args, timeout=3000):
    with lake_lock():
        p = subprocess.run(["lake"] + args, cwd=LEAN, stdout=subprocess.PIPE, stderr=subprocess.STDOUT,
                           timeout=timeout)
    return p.returncode, p.stdout.decode(errors="replace")


def regenerate_tables():
    """Re-extract the tables from /repo's working tree into Generated/Tables.lean.
    Returns the dict of extracted tables (value None = extractor could not find it)."""
    sys.path.insert(0, os.path.join(VERIF, "tools"))
    import extract_tables
    tables, text = extract_tables.extract(REPO)
    path = os.path.join(LEAN, "HvsrVerif", "Generated", "Tables.lean")
    old = None
    if os.path.exists(path):
        with open(path) as f:
            old = f.read()
    if old != text:
        with lake_lock():
            with open(path, "w") as f:
                f.write(text)
    # the scalar kernels translated from the Python source (tools/py2lean.py): Generated/Py<group>.lean
    try:
        import py2lean
        with lake_lock():
            st = py2lean.write(REPO, LEAN)
        tables.update({k: (True if v == "translated" else None) for k, v in st.items()})
        tables["__py2lean_status__"] = st
    except Exception as e:
        tables["py2lean"] = None
        tables["__py2lean_status__"] = {"py2lean": f"unavailable: {type(e).__name__}: {e}"}
    # whole array functions translated from the Python source (tools/py2lean_vec.py): Generated/PyVec.lean
    try:
        import py2lean_vec
        with lake_lock():
            st = py2lean_vec.write(REPO, LEAN)
        tables.update({k: (True if v == "translated" else None) for k, v in st.items()})
        tables["__py2lean_status__"].update(st)
    except Exception as e:
        tables["py2lean_vec"] = None
        tables["__py2lean_status__"]["py2lean_vec"] = f"unavailable: {type(e).__name__}: {e}"
    return tables


_THM_RE = re.compile(r"^\s*(?:protected\s+)?theorem\s+([A-Za-z_][A-Za-z0-9_.'?!]*)", re.M)
_NS_RE = re.compile(r"^\s*namespace\s+([A-Za-z0-9_.]+)", re.M)


def strip_lean_comments(src):
    # remove block comments (nested) and line comments
    out = []
    depth = 0
    i = 0
    while i < len(src):
        if src.startswith("/-", i):
            depth += 1
            i += 2
        elif src.startswith("-/", i) and depth > 0:
            depth -= 1
            i += 2
        elif depth > 0:
            i += 1
        elif src.startswith("--", i):
            j = src.find("\n", i)
            i = len(src) if j < 0 else j
        else:
            out.append(src[i])
            i += 1
    return "".join(out)


FORBIDDEN = re.compile(r"\bsorry\b|\badmit\b|^\s*axiom\s|native_decide|bv_decide|implemented_by|\bunsafe\s|maxHeartbeats\s+0\b", re.M)


def grep_forbidden():
    hits = []
    for root, _, files in os.walk(os.path.join(LEAN, "HvsrVerif")):
        for fn in files:
            if fn.endswith(".lean"):
                p = os.path.join(root, fn)
                with open(p) as f:
                    src = strip_lean_comments(f.read())
                for m in FORBIDDEN.finditer(src):
                    hits.append(f"{os.path.relpath(p, LEAN)}: {m.group(0).strip()}")
    return hits


def theorem_names(module_file):
    with open(module_file) as f:
        src = strip_lean_comments(f.read())
    ns = _NS_RE.search(src)
    prefix = (ns.group(1) + ".") if ns else ""
    return [prefix + m.group(1) for m in _THM_RE.finditer(src)]


def audit(modules):
    """#print axioms on every theorem of the given modules (dotted names).
    Returns dict name -> list of axioms (or None when the audit could not see it)."""
    os.makedirs(WORK, exist_ok=True)
    names = []
    for mod in modules:
        path = os.path.join(LEAN, *mod.split(".")) + ".lean"
        if os.path.exists(path):
            names += theorem_names(path)
    src = "".join(f"import {m}\n" for m in modules) + "".join(f"#print axioms {n}\n" for n in names)
    fn = os.path.join(WORK, "Audit.lean")
    with open(fn, "w") as f:
        f.write(src)
    with lake_lock():
        p = subprocess.run(["lake", "env", "lean", fn], cwd=LEAN, stdout=subprocess.PIPE, stderr=subprocess.STDOUT)
    out = p.stdout.decode(errors="replace")
    res = {n: None for n in names}
    for m in re.finditer(r"'(\S+)' depends on axioms: \[([^\]]*)\]", out):
        res[m.group(1)] = [a.strip() for a in m.group(2).replace("\n", " ").split(",") if a.strip()]
    for m in re.finditer(r"'(\S+)' does not depend on any axioms", out):
        res[m.group(1)] = []
    return res, out


# ----------------------------------------------------------------------------
# known findings
def load_corpus(prop):
    """minimised past disagreements (and witnesses of repaired defects): always run first"""
    d = os.path.join(VERIF, "corpus", prop)
    out = []
    if os.path.isdir(d):
        for fn in sorted(os.listdir(d)):
            if fn.endswith(".json"):
                with open(os.path.join(d, fn)) as f:
                    out.append(json.load(f))
    return out


def load_known():
    p = os.path.join(VERIF, "known_findings.json")
    if not os.path.exists(p):
        return []
    with open(p) as f:
        return json.load(f)


# ----------------------------------------------------------------------------
class Ctx:
    """Per-run context: counters, samples, violations, evidence."""

    def __init__(self, prop, tier, seed):
        self.prop = prop
        self.tier = tier
        self.seed = seed
        self.t0 = time.time()
        self.evaluations = 0
        self.nontrivial = set()
        self.samples = []
        self.dist = {}
        self.near_tie_skipped = 0
        self.traces = 0
        self.violations = []       # dicts
        self.known_hits = []
        self.supporting = {}
        self.notes = []
        self.partial_clauses = []
        self.t_tie = {}
        self.obligations = {}
        self.bridge = {}
        self.build_log = ""
        self.rule = ""
        self.trusted = []
        self.assumptions = []
        self.known = [k for k in load_known() if k.get("property") == prop]

    # -- bookkeeping
    def count(self, key, n=1):
        self.dist[key] = self.dist.get(key, 0) + n

    def case(self, canon, nontrivial, sample=None):
        """register one explored case; canon = canonical (hashable/json) form of the input"""
        self.evaluations += 1
        if nontrivial:
            self.nontrivial.add(sha8(canon))
        if sample is not None and len(self.samples) < 5:
            self.samples.append(sample)

    def quick(self):
        return self.tier != "thorough"

    def budget(self, quick, thorough):
        return quick if self.quick() else thorough

    # -- violations
    def violation(self, clause, replay, found_input=True, seam=None):
        """record a violation (deduplicated by clause); replay = json-able dict holding the failing input"""
        for k in self.known:
            if k.get("status") == "known" and k.get("clause") == clause and _match(k.get("matcher"), replay):
                if not any(h["id"] == k["id"] for h in self.known_hits):
                    self.known_hits.append(k)
                return
        if any(v["clause"] == clause for v in self.violations):
            self.count("violations_suppressed_duplicates")
            return
        self.violations.append(dict(clause=clause, replay=replay, found_input=found_input, seam=seam))

    def finish(self):
        """write evidence + replays, print lines, return exit code"""
        wall = time.time() - self.t0
        # VERIF_OUT (used by tools/selftest.py only): evidence and replays of runs against a mutated scratch tree go
        # elsewhere, so that the committed evidence always describes /repo itself
        OUT = os.environ.get("VERIF_OUT") or VERIF
        os.makedirs(os.path.join(OUT, "evidence"), exist_ok=True)
        n_obl = len(self.obligations) + len(self.bridge)
        n_ok = sum(1 for v in self.obligations.values() if v == "ok") + sum(1 for v in self.bridge.values() if v == "ok")
        # a broken obligation that produced no failing input is still a violation
        broken = [k for k, v in list(self.obligations.items()) + list(self.bridge.items()) if v != "ok"]
        if broken and not self.violations:
            self.violations.append(dict(clause="proof-obligation", found_input=False, seam=None,
                                        replay=dict(broken=broken, log_tail=self.build_log[-3000:])))
        lines = []
        for k in self.known_hits:
            lines.append(f"KNOWN-FINDING: property={self.prop} {k['id']} {k['summary']}")
        code = 0
        if self.violations:
            os.makedirs(os.path.join(OUT, "replays"), exist_ok=True)
        for v in self.violations:
            rp = dict(property=self.prop, clause=v["clause"], seam=v["seam"], seed=self.seed, tier=self.tier,
                      broken_obligations=broken, found_failing_input=v["found_input"], **v["replay"],
                      how_to_replay=f"./check {self.prop} --replay <this file>")
            name = f"replays/{self.prop}-{sha8(rp)}.json"
            with open(os.path.join(OUT, name), "w") as f:
                json.dump(rp, f, indent=1, default=str)
            tail = "" if v["found_input"] else " no-failing-input-found"
            lines.append(f"VIOLATION property={self.prop} replay={name}{tail}")
            code = 1
        ev = dict(
            property_id=self.prop, tier="thorough" if self.tier == "thorough" else "quick", seed=int(self.seed),
            level="proof",
            coverage=dict(
                obligations=max(n_obl, 1), discharged=n_ok,
                checker_cmd="cd lean && lake build HvsrVerif.Props.%s HvsrVerif.Bridge.%s && lake env lean <generated Audit.lean with #print axioms for every theorem>" % (self.prop, self.prop),
                trusted_base=TRUSTED_GLOBAL + self.trusted,
                theorems=self.obligations, bridge=self.bridge,
                evaluations=self.evaluations, distinct_nontrivial=len(self.nontrivial), rule=self.rule,
                samples=self.samples, traces_validated_against_impl=self.traces,
                near_tie_skipped=self.near_tie_skipped, input_distribution=self.dist,
                t_tie=self.t_tie, supporting_tests=self.supporting, partial_clauses=self.partial_clauses,
                known_findings_hit=[k["id"] for k in self.known_hits], notes=self.notes,
            ),
            assumptions=self.assumptions,
            wall_s=round(wall, 2), violations=len(self.violations),
        )
        with open(os.path.join(OUT, "evidence", f"{self.prop}.json"), "w") as f:
            json.dump(ev, f, indent=1, default=str)
        for ln in lines:
            print(ln)
        print(f"[{self.prop}] tier={self.tier} seed={self.seed} obligations={n_ok}/{n_obl} evaluations={self.evaluations} "
              f"nontrivial={len(self.nontrivial)} violations={len(self.violations)} known={len(self.known_hits)} wall={wall:.1f}s")
        return code


def _match(matcher, replay):
    """known-finding matcher: dict of key -> value that must equal replay[key] (dotted keys allowed)"""
    if not matcher:
        return False
    for k, want in matcher.items():
        cur = replay
        for part in k.split("."):
            if isinstance(cur, dict) and part in cur:
                cur = cur[part]
            else:
                return False
        if cur != want:
            return False
    return True


def lean_phase(ctx, prop_modules, bridge_modules):
    """tables -> build -> audit. Fills ctx.obligations / ctx.bridge. Raises InfraError if the driver cannot be built."""
    try:
        tables = regenerate_tables()
        pyst = tables.pop("__py2lean_status__", {})
        for k, v in tables.items():
            ctx.t_tie[k] = "extracted" if v is not None else "unavailable"
        for k, v in pyst.items():
            ctx.t_tie[k] = v
    except Exception as e:  # extractor failure is never an alarm
        ctx.t_tie["extractor"] = f"unavailable: {type(e).__name__}: {e}"
    rc, log = lake(["build", "hvsrdrv"])
    if rc != 0:
        raise InfraError("driver build failed:\n" + log[-3000:])
    bad = grep_forbidden()
    if bad:
        raise InfraError("forbidden constructs in Lean sources: " + "; ".join(bad))
    built = {}
    for mod in prop_modules + bridge_modules:
        rc, log = lake(["build", mod])
        built[mod] = rc == 0
        if rc != 0:
            ctx.build_log += log
    ok_mods = [m for m in prop_modules + bridge_modules if built[m]]
    ax, out = audit(ok_mods)
    if ctx.tier == "thorough" and ok_mods:
        # independent re-check of the compiled .olean files of the property and bridge modules
        with lake_lock():
            p = subprocess.run(["lake", "env", "leanchecker"] + ok_mods, cwd=LEAN, stdout=subprocess.PIPE, stderr=subprocess.STDOUT)
        ctx.supporting["leanchecker"] = "ok" if p.returncode == 0 else "FAILED: " + p.stdout.decode(errors="replace")[-300:]
        if p.returncode != 0:
            for mod in ok_mods:
                built[mod] = False
            ctx.build_log += p.stdout.decode(errors="replace")
    for mod in prop_modules + bridge_modules:
        path = os.path.join(LEAN, *mod.split(".")) + ".lean"
        names = theorem_names(path) if os.path.exists(path) else []
        tgt = ctx.bridge if mod in bridge_modules else ctx.obligations
        for n in names:
            if not built[mod]:
                tgt[n] = "build-failed"
            elif ax.get(n) is None:
                tgt[n] = "not-audited"
            elif not set(ax[n]) <= STD_AXIOMS:
                tgt[n] = "axioms:" + ",".join(ax[n])
            else:
                tgt[n] = "ok"
        if not names and not built[mod]:
            tgt[mod] = "build-failed"


def cleanup():
    shutil.rmtree(WORK, ignore_errors=True)


@contextlib.contextmanager
def quiet():
    buf = io.StringIO()
    with contextlib.redirect_stdout(buf):
        yield buf


def canon_result(r):
    """bit-exact, JSON-able form of an implementation result (floats as hex strings, arrays as nested lists)"""
    import numpy as _np
    if isinstance(r, dict):
        return {str(k): canon_result(v) for k, v in sorted(r.items(), key=lambda kv: str(kv[0]))}
    if isinstance(r, (list, tuple)):
        return [canon_result(v) for v in r]
    if isinstance(r, _np.ndarray):
        return canon_result(r.tolist())
    if isinstance(r, (float, _np.floating)):
        return float(r).hex() if r == r else "nan"
    if isinstance(r, (_np.integer,)):
        return int(r)
    if isinstance(r, (_np.bool_,)):
        return bool(r)
    if isinstance(r, (str, int, bool)) or r is None:
        return r
    return repr(type(r))


def reverse_order_probe(ctx, module, func, cases, clause, seam, sample=40):
    """history independence: the same cases evaluated first-to-last in this (warm) process and last-to-first in a fresh interpreter must give
    bit-identical implementation results"""
    import importlib
    if not cases:
        return
    idx = list(range(0, len(cases), max(1, len(cases) // sample)))[:sample]
    sub = [cases[i] for i in idx]
    fn = getattr(importlib.import_module(module), func)
    here = [canon_result(fn(c)) for c in sub]
    env = dict(os.environ)
    env["PYTHONPATH"] = REPO + (os.pathsep + env["PYTHONPATH"] if env.get("PYTHONPATH") else "")
    env["PYTHONDONTWRITEBYTECODE"] = "1"
    try:
        p = subprocess.run([sys.executable, "-W", "ignore", os.path.join(HARNESS, "revprobe.py"), module, func], input=json.dumps(sub, default=str).encode(),
                           env=env, stdout=subprocess.PIPE, stderr=subprocess.PIPE, timeout=900)
    except subprocess.TimeoutExpired:
        ctx.notes.append("reverse-order probe timed out (not judged)")
        return
    out = p.stdout.decode(errors="replace")
    k = out.rfind("REVPROBE ")
    if k < 0:
        ctx.notes.append("reverse-order probe could not run: " + p.stderr.decode(errors="replace")[-300:])
        return
    there = json.loads(out[k + 9:])
    ctx.supporting["reverse_order_fresh_interpreter_cases"] = ctx.supporting.get("reverse_order_fresh_interpreter_cases", 0) + len(sub)
    for c, a, b in zip(sub, here, there):
        if a != b:
            ctx.violation(clause, dict(case=c, note="the implementation's result for this input depends on what was evaluated before it: evaluated after the other sampled "
                                                    "cases in a warm process vs before them in a fresh interpreter", warm_process=a, fresh_interpreter_reversed_order=b,
                                       sampled_cases=len(sub)), seam=seam)
            return
