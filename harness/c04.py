"""C04 -- sensor orientation and azimuth handling are geometrically consistent"""
import numpy as np

from common import *
import procgen as pg

PROP_MODULES = ["HvsrVerif.Props.C04", "HvsrVerif.Props.C04Rot"]
BRIDGE_MODULES = ["HvsrVerif.Bridge.PyAzimuth", "HvsrVerif.Bridge.PyOrient"]
ANGLES = [0.0, 90.0, 180.0, 270.0, 360.0, -90.0, 45.0, 400.0, -720.0, 1080.0, 30.0, 215.5]


def pick_angle(rng):
    return float(rng.choice([rng.choice(ANGLES), rng.uniform(-720, 1080)]))


def orient_seam(ctx, rng):
    import hvsrpy
    lines, cases = [], []
    for _ in range(ctx.budget(120, 1500)):
        n = int(rng.integers(4, 40))
        dep, tgt = pick_angle(rng), pick_angle(rng)
        rec = pg.gen_record(rng, n=n, deg=dep, scale=float(10.0 ** rng.integers(-3, 4)))
        sr = pg.make_srecord(rec)
        cur = float(sr.degrees_from_north)           # constructor normalises to [0, 360)
        vt0 = sr.vt.amplitude.copy(); ns0 = sr.ns.amplitude.copy(); ew0 = sr.ew.amplitude.copy()
        sr.orient_sensor_to(tgt)
        cases.append(dict(deployed=dep, current=cur, target=tgt, ns=ns0.tolist(), ew=ew0.tolist(),
                          impl_ns=sr.ns.amplitude.tolist(), impl_ew=sr.ew.amplitude.tolist(), impl_deg=float(sr.degrees_from_north),
                          impl_meta=sr.meta.get("current degrees from north"), vt_same=bool(np.array_equal(vt0, sr.vt.amplitude))))
        lines.append(f"orient {hexf(cur)} {hexf(tgt)} {fvec(ns0)} {fvec(ew0)}")
    outs = run_driver(lines)
    for c, o in zip(cases, outs):
        t = Toks(o); t.tok()
        mns, mew, mdeg = t.vec(), t.vec(), t.flt()
        scale = float(np.max(np.abs(c["ns"] + c["ew"])))
        ctx.case((c["current"], c["target"], c["ns"], c["ew"]), nontrivial=(abs((c["target"] - c["current"]) % 90) > 1e-9),
                 sample=dict(deployed=c["deployed"], target=c["target"], impl_deg=c["impl_deg"], model_deg=mdeg, n=len(c["ns"])))
        ctx.count("orient:" + ("multiple-of-90" if abs((c["target"] - c["current"]) % 90) < 1e-9 else "generic"))
        ctx.count("target:" + ("outside[0,360)" if not (0 <= c["target"] < 360) else "inside"))
        ctx.traces += 1
        e0 = np.array(c["ns"]) ** 2 + np.array(c["ew"]) ** 2
        e1 = np.array(c["impl_ns"]) ** 2 + np.array(c["impl_ew"]) ** 2
        if not (vclose(c["impl_ns"], mns, scale) and vclose(c["impl_ew"], mew, scale)):
            ctx.violation("exact-rotation-clockwise-from-north", dict(case=c, model_ns=mns, model_ew=mew), seam="SeismicRecording3C.orient_sensor_to")
        elif not np.allclose(e0, e1, rtol=1e-9, atol=1e-12 * scale * scale):
            ctx.violation("energy-preserving", dict(case=c), seam="SeismicRecording3C.orient_sensor_to")
        if not c["vt_same"]:
            ctx.violation("vertical-untouched", dict(case=c), seam="SeismicRecording3C.orient_sensor_to")
        if not (close(c["impl_deg"], mdeg, 360.0) and c["impl_meta"] is not None and close(float(c["impl_meta"]), mdeg, 360.0)):
            ctx.violation("orientation-recorded", dict(case=c, model_deg=mdeg), seam="degrees_from_north / meta")
    # composition, inverse and polarised-motion recovery on the implementation
    for _ in range(ctx.budget(40, 400)):
        n = 16
        d, phi = pick_angle(rng), float(rng.uniform(0, 360))
        m = rng.normal(0, 1, n)
        rec = dict(dt=0.01, deg=d, ns=(m * np.cos(np.radians(phi - d))).tolist(), ew=(m * np.sin(np.radians(phi - d))).tolist(), vt=rng.normal(0, 1, n).tolist())
        sr = pg.make_srecord(rec)
        sr.orient_sensor_to(0.0)
        ctx.supporting["polarised_cases"] = ctx.supporting.get("polarised_cases", 0) + 1
        if not (np.allclose(sr.ns.amplitude, m * np.cos(np.radians(phi)), atol=1e-9) and np.allclose(sr.ew.amplitude, m * np.sin(np.radians(phi)), atol=1e-9)):
            ctx.violation("polarised-motion-reappears-on-its-azimuth", dict(case=dict(deployed=d, azimuth=phi, motion=m.tolist())), seam="orient_sensor_to(0)")
        a, b = pick_angle(rng), pick_angle(rng)
        r2 = pg.gen_record(rng, n=n, deg=d)
        s1 = pg.make_srecord(r2); s1.orient_sensor_to(a); s1.orient_sensor_to(b)
        s2 = pg.make_srecord(r2); s2.orient_sensor_to(b)
        s3 = pg.make_srecord(r2); s3.orient_sensor_to(a); s3.orient_sensor_to(s2.degrees_from_north if False else r2["deg"])
        sc = float(np.max(np.abs(r2["ns"] + r2["ew"])))
        if not (np.allclose(s1.ns.amplitude, s2.ns.amplitude, atol=1e-9 * sc) and np.allclose(s1.ew.amplitude, s2.ew.amplitude, atol=1e-9 * sc)):
            ctx.violation("rotations-compose", dict(case=dict(record=r2, a=a, b=b)), seam="orient_sensor_to")
        if not (np.allclose(s3.ns.amplitude, r2["ns"], atol=1e-9 * sc) and np.allclose(s3.ew.amplitude, r2["ew"], atol=1e-9 * sc)):
            ctx.violation("rotation-invertible", dict(case=dict(record=r2, a=a)), seam="orient_sensor_to")


def preprocess_orientation(ctx, rng):
    """hvsrpy.preprocess(..., orient_to_degrees_from_north=t): every target incl. exactly 0 / 0.0 / 360 / None"""
    import hvsrpy
    lines, cases = [], []
    for j in range(ctx.budget(60, 600)):
        dep = pick_angle(rng)
        tgt = [0, 0.0, 360.0, -360.0, None, 90.0, pick_angle(rng), pick_angle(rng)][j % 8]
        kind = ["hvsr", "psd"][j % 2]
        rec = pg.gen_record(rng, n=int(rng.integers(8, 30)), deg=dep, scale=1.0)
        sr = pg.make_srecord(rec)
        cur = float(sr.degrees_from_north)
        kw = dict(orient_to_degrees_from_north=tgt, filter_corner_frequencies_in_hz=[None, None], window_length_in_seconds=None, detrend=None)
        st = hvsrpy.HvsrPreProcessingSettings(**kw) if kind == "hvsr" else hvsrpy.PsdPreProcessingSettings(**kw)
        again = (j % 4 >= 2)
        with quiet():
            if again:
                # the same recording object is preprocessed a second time (e.g. once for the HVSR and once for the PSD): the first call must have
                # left it as it was, samples and orientation alike
                hvsrpy.preprocess([sr], hvsrpy.HvsrPreProcessingSettings(**dict(kw, orient_to_degrees_from_north=float(rng.choice([0.0, 45.0, 200.0])))))
            out = hvsrpy.preprocess([sr], st)
        o = out[0]
        cases.append(dict(kind=kind, deployed=dep, current=cur, target=tgt, preprocessed_before=again, ns=rec["ns"], ew=rec["ew"], impl_ns=o.ns.amplitude.tolist(), impl_ew=o.ew.amplitude.tolist(),
                          impl_deg=float(o.degrees_from_north)))
        lines.append(f"orient {hexf(cur)} {hexf(cur if tgt is None else tgt)} {fvec(rec['ns'])} {fvec(rec['ew'])}")
    outs = run_driver(lines)
    for c, o in zip(cases, outs):
        t = Toks(o); t.tok()
        mns, mew, mdeg = t.vec(), t.vec(), t.flt()
        if c["target"] is None:
            mdeg = c["current"]
        ctx.case(("pre", c["kind"], c["current"], c["target"], c["ns"], c["ew"]), nontrivial=c["target"] is not None and abs(((c["target"] - c["current"]) % 90)) > 1e-9,
                 sample=dict(preprocess=c["kind"], deployed=c["deployed"], target=c["target"], impl_deg=c["impl_deg"]))
        ctx.count("preprocess-target:" + ("None" if c["target"] is None else "zero" if c["target"] == 0 else "other"))
        ctx.traces += 1
        if not (vclose(c["impl_ns"], mns, 1.0) and vclose(c["impl_ew"], mew, 1.0) and close(c["impl_deg"], mdeg, 360.0)):
            ctx.violation("preprocessing-orients-the-sensor-to-the-requested-azimuth", dict(case=c, model_ns=mns, model_ew=mew, model_deg=mdeg),
                          seam="hvsrpy.preprocess(orient_to_degrees_from_north)")


def azimuth_processing(ctx, rng):
    """single azimuth / azimuthal / RotDpp on the implementation at the default FFT length + model correspondence at small n"""
    # model correspondence (records with non-zero orientation, azimuths outside [0,180))
    cases = []
    for i in range(ctx.budget(40, 400)):
        fam = ["saz", "rot", "saz", "rot", "saz", "az"][i % 6]
        dt = float(rng.choice(pg.DTS))
        nrec = int(rng.integers(1, 3)) if fam != "az" else int(rng.integers(2, 4))
        dts = [dt] * nrec
        policy = pg.POLICIES[0]
        if fam == "az" and rng.random() < 0.7:
            # the azimuthal result must be the stack of the single-azimuth results also for record lists with mixed time steps
            # under every policy (the policy is applied inside every single-azimuth run)
            dts = [float(rng.choice([dt, float(rng.choice(pg.DTS))])) for _ in range(nrec)]
            policy = pg.POLICIES[int(rng.integers(0, 3))]
            if rng.random() < 0.6:
                # two time steps INTERLEAVED (a, b, a[, b]): per-record quantities computed once for all azimuths must be matched to the records, not to the
                # order in which the time-step groups are processed
                other = float(rng.choice([d for d in pg.DTS if d != dt]))
                nrec = int(rng.integers(3, 5))
                dts = [dt, other, dt, other][:nrec]
                policy = pg.POLICIES[0]
        recs = [pg.gen_record(rng, n=int(rng.integers(16, 120 if fam != "az" else 36)), dt=d, deg=pick_angle(rng)) for d in dts]
        max_n = max(len(r["vt"]) for r in recs)
        sm = pg.gen_smoothing(rng, max_n if fam != "az" else 32768, dts, op=str(rng.choice(["konno_and_ohmachi", "parzen", "linear_triangular", "log_rectangular"])), nfc=(6 if fam == "az" else None))
        c = dict(family=fam, smoothing=sm, width=float(rng.choice(pg.WIDTHS)), fft=(dict(n=None) if fam != "az" else None), policy=policy, records=recs)
        if fam == "saz":
            c["azimuth"] = pick_angle(rng)
        elif fam == "az":
            c["azimuths"] = [float(a) for a in sorted(rng.choice(np.arange(0, 180, 15), 2, replace=False))]
        else:
            c["pct"] = float(rng.choice([0, 25, 50, 84, 100])); c["azimuths"] = [float(a) for a in np.arange(0, 180, 30)]
        cases.append(c)
    outs = run_driver([pg.model_line(c) for c in cases])
    for c, o in zip(cases, outs):
        # the constructor normalises degrees_from_north; the model is given the normalised value
        im = pg.run_impl(c)
        c2 = dict(c, records=[dict(r, deg=float(r["deg"] - 360 * np.floor(r["deg"] / 360))) for r in c["records"]])
        mo = pg.parse_model(c2, run_driver([pg.model_line(c2)])[0]) if any(r["deg"] != r2["deg"] for r, r2 in zip(c["records"], c2["records"])) else pg.parse_model(c, o)
        ok, what = pg.results_agree(c, im, mo, rtol=1e-7)
        ctx.case((c["family"], c.get("azimuth"), c["records"]), nontrivial=not isinstance(im["result"], str),
                 sample=dict(family=c["family"], azimuth=c.get("azimuth"), degs=[r["deg"] for r in c["records"]]))
        ctx.count("proc:" + c["family"])
        ctx.traces += 1
        if not ok:
            nfft = max(len(r["vt"]) for r in c["records"]) if c["family"] != "az" else 32768
            if pg.smoothing_margin(c, nfft) < 1e-9:
                ctx.near_tie_skipped += 1
                continue
            ctx.violation("azimuth-measured-from-north" if c["family"] != "az" else "azimuthal-is-stack-of-single-azimuths", dict(case=c, differs_in=what, impl=(im["result"] if isinstance(im["result"], str) else np.asarray(im["result"]).tolist()),
                                                            model=(mo["result"] if isinstance(mo["result"], str) else np.asarray(mo["result"]).tolist())), seam="hvsrpy.process")
    # metamorphic laws on the implementation
    for j in range(ctx.budget(12, 120)):
        dt = float(rng.choice(pg.DTS))
        cur = pick_angle(rng)
        rec = pg.gen_record(rng, n=int(rng.integers(200, 700)), dt=dt, deg=cur, scale=1.0)
        sm = pg.gen_smoothing(rng, 32768, [dt], op=str(rng.choice(["konno_and_ohmachi", "parzen", "log_triangular"])), nfc=10)
        base = dict(smoothing=sm, width=float(rng.choice(pg.WIDTHS)), fft=None, policy=pg.POLICIES[0], records=[rec])
        a = float(rng.uniform(0, 180))
        saz = lambda az, r=rec: pg.run_impl(dict(base, family="saz", azimuth=az, records=[r]))["result"]
        s_a = saz(a)
        if isinstance(s_a, str):
            continue
        ctx.supporting["azimuth_law_cases"] = ctx.supporting.get("azimuth_law_cases", 0) + 1
        # (i) equals the north component after orienting the sensor to a
        sr = pg.make_srecord(rec); sr.orient_sensor_to(a)
        rec_o = dict(dt=dt, deg=float(sr.degrees_from_north), ns=sr.ns.amplitude.tolist(), ew=sr.ew.amplitude.tolist(), vt=sr.vt.amplitude.tolist())
        north = dict(rec_o, ew=[0.0] * len(rec_o["ew"]))      # only the north component of the oriented sensor
        s_n = saz(a, north)
        if isinstance(s_n, str) or not pg.mat_close(s_a, s_n, 1e-8):
            ctx.violation("single-azimuth-equals-north-after-orienting", dict(case=dict(base, family="saz", azimuth=a), oriented=rec_o), seam="hvsrpy.process")
        # (ii) 180-degree periodic
        s_b = saz(a + 180.0)
        if isinstance(s_b, str) or not pg.mat_close(s_a, s_b, 1e-8):
            ctx.violation("single-azimuth-180-periodic", dict(case=dict(base, family="saz", azimuth=a)), seam="hvsrpy.process")
        # (iii) azimuthal = stack of single azimuths
        azs = [0.0, 45.0, float(np.floor(a)), 170.0]
        az = pg.run_impl(dict(base, family="az", azimuths=azs))["result"]
        if isinstance(az, str) or any(isinstance(saz(z), str) or not pg.mat_close(az[k], saz(z), 1e-10) for k, z in enumerate(azs)):
            ctx.violation("azimuthal-is-stack-of-single-azimuths", dict(case=dict(base, family="az", azimuths=azs)), seam="hvsrpy.process")
        # (iv) RotDpp monotone in p and bounded by min/max over the azimuths
        stack = np.array([saz(z)[0] for z in azs])
        prev = None
        for p in [0.0, 20.0, 50.0, 84.0, 100.0]:
            r = pg.run_impl(dict(base, family="rot", pct=p, azimuths=azs))["result"]
            if isinstance(r, str):
                break
            if np.any(r[0] < stack.min(axis=0) * (1 - 1e-9)) or np.any(r[0] > stack.max(axis=0) * (1 + 1e-9)) or (prev is not None and np.any(r[0] < prev * (1 - 1e-9))):
                ctx.violation("rotdpp-monotone-and-bounded", dict(case=dict(base, family="rot", pct=p, azimuths=azs)), seam="hvsrpy.process")
                break
            prev = r[0]
        # (v) rotation-invariant combinations do not depend on the sensor orientation
        theta = pick_angle(rng)
        sr = pg.make_srecord(rec); sr.orient_sensor_to(theta)
        rec_t = dict(dt=dt, deg=float(sr.degrees_from_north), ns=sr.ns.amplitude.tolist(), ew=sr.ew.amplitude.tolist(), vt=sr.vt.amplitude.tolist())
        for fam, meth in (("trad", "squared_average"), ("trad", "root_mean_square"), ("trad", "total_horizontal_energy"), ("trad", "vector_summation"), ("diff", None)):
            c0 = dict(base, family=fam, method=meth)
            r0 = pg.run_impl(c0)["result"]; r1 = pg.run_impl(dict(c0, records=[rec_t]))["result"]
            if isinstance(r0, str) or isinstance(r1, str):
                continue
            # the frequency-domain combinations act on amplitude spectra |N|, |E|; invariance holds for the energy |N|^2+|E|^2
            if not pg.mat_close(r0, r1, 1e-8):
                ctx.violation("rotation-invariant-combination", dict(case=c0, theta=theta, oriented=rec_t), seam="hvsrpy.process")
                break


def orient_history(ctx, rng):
    """re-orienting is a rotation of the samples the recording holds NOW: histories orient -> (detrend | taper | filter | trim | direct assignment
    of the amplitudes) -> orient on ONE object; the second rotation is judged against numpy on a snapshot taken just before it"""
    for _ in range(ctx.budget(60, 600)):
        n = int(rng.integers(24, 60))
        dep = pick_angle(rng)
        rec = pg.gen_record(rng, n=n, deg=dep, scale=float(10.0 ** rng.integers(-2, 3)))
        for k in ("ns", "ew", "vt"):      # a trend and an offset, so that detrending changes the samples
            rec[k] = (np.array(rec[k]) + np.linspace(0, 3, n) * float(np.max(np.abs(rec[k]))) + 1.5).tolist()
        sr = pg.make_srecord(rec)
        steps = []
        ok = True
        exp_deg = float(dep - 360.0 * np.floor(dep / 360.0))       # the orientation is tracked HERE, independently of what the object reports
        exp_deg = 0.0 if exp_deg >= 360.0 else exp_deg
        for _step in range(int(rng.integers(2, 5))):
            tgt = pick_angle(rng)
            if abs(float(sr.degrees_from_north) - exp_deg) > 1e-9:
                ctx.violation("orientation-recorded", dict(case=dict(record=rec, history=steps), why="after this history the recording (or the window cut from it) does not "
                                                           "report the orientation its samples are in", reported=float(sr.degrees_from_north), expected=exp_deg),
                              seam="SeismicRecording3C.degrees_from_north after edits / split / copy")
                ok = False
                break
            cur = exp_deg
            ns0, ew0, vt0 = sr.ns.amplitude.copy(), sr.ew.amplitude.copy(), sr.vt.amplitude.copy()
            sr.orient_sensor_to(tgt)
            ang = np.radians(tgt - cur)
            c, s_ = np.cos(ang), np.sin(ang)
            want_ns, want_ew = ew0 * s_ + ns0 * c, ew0 * c - ns0 * s_
            steps.append(("orient", tgt))
            exp_deg = float(tgt - 360.0 * np.floor(tgt / 360.0))
            exp_deg = 0.0 if exp_deg >= 360.0 else exp_deg
            sc = float(max(np.max(np.abs(ns0)), np.max(np.abs(ew0)), 1e-300))
            if not (len(sr.ns.amplitude) == len(want_ns) and np.allclose(sr.ns.amplitude, want_ns, rtol=0, atol=1e-9 * sc)
                    and np.allclose(sr.ew.amplitude, want_ew, rtol=0, atol=1e-9 * sc) and np.array_equal(sr.vt.amplitude, vt0)):
                ctx.violation("exact-rotation-clockwise-from-north",
                              dict(case=dict(record=rec, history=steps), why="after this history orient_sensor_to did not rotate the samples the recording held "
                                   "just before the call (energy/vertical also judged)", held_ns=ns0.tolist(), held_ew=ew0.tolist(), current=cur, target=tgt,
                                   impl_ns=sr.ns.amplitude.tolist(), impl_ew=sr.ew.amplitude.tolist(), want_ns=want_ns.tolist(), want_ew=want_ew.tolist()),
                              seam="SeismicRecording3C.orient_sensor_to after edits")
                ok = False
                break
            op = str(rng.choice(["detrend", "window", "filter", "assign", "trim", "none", "split", "copy"]))
            if op == "split" and len(sr.ns.amplitude) >= 12:
                # go on with a window cut from the recording: it holds the parent's samples in the parent's orientation
                wins = sr.split(float((len(sr.ns.amplitude) // 2 - 1) * rec["dt"]))
                sr = wins[int(rng.integers(0, len(wins)))]
            elif op == "copy":
                import hvsrpy
                sr = hvsrpy.SeismicRecording3C.from_seismic_recording_3c(sr)
            if op == "detrend":
                sr.detrend(type=str(rng.choice(["linear", "constant"])))
            elif op == "window":
                sr.window(type="tukey", width=0.3)
            elif op == "filter" and len(sr.ns.amplitude) > 40:       # scipy's zero-phase filter needs more samples than its padding
                sr.butterworth_filter((None, 0.3 / (2 * rec["dt"])))
            elif op == "assign":
                for ts in (sr.ns, sr.ew):
                    ts.amplitude = ts.amplitude * float(rng.uniform(0.5, 2.0)) + float(rng.normal())
            elif op == "trim" and len(sr.ns.amplitude) > 8:
                sr.trim(2 * rec["dt"], (len(sr.ns.amplitude) - 3) * rec["dt"])
            steps.append((op,))
        ctx.case(("orient-history", rec["deg"], rec["ns"], [str(x) for x in steps]), nontrivial=True)
        ctx.count("orient-history:" + ("ok" if ok else "violation"))
        ctx.supporting["orient_history_cases"] = ctx.supporting.get("orient_history_cases", 0) + 1


def run(ctx):
    ctx.rule = ("(a) orient_sensor_to on records of 4-40 samples for deployed/target angles in [-720, 1080] incl. multiples of 90 and values outside [0,360) vs the "
                "model rotation; (b) single-azimuth / RotDpp processing of records with non-zero orientation vs the model; (c) on the implementation at the default "
                "FFT length: north-after-orient, 180-degree periodicity, azimuthal = stack, RotDpp monotone/bounded, rotation invariance of the energy combinations; "
                "non-trivial = rotation angle not a multiple of 90 degrees (a), successful processing (b); distinct by input hash")
    rng = np.random.default_rng(ctx.seed)
    orient_seam(ctx, rng)
    orient_history(ctx, np.random.default_rng(ctx.seed + 4))
    preprocess_orientation(ctx, rng)
    azimuth_processing(ctx, rng)


def replay(case):
    if "family" in case:
        import c01
        return c01.replay(case)
    return dict(note="orientation case: re-run harness/c04.py::orient_seam with the stored angles", case=case)
