"""Generators and mirrors for the processing chains (shared by C01 C03 C04 C09 C17)."""
import numpy as np

from common import *

DTS = [1 / 50, 1 / 75, 1 / 100, 1 / 128, 1 / 250, 1 / 500]
OPS = ["konno_and_ohmachi", "parzen", "savitzky_and_golay", "linear_rectangular", "log_rectangular", "linear_triangular", "log_triangular"]
COMBINE_NAMES = ["arithmetic_mean", "squared_average", "quadratic_mean", "root_mean_square", "effective_amplitude_spectrum",
                 "geometric_mean", "total_horizontal_energy", "vector_summation", "maximum_horizontal_value"]
POLICIES = ["frequency_domain_resampling", "keeping_smallest_time_step", "keeping_majority_time_step"]
WIDTHS = [0.0, 0.05, 0.1, 0.5, 1.0]


def gen_signal(rng, n, kind=None):
    kind = kind or rng.choice(["noise", "sines", "mixed"])
    t = np.arange(n)
    if kind == "noise":
        return rng.normal(0, 1, n)
    if kind == "sines":
        return sum(rng.uniform(0.2, 1) * np.sin(2 * np.pi * rng.uniform(0.01, 0.45) * t + rng.uniform(0, 6.28)) for _ in range(3))
    return rng.normal(0, 0.3, n) + np.sin(2 * np.pi * rng.uniform(0.02, 0.4) * t)


def gen_record(rng, n=None, dt=None, scale=None, deg=0.0, proportional=None):
    """dict(dt, deg, ns, ew, vt)"""
    n = n or int(rng.integers(16, 200))
    dt = dt or float(rng.choice(DTS))
    scale = scale if scale is not None else float(10.0 ** rng.integers(-6, 7))
    if proportional is not None:
        a, b, c = proportional
        s = gen_signal(rng, n)
        ns, ew, vt = a * s, b * s, c * s
    else:
        ns, ew, vt = gen_signal(rng, n), gen_signal(rng, n), gen_signal(rng, n)
    rec = dict(dt=dt, deg=float(deg), ns=(ns * scale).tolist(), ew=(ew * scale).tolist(), vt=(vt * scale).tolist())
    if proportional is None and rng.random() < 0.15:
        # digitiser counts: integer samples handed over as an int32/int64 array (what obspy traces hold); same numbers, same result
        k = 1000.0 / max(float(np.max(np.abs(ns))), 1e-12)
        for c, v in (("ns", ns), ("ew", ew), ("vt", vt)):
            rec[c] = [float(x) for x in np.round(v * k)]
        rec["dtype"] = str(rng.choice(["int32", "int64"]))
    return rec


def make_srecord(r):
    import hvsrpy
    # the integer dtype is used only while the samples ARE integers (probes derive scaled / rotated copies of a record)
    integral = bool(r.get("dtype")) and all(float(x).is_integer() and abs(x) < 2 ** 30 for c in ("ns", "ew", "vt") for x in r[c])
    arr = (lambda v: np.array(v, dtype=r["dtype"])) if integral else (lambda v: v)
    return hvsrpy.SeismicRecording3C(hvsrpy.TimeSeries(arr(r["ns"]), r["dt"]), hvsrpy.TimeSeries(arr(r["ew"]), r["dt"]),
                                     hvsrpy.TimeSeries(arr(r["vt"]), r["dt"]), degrees_from_north=r["deg"])


def gen_smoothing(rng, nfft, dts, op=None, nfc=None):
    """operator, bandwidth and centre frequencies that mostly see a non-empty window on the FFT grid(s)"""
    op = op or str(rng.choice(OPS))
    dt_max, dt_min = max(dts), min(dts)
    fnyq = 1 / (2 * dt_max)
    df = 1 / (nfft * dt_min)            # coarsest spacing among the groups is for the smallest dt
    nfc = nfc or int(rng.integers(4, 17))
    if op == "savitzky_and_golay":
        bw = float(rng.choice([3, 5, 9]))
        k = int((bw - 1) // 2)
        # centre frequencies on grid indices where the operator is defined for every group
        nbins = nfft // 2 + 1
        lo, hi = k + 1, nbins - k - 2
        if hi <= lo:
            return None
        idx = np.unique(rng.integers(lo, hi + 1, nfc))
        dfs = 1 / (nfft * dt_max)
        fcs = idx * dfs
        fcs = fcs[fcs <= fnyq]
        if len(set(dts)) > 1 or len(fcs) == 0:
            return None
        return dict(operator=op, bandwidth=bw, center_frequencies_in_hz=fcs.tolist())
    lo = min(6 * df, fnyq * 0.5)
    fcs = np.sort(rng.uniform(lo, fnyq * 0.98, nfc))
    if rng.random() < 0.3:   # some exactly on the grid
        fcs[: nfc // 2] = np.round(fcs[: nfc // 2] / df) * df
        fcs = np.sort(np.unique(fcs[(fcs > 0) & (fcs <= fnyq)]))
    if op == "konno_and_ohmachi":
        bw = float(rng.choice([10, 20, 40, rng.uniform(8, 60)]))
    elif op in ("log_rectangular", "log_triangular"):
        bw = float(rng.choice([0.15, 0.3, 0.5, rng.uniform(0.1, 0.6)]))
    else:
        bw = float(rng.uniform(3, 10) * df)
    fcs = [float(x) for x in fcs]
    u = rng.random()       # a user-supplied array: ascending (75 %), descending or shuffled
    if u < 0.1:
        fcs = fcs[::-1]
    elif u < 0.25:
        fcs = [fcs[j] for j in rng.permutation(len(fcs))]
    return dict(operator=op, bandwidth=bw, center_frequencies_in_hz=fcs)


def fft_token(fft):
    if fft is None:
        return "unset"
    if fft.get("n", "missing") is None:
        return "none"
    return str(int(fft["n"]))


def predicted_nfft(fft, max_n):
    def nextpow2(n, p=2 ** 15):
        while p <= n:
            p *= 2
        return p
    if fft is None:
        return nextpow2(max_n)
    if fft["n"] is None:
        return max_n
    return max(nextpow2(max_n), fft["n"])


def rec_tokens(recs):
    return " ".join([str(len(recs))] + [f"{hexf(r['dt'])} {hexf(r['deg'])} {fvec(r['ns'])} {fvec(r['ew'])} {fvec(r['vt'])}" for r in recs])


def cfg_tokens(sm, width):
    return f"{sm['operator']} {hexf(sm['bandwidth'])} {hexf(width)} {fvec(sm['center_frequencies_in_hz'])}"


def gen_fft(rng, max_n):
    u = rng.random()
    if u < 0.55:
        return dict(n=None)
    if u < 0.8:
        return dict(n=int(rng.choice([max_n, max_n + 3, 2 * max_n, 512])))   # user value below nextpow2 -> 32768
    return None


def az_container(values, case):
    """the azimuth list in the container / dtype users pass it in: float or integer ndarray (numpy's arange default), list,
    tuple. Whole-number azimuths are handed over as integers in about half of the cases (chosen by the case content, so that a
    case replays identically); the meaning of an azimuth does not depend on its container."""
    vals = [float(v) for v in values]
    whole = all(v == int(v) for v in vals)
    k = int(sha8([vals, case.get("pct"), case.get("width"), len(case.get("records", []))]), 16) % 6
    if whole and k == 0:
        return np.array([int(v) for v in vals])             # integer ndarray, as np.arange(0, 180, 5)
    if whole and k == 1:
        return [int(v) for v in vals]                        # list of ints, as loaded from a settings file
    if whole and k == 2:
        return tuple(int(v) for v in vals)
    if k == 3:
        return list(vals)
    if k == 4:
        return tuple(vals)
    return np.array(vals)


def make_settings(case):
    """real settings object for a case dict (family, method, smoothing, width, fft, policy, az...)"""
    import hvsrpy
    import copy
    kw = dict(window_type_and_width=["tukey", case["width"]], smoothing=copy.deepcopy(case["smoothing"]),
              fft_settings=copy.deepcopy(case["fft"]), handle_dissimilar_time_steps_by=case["policy"])
    fam = case["family"]
    if fam == "trad":
        return hvsrpy.HvsrTraditionalProcessingSettings(method_to_combine_horizontals=case["method"], **kw)
    if fam == "saz":
        # both registered names of the method ("directional_energy" is an alias of "single_azimuth"), chosen by the case
        name = case.get("method") or ("directional_energy" if int(round(case["azimuth"] * 1000)) % 2 else "single_azimuth")
        return hvsrpy.HvsrTraditionalSingleAzimuthProcessingSettings(method_to_combine_horizontals=name,
                                                                     azimuth_in_degrees=(int(case["azimuth"]) if case["azimuth"] == int(case["azimuth"]) and int(case["azimuth"]) % 2 else case["azimuth"]), **kw)
    if fam == "rot":
        return hvsrpy.HvsrTraditionalRotDppProcessingSettings(ppth_percentile_for_rotdpp_computation=case["pct"],
                                                              azimuths_in_degrees=az_container(case["azimuths"], case), **kw)
    if fam == "az":
        return hvsrpy.HvsrAzimuthalProcessingSettings(azimuths_in_degrees=az_container(case["azimuths"], case), **kw)
    if fam == "diff":
        return hvsrpy.HvsrDiffuseFieldProcessingSettings(**kw)
    if fam == "psd":
        kw2 = dict(kw)
        if not case.get("psd_smoothing", True):
            kw2["smoothing"] = dict(kw["smoothing"])
        s = hvsrpy.PsdProcessingSettings(**kw2)
        if not case.get("psd_smoothing", True):
            s.smoothing = None
        return s
    raise ValueError(fam)


def model_line(case):
    sm, w = case["smoothing"], case["width"]
    tail = f"{cfg_tokens(sm, w)} {fft_token(case['fft'])} {case['policy']} {rec_tokens(case['records'])}"
    fam = case["family"]
    if fam == "trad":
        return f"proc.trad {case['method']} {tail}"
    if fam == "saz":
        return f"proc.saz {hexf(case['azimuth'])} {tail}"
    if fam == "rot":
        return f"proc.rot {hexf(case['pct'])} {fvec(case['azimuths'])} {tail}"
    if fam == "az":
        return f"proc.az {fvec(case['azimuths'])} {tail}"
    if fam == "diff":
        return f"proc.diff {tail}"
    if fam == "psd":
        return f"proc.psd {1 if case.get('psd_smoothing', True) else 0} {cfg_tokens(sm, w)} {fft_token(case['fft'])} {rec_tokens(case['records'])}"
    raise ValueError(fam)


PROC_ERRS = (ValueError, IndexError, ZeroDivisionError, TypeError, KeyError)


def run_impl(case, srecords=None, settings=None):
    """returns dict(result=matrix|list of matrices|'err', fft_after=token, n_curves=...)"""
    import hvsrpy
    import warnings
    srecords = srecords if srecords is not None else [make_srecord(r) for r in case["records"]]
    settings = settings if settings is not None else make_settings(case)
    try:
        with warnings.catch_warnings(), np.errstate(all="ignore"), quiet():
            warnings.simplefilter("ignore")
            res = hvsrpy.process(srecords, settings)
    except PROC_ERRS as e:
        return dict(result="err", error=type(e).__name__ + ": " + str(e)[:80], fft_after=fft_token(settings.fft_settings), obj=None)
    fam = case["family"]
    if fam in ("trad", "saz", "rot"):
        out = np.array(res.amplitude)
    elif fam == "az":
        out = [np.array(h.amplitude) for h in res.hvsrs]
    elif fam == "diff":
        out = np.array(res.amplitude)
    else:
        out = np.array([res["ns"].amplitude, res["ew"].amplitude, res["vt"].amplitude])
    return dict(result=out, fft_after=fft_token(settings.fft_settings), obj=res, frequency=(res.frequency if fam != "psd" else res["ns"].frequency))


def parse_model(case, line):
    t = Toks(line)
    if t.tok() != "ok":
        return dict(result="err", error=" ".join(t.rest()))
    fam = case["family"]
    fft = t.tok()
    if fam in ("trad", "saz", "rot"):
        kept = t.nvec()
        return dict(result=np.array(t.mat()), fft_after=fft, kept=kept)
    if fam == "az":
        n = t.nat()
        outs, kept = [], None
        for _ in range(n):
            kept = t.nvec()
            outs.append(np.array(t.mat()))
        return dict(result=outs, fft_after=fft, kept=kept)
    if fam == "diff":
        kept = t.nvec()
        return dict(result=np.array(t.vec()), fft_after=fft, kept=kept)
    return dict(result=np.array(t.mat()), fft_after=fft)


def mat_close(a, b, rtol=1e-8, atol_rel=0.0):
    """element-wise relative comparison; atol_rel adds an absolute tolerance relative to the largest entry
    (spectral values that are zero up to FFT round-off)"""
    a = np.asarray(a, dtype=float); b = np.asarray(b, dtype=float)
    if a.shape != b.shape:
        return False
    big = float(np.max(np.abs(b))) if b.size else 0.0
    return bool(np.all(np.abs(a - b) <= rtol * np.maximum(np.abs(a), np.abs(b)) + atol_rel * big + 1e-300))


def results_agree(case, im, mo, rtol=1e-8):
    """(agree, what) comparing implementation and model outputs of one case"""
    a, b = im["result"], mo["result"]
    if isinstance(a, str) or isinstance(b, str):
        return (isinstance(a, str) and isinstance(b, str)), "error-vs-value"
    if im["fft_after"] != mo["fft_after"]:
        return False, "fft-length"
    if case["family"] != "psd" and "frequency" in im:
        # the curve is reported AT the requested centre frequencies, in the order requested
        if not np.array_equal(np.asarray(im["frequency"], dtype=float), np.asarray(case["smoothing"]["center_frequencies_in_hz"], dtype=float)):
            return False, "frequency-axis"
    if case["family"] == "az":
        if len(a) != len(b):
            return False, "n-azimuths"
        for x, y in zip(a, b):
            if not mat_close(x, y, rtol):
                return False, "amplitude"
        return True, ""
    return (mat_close(a, b, rtol), "amplitude")


def smoothing_margin(case, nfft):
    """relative distance of the nearest FFT sample from a smoothing-window limit (python mirror, to classify near ties)"""
    import c02
    m = 1e9
    sm = case["smoothing"]
    for dt in set(r["dt"] for r in case["records"]):
        f = np.fft.rfftfreq(nfft, dt)
        cc = dict(op=sm["operator"], bw=sm["bandwidth"], freq=f.tolist(), fcs=sm["center_frequencies_in_hz"])
        m = min(m, c02.sg_margin(cc) if sm["operator"] == "savitzky_and_golay" else c02.window_margin(cc))
    return m


def case_public(case):
    """json-able copy"""
    return {k: v for k, v in case.items()}


def impl_result_only(case):
    """(result, FFT length written back) of one processing case; JSON-able after common.canon_result"""
    r = run_impl(case)
    res = r["result"]
    if isinstance(res, list):
        res = [np.asarray(x).tolist() for x in res]
    elif not isinstance(res, str):
        res = np.asarray(res).tolist()
    return dict(result=res, fft_after=r["fft_after"])


def edited_reprocess_probe(case, rng):
    """process, EDIT the same recording objects in place (every component rescaled by its own factor, a few samples overwritten; lengths and time steps kept),
    process the same objects again (equal settings), and compare with fresh recording objects built from the edited samples processed with fresh
    settings: a result may depend on what the recordings hold NOW, not on anything remembered from an earlier call. Returns None (agree / not judged) or a dict."""
    srecords = [make_srecord(r) for r in case["records"]]
    settings = make_settings(case)
    first = run_impl(case, srecords=srecords, settings=settings)
    if isinstance(first["result"], str):
        return None
    edited = []
    for sr, r in zip(srecords, case["records"]):
        e = dict(r)
        for comp in ("ns", "ew", "vt"):
            ts = getattr(sr, comp)
            f = float(rng.choice([0.5, 2.0, 3.0, 0.25]))
            ts.amplitude *= f                                            # in place, on the object the caller keeps
            k = int(rng.integers(0, len(ts.amplitude)))
            ts.amplitude[k] = ts.amplitude[k] + float(np.max(np.abs(ts.amplitude))) * 0.5
            e[comp] = [float(x) for x in ts.amplitude]
        edited.append(e)
    # a fresh settings object for the second call: re-using one whose fft_settings were {"n": None} is the recorded finding C09-c (the stored length changes)
    second = run_impl(case, srecords=srecords, settings=make_settings(case))
    fresh_case = dict(case, records=edited)
    ref = run_impl(fresh_case)
    a, b = second["result"], ref["result"]
    if isinstance(a, str) or isinstance(b, str):
        return None if (isinstance(a, str) and isinstance(b, str)) else dict(second=str(a)[:80], fresh=str(b)[:80], edited_records=edited)
    la = a if isinstance(a, list) else [a]
    lb = b if isinstance(b, list) else [b]
    if len(la) != len(lb) or any(x.shape != y.shape for x, y in zip(la, lb)) or any(not np.allclose(x, y, rtol=1e-9, atol=0, equal_nan=True) for x, y in zip(la, lb)):
        return dict(edited_records=edited, second_call=[np.asarray(x).tolist() for x in la], fresh_objects=[np.asarray(y).tolist() for y in lb])
    return None
