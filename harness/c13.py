"""C13 -- time-domain rejection keeps exactly the windows that satisfy the criterion"""
import numpy as np

from common import *
import procgen as pg
import hvgen

PROP_MODULES = ["HvsrVerif.Props.C13", "HvsrVerif.Props.C13Norm"]
BRIDGE_MODULES = ["HvsrVerif.Bridge.C13", "HvsrVerif.Bridge.PyTimeRej"]
COMPS = ["ns", "ew", "vt"]


def gen_windows(rng, nw, n, dt):
    wins = []
    for _ in range(nw):
        rec = pg.gen_record(rng, n=n, dt=dt, scale=float(10.0 ** rng.integers(-12, 7)))   # from nm/s-sized to count-sized amplitudes
        u = rng.random()
        if u < 0.35:      # planted transient on one component
            k = str(rng.choice(COMPS)); i = int(rng.integers(0, n))
            a = np.array(rec[k]); a[i:i + max(2, n // 20)] *= rng.uniform(5, 50); rec[k] = a.tolist()
        elif u < 0.45:    # quiet gap
            k = str(rng.choice(COMPS)); i = int(rng.integers(0, n // 2))
            a = np.array(rec[k]); a[i:i + n // 4] *= 1e-3; rec[k] = a.tolist()
        wins.append(rec)
    return wins


def wins_tokens(wins, comps):
    return " ".join([str(len(wins))] + [" ".join([str(len(comps))] + [fvec(w[c]) for c in comps]) for w in wins])


def ratios_of(w, comps, nsta, nlta):
    out = []
    for c in comps:
        x = np.abs(np.array(w[c]))
        nin = len(x) // nsta
        short = x[:nsta * nin]
        sta = short.reshape(nin, nsta).mean(axis=1)
        lta = short[:nlta].mean()
        out.append(sta / lta)
    return out


def extra_streams(ctx, rng):
    """(a) windows with different sampling rates in one STA/LTA call: every window is judged with ITS OWN time step (the decision depends on
    that window only); (b) the same window objects screened again after their samples were edited in place: the second decision is taken on the
    samples as they are now"""
    import hvsrpy
    # (a)
    for j in range(ctx.budget(12, 100)):
        nw = int(rng.integers(3, 8))
        dts = [float(rng.choice([0.005, 0.01, 0.02])) for _ in range(nw)]
        if len(set(dts)) < 2:
            dts[-1] = 0.02 if dts[0] != 0.02 else 0.005
        wins = [gen_windows(rng, 1, 400, d)[0] for d in dts]
        comps = [COMPS, ["vt"], ["ns", "ew"]][j % 3]
        sta, lta = float(rng.choice([0.2, 0.1, 0.25])), float(rng.choice([1.0, 1.5]))
        lo, hi = float(rng.choice([0.2, 0.4])), float(rng.choice([2.0, 3.0]))
        recs = [pg.make_srecord(w) for w in wins]
        try:
            kept = hvsrpy.sta_lta_window_rejection(recs, sta_seconds=sta, lta_seconds=lta, min_sta_lta_ratio=lo, max_sta_lta_ratio=hi, components=tuple(comps))
        except (IndexError, ZeroDivisionError, ValueError):
            continue
        res = [any(k is r for k in kept) for r in recs]
        mo = [None] * nw
        near = False
        for d in sorted(set(dts)):
            idx = [k for k in range(nw) if dts[k] == d]
            t = Toks(run_driver([f"stalta {hexf(sta)} {hexf(lta)} {hexf(d)} {hexf(lo)} {hexf(hi)} {wins_tokens([wins[k] for k in idx], comps)}"])[0])
            if t.tok() != "ok":
                mo = None
                break
            nsta, nlta = t.nat(), t.nat()
            for k, b in zip(idx, t.bvec()):
                mo[k] = b
                rs = np.concatenate(ratios_of(wins[k], comps, nsta, nlta))
                near = near or bool(np.min(np.abs(rs - hi)) < 1e-9 * hi or np.min(np.abs(rs - lo)) < 1e-9)
        ctx.supporting["mixed_dt_stalta_cases"] = ctx.supporting.get("mixed_dt_stalta_cases", 0) + 1
        if mo is not None and res != mo and not near:
            ctx.violation("decision-depends-on-that-window-only", dict(case=dict(kind="stalta-mixed-dt", dts=dts, sta=sta, lta=lta, lo=lo, hi=hi, comps=comps, wins=wins), impl=res, model=mo),
                          seam="sta_lta_window_rejection on windows with different time steps")
    # (b)
    for j in range(ctx.budget(12, 100)):
        nw = int(rng.integers(3, 8)); dt = 0.01
        wins = gen_windows(rng, nw, 200, dt)
        recs = [pg.make_srecord(w) for w in wins]
        comps = [COMPS, ["vt"], ["ns", "ew"]][j % 3]
        normalized = bool(j % 2)
        allmax = [max(np.max(np.abs(w[c])) for c in comps) for w in wins]
        thr = 0.7 if normalized else float(np.median(allmax) * 1.3)
        hvsrpy.maximum_value_window_rejection(recs, maximum_value_threshold=thr, normalized=normalized, components=tuple(comps))
        k = int(rng.integers(0, nw))
        fac = float(rng.choice([30.0, 1e-3]))
        for c in COMPS:      # edit the samples through the public array, in place
            getattr(recs[k], c).amplitude[:] *= fac
            wins[k] = dict(wins[k]); wins[k][c] = [float(x) for x in getattr(recs[k], c).amplitude]
        kept = hvsrpy.maximum_value_window_rejection(recs, maximum_value_threshold=thr, normalized=normalized, components=tuple(comps))
        res = [any(q is r for q in kept) for r in recs]
        tk = Toks(run_driver([f"maxval {hexf(thr)} {1 if normalized else 0} {wins_tokens(wins, comps)}"])[0])
        tk.tok()
        mo = tk.bvec()
        ctx.supporting["rescreen_after_edit_cases"] = ctx.supporting.get("rescreen_after_edit_cases", 0) + 1
        if res != mo:
            ctx.violation("keeps-exactly-windows-satisfying-criterion", dict(case=dict(kind="maxval-after-in-place-edit", thr=thr, normalized=normalized, comps=comps, edited=k, factor=fac, wins=wins),
                                                                           impl=res, model=mo), seam="maximum_value_window_rejection called again after an in-place edit")


def run(ctx):
    import hvsrpy
    ctx.rule = ("cases = lists of 2-10 windows (3 components, 60-400 samples, planted transients and quiet gaps) x STA/LTA lengths not exceeding the window "
                "(incl. lengths that are not multiples of dt and the 1 s @ 100 Hz = 99 points case) x limits x component subsets x {no HVSR object, traditional, azimuthal}; "
                "and maximum-value rejection (normalised / absolute); criteria that keep every window / no window in ~12 % / ~6 %; HVSR objects arriving with masks "
                "left by an earlier rejection in half of the cases; compared: identity (`is`) and order of the returned objects, masks on every azimuth, decisions vs the model; "
                "non-trivial = >=1 kept and >=1 rejected window; distinct by input hash")
    ctx.trusted += ["Python float floor division `seconds // dt` is the floor of the exact quotient (mirrored with exact rationals)"]
    rng = np.random.default_rng(ctx.seed)
    n = ctx.budget(150, 2000)
    lines, cases = [], []
    for i in range(n):
        dt = float(rng.choice([0.01, 0.005, 1 / 128, 0.004, 1 / 75]))
        nsmp = int(rng.integers(60, 400))
        nw = int(rng.integers(2, 11))
        # a fifth of the cases: the window length is an exact multiple of the STA length and a transient sits in the LAST
        # short-term chunk (every whole chunk of the window is examined, also the one that ends with the window)
        exact_nsta = int(rng.integers(5, 40)) if rng.random() < 0.2 else None
        if exact_nsta:
            nsmp = exact_nsta * int(rng.integers(3, 10))
        wins = gen_windows(rng, nw, nsmp, dt)
        comps = [COMPS, ["vt"], ["ns", "ew"], ["ew", "vt"], ["vt", "ns", "ew"]][int(rng.integers(0, 5))]
        if exact_nsta:
            w = wins[int(rng.integers(0, nw))]
            a = np.array(w[comps[0]]); a[nsmp - max(2, exact_nsta // 2):] *= rng.uniform(20, 80); w[comps[0]] = a.tolist()
            ctx.count("stalta:last-chunk-transient")
        recs = [pg.make_srecord(w) for w in wins]
        kind = ["none", "T", "A"][i % 3]
        hv = None
        if kind != "none":
            freq = hvgen.gen_freq(rng, 12)
            if kind == "T":
                hv = hvsrpy.HvsrTraditional(freq, hvgen.gen_curve_set(rng, freq, nw))
            else:
                hv = hvsrpy.HvsrAzimuthal([hvsrpy.HvsrTraditional(freq, hvgen.gen_curve_set(rng, freq, nw)) for _ in range(2)], [0.0, 90.0])
        dirty = False
        if hv is not None and rng.random() < 0.5:
            # the object arrives with masks left by an earlier rejection (or a window without a peak): they must END equal to this selection
            dirty = True
            for h in (hv.hvsrs if kind == "A" else [hv]):
                k = int(rng.integers(0, nw))
                h.valid_window_boolean_mask[k] = False
                h.valid_peak_boolean_mask[k] = False
        extreme = rng.random()     # < 0.12: a criterion nothing violates (every window kept); > 0.94: one everything violates
        if i % 4 != 3:
            dur = (nsmp - 1) * dt
            sta = float(rng.choice([rng.uniform(2 * dt, dur / 4), 10 * dt, 1.0 if dur > 1.0 else 5 * dt, dur * 2 if rng.random() < 0.1 else 3 * dt]))
            lta = float(rng.choice([rng.uniform(min(sta, dur * 0.5), dur), dur / 2, dur * 3 if rng.random() < 0.1 else dur * 0.9]))
            lo = float(rng.choice([0.2, 0.1, 0.5, rng.uniform(0.05, 0.6)])); hi = float(rng.choice([2.5, 1.5, 4.0, rng.uniform(1.2, 6)]))
            if exact_nsta:
                sta, lta = (exact_nsta + 0.5) * dt, 0.6 * dur
                lo, hi = 0.2, 2.5
            elif extreme < 0.12:
                lo, hi = 0.0, 1e12
            elif extreme > 0.94:
                lo, hi = 0.999, 1.001
            try:
                kept = hvsrpy.sta_lta_window_rejection(recs, sta_seconds=sta, lta_seconds=lta, min_sta_lta_ratio=lo, max_sta_lta_ratio=hi, components=tuple(comps), hvsr=hv)
                res = [any(k is r for k in kept) for r in recs]
                order_ok = [id(k) for k in kept] == [id(r) for r, b in zip(recs, res) if b]
            except (IndexError, ZeroDivisionError, ValueError) as e:
                kept, res, order_ok = None, "err", True
            cases.append(dict(kind="stalta", dt=dt, n=nsmp, sta=sta, lta=lta, lo=lo, hi=hi, comps=comps, wins=wins, impl=res, order_ok=order_ok, hv=hv, hvkind=kind, masks_dirty_before=dirty))
            lines.append(f"stalta {hexf(sta)} {hexf(lta)} {hexf(dt)} {hexf(lo)} {hexf(hi)} {wins_tokens(wins, comps)}")
        else:
            normalized = bool(rng.random() < 0.5)
            allmax = [max(np.max(np.abs(w[c])) for c in comps) for w in wins]
            thr = float(rng.choice([0.9, 0.5, rng.uniform(0.1, 1.0)])) if normalized else float(np.quantile(allmax, rng.uniform(0.2, 0.9)) * rng.uniform(0.9, 1.1))
            if rng.random() < 0.2:     # threshold exactly on a window's maximum (strict '<')
                thr = float(allmax[int(rng.integers(0, nw))] / (max(allmax) if normalized else 1.0))
            if extreme < 0.2:
                thr = 1.5 if normalized else float(max(allmax) * 1.5)        # rejects nothing
            elif extreme > 0.94:
                thr = float(min(allmax) * 0.5 / (max(allmax) if normalized else 1.0))   # rejects everything
            kept = hvsrpy.maximum_value_window_rejection(recs, maximum_value_threshold=thr, normalized=normalized, components=tuple(comps), hvsr=hv)
            res = [any(k is r for k in kept) for r in recs]
            order_ok = [id(k) for k in kept] == [id(r) for r, b in zip(recs, res) if b]
            cases.append(dict(kind="maxval", dt=dt, n=nsmp, thr=thr, normalized=normalized, comps=comps, wins=wins, impl=res, order_ok=order_ok, hv=hv, hvkind=kind, masks_dirty_before=dirty))
            lines.append(f"maxval {hexf(thr)} {1 if normalized else 0} {wins_tokens(wins, comps)}")
    extra_streams(ctx, np.random.default_rng(ctx.seed + 13))
    outs = run_driver(lines)
    for c, o in zip(cases, outs):
        t = Toks(o)
        tag = t.tok()
        pub = {k: v for k, v in c.items() if k not in ("hv",)}
        if c["kind"] == "stalta":
            if tag == "ok":
                nsta, nlta = t.nat(), t.nat(); mo = t.bvec()
            else:
                mo = "err"
        else:
            mo = t.bvec()
        res = c["impl"]
        ctx.case((c["kind"], c["comps"], c.get("sta"), c.get("lta"), c.get("thr"), c["wins"]), nontrivial=(res != "err" and any(res) and not all(res)),
                 sample=dict(kind=c["kind"], n_windows=len(c["wins"]), n=c["n"], dt=c["dt"], comps=c["comps"], sta=c.get("sta"), lta=c.get("lta"), lo=c.get("lo"), hi=c.get("hi"),
                             thr=c.get("thr"), normalized=c.get("normalized"), kept=res, hvsr=c["hvkind"]))
        ctx.count("kind:" + c["kind"]); ctx.count("hvsr:" + c["hvkind"]); ctx.count("masks_before:" + ("dirty" if c["masks_dirty_before"] else "clean")); ctx.count("result:" + ("err" if res == "err" else "mixed" if any(res) and not all(res) else "uniform"))
        ctx.traces += 1
        if not c["order_ok"]:
            ctx.violation("returned-in-original-order-as-same-objects", dict(case=pub), seam="returned list")
        if res != mo:
            near = False
            if res != "err" and mo != "err":
                if c["kind"] == "stalta":
                    for w, a, b in zip(c["wins"], res, mo):
                        if a != b:
                            rs = np.concatenate(ratios_of(w, c["comps"], nsta, nlta))
                            near = near or bool(np.min(np.abs(rs - c["hi"])) < 1e-9 * c["hi"] or np.min(np.abs(rs - c["lo"])) < 1e-9)
                else:
                    near = False
            if near:
                ctx.near_tie_skipped += 1
            else:
                ctx.violation("keeps-exactly-windows-satisfying-criterion", dict(case=pub, model=mo), seam="sta_lta/maximum_value window rejection")
            continue
        if res == "err":
            continue
        hv = c["hv"]
        if hv is not None:
            hs = hv.hvsrs if c["hvkind"] == "A" else [hv]
            for h in hs:
                if [bool(b) for b in h.valid_window_boolean_mask] != res or [bool(b) for b in h.valid_peak_boolean_mask] != res:
                    ctx.violation("hvsr-masks-equal-selection-on-every-azimuth", dict(case=pub, mask=[bool(b) for b in h.valid_window_boolean_mask]), seam="hvsr= argument")
                    break
    # metamorphic probes on the implementation: locality, rescaling, widening, conjunction over components
    for j in range(ctx.budget(40, 400)):
        dt = 0.01; nsmp = int(rng.integers(100, 300)); nw = int(rng.integers(3, 8))
        wins = gen_windows(rng, nw, nsmp, dt)
        recs = [pg.make_srecord(w) for w in wins]
        sta, lta = float(rng.uniform(0.05, 0.3)), float(rng.uniform(0.5, (nsmp - 1) * dt))
        lo, hi = float(rng.uniform(0.1, 0.5)), float(rng.uniform(1.5, 4))
        keep = lambda rs, lo=lo, hi=hi, comps=tuple(COMPS): [any(k is r for k in hvsrpy.sta_lta_window_rejection(rs, sta, lta, lo, hi, comps)) for r in rs]
        base = keep(recs)
        ctx.supporting["metamorphic_cases"] = ctx.supporting.get("metamorphic_cases", 0) + 1
        nsta, nlta = int(sta // dt), int(lta // dt)
        margin = min(min(np.min(np.abs(r - hi)), np.min(np.abs(r - lo))) for w in wins for r in ratios_of(w, COMPS, nsta, nlta))
        if margin < 1e-7:
            continue
        alone = [keep([r])[0] for r in recs]
        if alone != base:
            ctx.violation("decision-depends-on-that-window-only", dict(case=dict(wins=wins, sta=sta, lta=lta, lo=lo, hi=hi), joint=base, alone=alone), seam="sta_lta_window_rejection")
        cfac = float(rng.choice([1e-9, 1e-3, 0.5, 40.0, 1e6]))
        scaled = [pg.make_srecord(dict(w, ns=(np.array(w["ns"]) * cfac).tolist(), ew=(np.array(w["ew"]) * cfac).tolist(), vt=(np.array(w["vt"]) * cfac).tolist())) for w in wins]
        if keep(scaled) != base:
            ctx.violation("unchanged-by-common-rescaling", dict(case=dict(wins=wins, sta=sta, lta=lta, lo=lo, hi=hi), factor=cfac), seam="sta_lta_window_rejection")
        wide = keep(recs, lo * 0.7, hi * 1.4)
        if any(b and not w for b, w in zip(base, wide)):
            ctx.violation("widening-limits-only-turns-reject-into-keep", dict(case=dict(wins=wins, sta=sta, lta=lta, lo=lo, hi=hi), base=base, wide=wide), seam="sta_lta_window_rejection")
        per = [keep(recs, lo, hi, (k,)) for k in COMPS]
        conj = [all(p[i] for p in per) for i in range(nw)]
        if conj != base:
            ctx.violation("several-components-is-conjunction", dict(case=dict(wins=wins, sta=sta, lta=lta, lo=lo, hi=hi), joint=base, per_component=per), seam="sta_lta_window_rejection")


def replay(case):
    import hvsrpy
    recs = [pg.make_srecord(w) for w in case["wins"]]
    if case["kind"] == "stalta":
        kept = hvsrpy.sta_lta_window_rejection(recs, case["sta"], case["lta"], case["lo"], case["hi"], tuple(case["comps"]))
        line = f"stalta {hexf(case['sta'])} {hexf(case['lta'])} {hexf(case['dt'])} {hexf(case['lo'])} {hexf(case['hi'])} {wins_tokens(case['wins'], case['comps'])}"
    else:
        kept = hvsrpy.maximum_value_window_rejection(recs, case["thr"], case["normalized"], tuple(case["comps"]))
        line = f"maxval {hexf(case['thr'])} {1 if case['normalized'] else 0} {wins_tokens(case['wins'], case['comps'])}"
    return dict(impl=[any(k is r for k in kept) for r in recs], model=run_driver([line])[0])
