"""C09 -- processing has no side effects on its inputs and is repeatable"""
import copy
import numpy as np

from common import *
import procgen as pg

PROP_MODULES = ["HvsrVerif.Props.C09"]
BRIDGE_MODULES = ["HvsrVerif.Bridge.PyFft"]


def snapshot(srecords):
    return [dict(ns=r.ns.amplitude.copy(), ew=r.ew.amplitude.copy(), vt=r.vt.amplitude.copy(), dt=(r.ns.dt_in_seconds, r.ew.dt_in_seconds, r.vt.dt_in_seconds),
                 deg=r.degrees_from_north, meta=copy.deepcopy(r.meta)) for r in srecords]


def snap_equal(a, b):
    for x, y in zip(a, b):
        for k in ("ns", "ew", "vt"):
            if not (x[k].shape == y[k].shape and np.array_equal(x[k].view(np.uint64), y[k].view(np.uint64))):
                return False, k
        if x["dt"] != y["dt"] or x["deg"] != y["deg"]:
            return False, "dt/deg"
        if x["meta"] != y["meta"]:
            return False, "meta"
    return len(a) == len(b), "count"


def result_arrays(res, fam):
    if fam == "az":
        return [h.amplitude for h in res.hvsrs] + [res.hvsrs[0].frequency]
    if fam == "psd":
        return [res[k].amplitude for k in ("ns", "ew", "vt")] + [res["ns"].frequency]
    return [res.amplitude, res.frequency]


def result_snapshot(res, fam):
    arrs = [np.array(a, copy=True) for a in result_arrays(res, fam)]
    meta = copy.deepcopy(res.meta) if fam != "psd" else None
    return arrs, meta


def gen_case(rng, i):
    fam = ["trad", "saz", "rot", "az", "diff", "psd"][i % 6]
    dt = float(rng.choice(pg.DTS))
    L = int(rng.integers(40, 400))
    nrec = int(rng.integers(1, 4))
    recs = [pg.gen_record(rng, n=(L if fam in ("diff", "psd") else int(rng.integers(40, 400))), dt=dt, deg=float(rng.choice([0.0, 35.0]))) for _ in range(nrec)]
    if nrec >= 2 and fam not in ("psd",) and rng.random() < 0.3:
        # time steps that are equal to single precision only (what float32 file headers produce): inputs must still be left alone
        recs[-1]["dt"] = float(np.float32(dt))
        if fam == "diff":
            recs[-1]["dt"] = dt
    if rng.random() < 0.18:
        # a recording with a gap or a clipped sample (NaN / +-inf in one horizontal or in the vertical): whatever process() makes of it -- a curve or a refusal --
        # the caller's samples stay what they were
        k = int(rng.integers(0, nrec)); comp = str(rng.choice(["ns", "ew", "vt", "ns"]))
        j = int(rng.integers(0, len(recs[k][comp])))
        recs[k][comp] = list(recs[k][comp]); recs[k][comp][j] = float(rng.choice([np.nan, np.inf, -np.inf]))
    fft = [None, dict(n=65536), dict(n=None)][int(rng.integers(0, 3))] if True else None
    max_n = max(len(r["vt"]) for r in recs)
    nfft = pg.predicted_nfft(fft, max_n)
    sm = pg.gen_smoothing(rng, max(nfft, 32768) if fam == "az" else nfft, [dt], op=str(rng.choice(["konno_and_ohmachi", "parzen", "linear_rectangular", "log_triangular"])), nfc=8)
    c = dict(family=fam, smoothing=sm, width=float(rng.choice(pg.WIDTHS)), fft=fft, policy=pg.POLICIES[0] if fam not in ("diff", "psd") else "keeping_majority_time_step", records=recs)
    if fam == "trad":
        c["method"] = pg.COMBINE_NAMES[int(rng.integers(0, len(pg.COMBINE_NAMES)))]
    elif fam == "saz":
        c["azimuth"] = float(rng.uniform(0, 180))
    elif fam == "rot":
        c["pct"] = 50.0; c["azimuths"] = [0.0, 45.0, 90.0, 135.0]
    elif fam == "az":
        c["azimuths"] = [0.0, 60.0, 120.0]
    c["fcs_as_array"] = bool(i % 2 == 0)
    c["files_meta"] = bool(i % 3 != 0)
    return c


def check_case(ctx, c, rng):
    import hvsrpy
    srecords = [pg.make_srecord(r) for r in c["records"]]
    settings = pg.make_settings(c)
    if c.get("files_meta"):
        # what the three-file readers (miniSEED, PEER, ...) store: a LIST of file names, i.e. a mutable value nested in meta
        for k, r in enumerate(srecords):
            r.meta["file name(s)"] = [f"sta{k}_{comp}.miniseed" for comp in ("ns", "ew", "vt")]
    if c.get("fcs_as_array") and settings.smoothing is not None:
        # the default holds the centre frequencies as a float64 ndarray: results must not alias it
        settings.smoothing["center_frequencies_in_hz"] = np.array(settings.smoothing["center_frequencies_in_hz"], dtype=float)
    before = snapshot(srecords)
    r1 = pg.run_impl(c, srecords, settings)
    after = snapshot(srecords)
    fam = c["family"]
    same, what = snap_equal(before, after)
    ctx.count("family:" + fam); ctx.count("fft:" + pg.fft_token(c["fft"])); ctx.count("result:" + ("err" if isinstance(r1["result"], str) else "ok"))
    ctx.traces += 1
    if not same:
        ctx.violation("recordings-left-as-they-were", dict(case=c, changed=what), seam="hvsrpy.process")
        return
    if isinstance(r1["result"], str):
        return
    if ctx.evaluations % 4 == 0 and all(np.all(np.isfinite(r[k])) for r in c["records"] for k in ("ns", "ew", "vt")):
        # the result is a function of what the recordings hold when process() is called: same objects edited in place and processed again vs fresh objects
        bad = pg.edited_reprocess_probe(c, np.random.default_rng(ctx.seed + ctx.evaluations))
        ctx.supporting["edited_reprocess_cases"] = ctx.supporting.get("edited_reprocess_cases", 0) + 1
        if bad is not None:
            ctx.violation("same-call-same-result", dict(case=c, why="recording objects edited in place after a first process() and processed again do not give the result of "
                                                                   "fresh objects holding the edited samples", **{k: v for k, v in bad.items() if k != "edited_records"}),
                          seam="hvsrpy.process on edited recording objects")
            return
    res1 = r1["obj"]
    # aliasing between result and inputs / settings
    inputs = [getattr(r, k).amplitude for r in srecords for k in ("ns", "ew", "vt")]
    for a in result_arrays(res1, fam):
        if any(np.shares_memory(a, b) for b in inputs) or np.shares_memory(a, np.asarray(settings.smoothing["center_frequencies_in_hz"])):
            ctx.violation("result-shares-memory-with-input", dict(case=c), seam="np.shares_memory")
            return
    snap1 = result_snapshot(res1, fam)
    # same call again, same settings object (state {"n": None} excluded: known finding C09-c, witnessed separately)
    fft_after_first = pg.fft_token(settings.fft_settings)
    r2 = pg.run_impl(c, srecords, settings)
    ctx.supporting["repeat_runs"] = ctx.supporting.get("repeat_runs", 0) + 1
    if pg.fft_token(c["fft"]) != "none":
        if isinstance(r2["result"], str) or not all(np.array_equal(x, y) for x, y in zip(result_arrays(r2["obj"], fam), snap1[0])):
            ctx.violation("same-call-same-result", dict(case=c, fft_after_first=fft_after_first, fft_after_second=pg.fft_token(settings.fft_settings)), seam="hvsrpy.process twice")
            return
    else:
        if isinstance(r2["result"], str) or not all(np.array_equal(x, y) for x, y in zip(result_arrays(r2["obj"], fam), snap1[0])):
            ctx.violation("same-call-same-result", dict(case=c, fft_state="none", fft_after_first=fft_after_first, fft_after_second=pg.fft_token(settings.fft_settings)),
                          seam="hvsrpy.process twice")
    # ... and again after REFUSED calls in between (the same settings object handed faulty recordings, and other families failing on faulty recordings):
    # what a failed call leaves behind -- in the settings object, in module-level state -- must not reach a later successful call
    if (ctx.evaluations % 2 == 0 or fam in ("saz", "diff")) and pg.fft_token(c["fft"]) != "none":        # {"n": None} is the recorded finding C09-c
        n_ref = fault_interleave(ctx, c, srecords, settings, rng)
        ctx.supporting["fault_interleaved_cases"] = ctx.supporting.get("fault_interleaved_cases", 0) + 1
        ctx.supporting["refused_calls_in_between"] = ctx.supporting.get("refused_calls_in_between", 0) + n_ref
        same, what = snap_equal(before, snapshot(srecords))
        if not same:
            ctx.violation("recordings-left-as-they-were", dict(case=c, changed=what, after="refused calls in between"), seam="hvsrpy.process")
            return
        r3 = pg.run_impl(c, srecords, settings)
        if isinstance(r3["result"], str) or not all(np.array_equal(x, y) for x, y in zip(result_arrays(r3["obj"], fam), snap1[0])):
            ctx.violation("same-call-same-result", dict(case=c, history="process, process, REFUSED calls (same settings object on recordings with a non-finite sample; "
                                                        "azimuthal / single-azimuth / diffuse-field / PSD calls refused on such recordings, an unknown taper), process",
                                                        third=(r3.get("error") if isinstance(r3["result"], str) else "differs from the first result"),
                                                        refused_calls=n_ref), seam="hvsrpy.process after refused calls")
            return
    # interleaved with another processing on other records must not matter
    other = [pg.make_srecord(pg.gen_record(rng, n=64, dt=c["records"][0]["dt"]))]
    pg.run_impl(dict(c, records=None), other, pg.make_settings(c))
    same, what = snap_equal(before, snapshot(srecords))
    if not same:
        ctx.violation("recordings-left-as-they-were", dict(case=c, changed=what, after="interleaved run"), seam="hvsrpy.process")
    # the first result must not change when recordings or settings are modified afterwards
    for r in srecords:
        r.ns.amplitude *= 3.0; r.vt.amplitude += 1.0
        r.meta["tamper"] = 1
        if isinstance(r.meta.get("file name(s)"), list):
            r.meta["file name(s)"].append("tampered-after-process")     # in-place edit of a nested value
        r.degrees_from_north = 11.0
    try:
        settings.window_type_and_width[1] = 0.9
        settings.smoothing["center_frequencies_in_hz"][0] = 1e-3
        settings.smoothing["bandwidth"] = 1.0
        if settings.fft_settings is not None:
            settings.fft_settings["n"] = 7
        if hasattr(settings, "azimuths_in_degrees"):
            settings.azimuths_in_degrees[0] = 99.0
    except Exception:
        pass
    snap_after = result_snapshot(res1, fam)
    ctx.supporting["tamper_checks"] = ctx.supporting.get("tamper_checks", 0) + 1
    if not all(np.array_equal(x, y) for x, y in zip(snap_after[0], snap1[0])) or snap_after[1] != snap1[1]:
        diff = None
        if snap_after[1] != snap1[1] and snap1[1] is not None:
            diff = [k for k in snap1[1] if snap_after[1].get(k) != snap1[1].get(k)]
        ctx.violation("result-unchanged-by-later-modifications", dict(case=c, meta_keys_changed=diff), seam="result vs inputs/settings aliasing")


def fault_interleave(ctx, c, srecords, settings, rng):
    """calls of process() that are refused at different depths of the pipeline; returns how many were refused. The caller's settings object is used for the
    first ones (on faulty copies of the recordings), fresh settings objects for the other families."""
    refused = 0
    recs = copy.deepcopy(c["records"])
    k = len(recs) // 2
    variants = []
    for comp, val in (("ns", np.nan), ("vt", np.inf), ("ew", -np.inf)):
        bad = copy.deepcopy(recs)
        bad[k][comp] = list(bad[k][comp]); bad[k][comp][len(bad[k][comp]) // 2] = float(val)
        variants.append(bad)
    dead = copy.deepcopy(recs)
    dead[-1]["vt"] = [0.0] * len(dead[-1]["vt"])         # a dead vertical: division by zero -> non-finite curve -> refused late
    variants.append(dead)
    # (1) the caller's own settings object on faulty recordings
    for bad in variants[:2] + variants[3:]:
        r = pg.run_impl(c, [pg.make_srecord(x) for x in bad], settings)
        refused += isinstance(r["result"], str)
    # (2) the other families, fresh settings, faulty recordings (late refusals of the azimuthal loop, refusals inside the PSD step)
    for fam2 in ("az", "saz", "diff", "psd", "rot"):
        c2 = dict(c, family=fam2, azimuths=[0.0, 45.0, 100.0], azimuth=30.0, pct=50.0, policy="keeping_majority_time_step")
        c2.pop("method", None)
        for bad in (variants[int(rng.integers(0, 3))], variants[3]):
            try:
                r = pg.run_impl(c2, [pg.make_srecord(x) for x in bad], pg.make_settings(c2))
            except Exception:       # noqa  (anything a faulty input provokes)
                refused += 1
                continue
            refused += isinstance(r["result"], str)
    # (3) an unknown taper and a malformed FFT length with the caller's kind of settings
    for edit in ("taper", "fft"):
        st = pg.make_settings(c)
        if edit == "taper":
            st.window_type_and_width = ["no-such-taper", 0.1]
        else:
            st.fft_settings = dict(n="many")
        try:
            r = pg.run_impl(c, [pg.make_srecord(x) for x in recs], st)
            refused += isinstance(r["result"], str)
        except Exception:           # noqa
            refused += 1
    return refused


def witness_c09c(ctx):
    """known finding C09-c: fft_settings={"n": None} -> first call stores n = record length, second nextpow2 of it"""
    rng = np.random.default_rng(9)
    rec = pg.gen_record(rng, n=300, dt=0.01, scale=1.0)
    sm = dict(operator="konno_and_ohmachi", bandwidth=40.0, center_frequencies_in_hz=[1.0, 2.0, 5.0, 10.0, 20.0])
    c = dict(family="trad", method="geometric_mean", smoothing=sm, width=0.1, fft=dict(n=None), policy=pg.POLICIES[0], records=[rec])
    srecords = [pg.make_srecord(rec)]
    settings = pg.make_settings(c)
    r1 = pg.run_impl(c, srecords, settings); n1 = pg.fft_token(settings.fft_settings)
    r2 = pg.run_impl(c, srecords, settings); n2 = pg.fft_token(settings.fft_settings)
    mo = run_driver(["prepfft none 300", "prepfft 300 300"])
    ctx.notes.append(f"C09-c witness: fft n after first/second call = {n1}/{n2}; model prepfft: {mo[0]} / {mo[1]}")
    if isinstance(r1["result"], str) or isinstance(r2["result"], str) or not np.array_equal(r1["result"], r2["result"]):
        ctx.violation("same-call-same-result", dict(case=c, fft_state="none", fft_after_first=n1, fft_after_second=n2), seam="hvsrpy.process twice")


def witness_c09e(ctx):
    """known finding C09-e: the FFT length stored in the settings object only ever grows: process(short), process(long), process(short)
    with ONE settings object -> the third result differs from the first (n = 32768, then 65536 for both later calls)"""
    rng = np.random.default_rng(19)
    short = pg.gen_record(rng, n=300, dt=0.01, scale=1.0)
    long_ = pg.gen_record(rng, n=33000, dt=0.01, scale=1.0)
    sm = dict(operator="konno_and_ohmachi", bandwidth=40.0, center_frequencies_in_hz=[1.0, 2.0, 5.0, 10.0, 20.0])
    c = dict(family="trad", method="geometric_mean", smoothing=sm, width=0.1, fft=None, policy=pg.POLICIES[0], records=[short])
    settings = pg.make_settings(c)
    s_rec, l_rec = [pg.make_srecord(short)], [pg.make_srecord(long_)]
    r1 = pg.run_impl(c, s_rec, settings); n1 = pg.fft_token(settings.fft_settings)
    pg.run_impl(dict(c, records=[long_]), l_rec, settings); n2 = pg.fft_token(settings.fft_settings)
    r3 = pg.run_impl(c, s_rec, settings); n3 = pg.fft_token(settings.fft_settings)
    mo = run_driver(["prepfft unset 300", "prepfft 32768 33000", "prepfft 65536 300"])
    ctx.notes.append(f"C09-e witness: fft n after short/long/short = {n1}/{n2}/{n3}; model prepfft: {mo[0]} / {mo[1]} / {mo[2]}")
    if isinstance(r1["result"], str) or isinstance(r3["result"], str) or not np.array_equal(r1["result"], r3["result"]):
        ctx.violation("same-call-same-result", dict(history="short-long-short", fft_after=[n1, n2, n3], case=dict(c, records="300-sample record; a 33000-sample record in between")),
                      seam="hvsrpy.process three times with one settings object")


def fft_state_correspondence(ctx, rng):
    """settings.fft_settings after process vs the model's prepareFft, all four branches"""
    lines, exp = [], []
    for _ in range(ctx.budget(30, 300)):
        fam = str(rng.choice(["trad", "saz", "diff", "psd"]))
        L = int(rng.integers(20, 300)) if rng.random() < 0.8 else int(rng.choice([32767, 32768, 32769, 65536, 65537]))
        fft = [None, dict(n=None), dict(n=int(rng.choice([L, 1000, 32768, 40000, 65536, 70000])))][int(rng.integers(0, 3))]
        rec = pg.gen_record(rng, n=L, dt=0.01, scale=1.0)
        c = dict(family=fam, method="geometric_mean", azimuth=10.0, smoothing=dict(operator="konno_and_ohmachi", bandwidth=40.0, center_frequencies_in_hz=[2.0, 5.0, 10.0]),
                 width=0.1, fft=fft, policy="keeping_majority_time_step", records=[rec])
        st = pg.make_settings(c)
        pg.run_impl(c, [pg.make_srecord(rec)], st)
        lines.append(f"prepfft {pg.fft_token(fft)} {L}")
        exp.append((c, pg.fft_token(st.fft_settings)))
    outs = run_driver(lines)
    for (c, im), o in zip(exp, outs):
        mo = o.split()[1]
        ctx.supporting["fft_state_cases"] = ctx.supporting.get("fft_state_cases", 0) + 1
        if im != mo:
            ctx.violation("fft-state-written-back-as-modelled", dict(case=dict(family=c["family"], fft=c["fft"], n_samples=len(c["records"][0]["vt"])), impl=im, model=mo),
                          found_input=False, seam="settings.fft_settings after process")


def run(ctx):
    ctx.rule = ("cases = every processing family (9 frequency-domain combinations, single azimuth, RotDpp, azimuthal, diffuse field, PSD) x tapers x FFT states "
                "(unset / user n / {n: None}) on 1-3 records of 40-400 samples: bit-level snapshot of every recording before/after, np.shares_memory between result and "
                "inputs, the same call twice, an interleaved call, then recordings and settings are modified in place and the first result re-snapshotted; "
                "non-trivial = processing succeeded (every such case contains mutating operations between snapshot and observation); distinct by input hash")
    ctx.assumptions += ["deep snapshots compare samples bit-for-bit via uint64 views"]
    rng = np.random.default_rng(ctx.seed)
    witness_c09c(ctx)
    witness_c09e(ctx)
    fft_state_correspondence(ctx, rng)
    n = ctx.budget(48, 600)
    # recordings whose length sits at a power of two (2**15 and 2**16, one below, one above): the FFT length chosen for an unset fft_settings must hold
    # the whole record and be the length a second call arrives at (seed C09-V of round 9 chose 2**15 for a record of 2**15 + 1 samples)
    boundary = [32767, 32768, 32769, 65535, 65536, 65537]
    nb = ctx.budget(3, 12)
    # every family sees a gap (NaN) and a clipped sample (+-inf) in a horizontal and in the vertical on every run, not only when the random stream
    # happens to put one there (seed C09-Z of round 10 zeroed them in place on the RotDpp path only)
    forced = [(fam_i, comp, val) for fam_i in range(6) for comp, val in (("ns", np.nan), ("ew", np.inf), ("vt", -np.inf))]
    for i in range(n + nb + len(forced)):
        if i >= n + nb:
            fam_i, comp, val = forced[i - n - nb]
            c = gen_case(rng, fam_i)
            if c["smoothing"] is None:
                continue
            k = len(c["records"]) - 1
            c["records"][k][comp] = list(c["records"][k][comp]); c["records"][k][comp][len(c["records"][k][comp]) // 2] = float(val)
            ctx.count("forced_nonfinite:" + c["family"])
            check_case(ctx, c, rng)
            ctx.case((c["family"], c.get("method"), c["fft"], c["width"], c["records"]), nontrivial=True,
                     sample=dict(family=c["family"], method=c.get("method"), fft=pg.fft_token(c["fft"]), n_records=len(c["records"]), width=c["width"], forced=comp))
            continue
        c = gen_case(rng, i if i < n else int(rng.choice([0, 1, 4, 5])))
        if i >= n and c["smoothing"] is not None:
            Lb = boundary[(ctx.seed + i) % len(boundary)]
            c["records"] = [pg.gen_record(rng, n=Lb, dt=c["records"][0]["dt"], deg=0.0)]
            c["fft"] = None
            c["smoothing"] = dict(c["smoothing"], center_frequencies_in_hz=c["smoothing"]["center_frequencies_in_hz"][:4])
            ctx.count("boundary_length:%d" % Lb)
        if c["smoothing"] is None:
            continue
        nv = len(ctx.violations) + len(ctx.known_hits)
        check_case(ctx, c, rng)
        ctx.case((c["family"], c.get("method"), c["fft"], c["width"], c["records"]), nontrivial=True,
                 sample=dict(family=c["family"], method=c.get("method"), fft=pg.fft_token(c["fft"]), n_records=len(c["records"]), width=c["width"]))


def replay(case):
    ctx = Ctx("C09", "quick", 0)
    check_case(ctx, case, np.random.default_rng(0))
    return dict(violations=[v["clause"] for v in ctx.violations], known=[k["id"] for k in ctx.known_hits])
