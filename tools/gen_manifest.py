"""Writes MANIFEST.json from the per-property table below (kept in one place so it stays valid)."""
import json, os
HERE = os.path.dirname(os.path.dirname(os.path.abspath(__file__)))
props = [json.loads(l) for l in open(os.path.join(HERE, "properties.jsonl"))]
ids = [p["id"] for p in props]

CLAIMED = {
 "C16": dict(
    text="Theorems over the Lean model of sesame.py (threshold table incl. band edges, reliability/clarity = guideline criteria, monotonicity of ii and v), "
         "model tied to the code by a bridge on the extracted constants (regenerated from source every run) and by differential execution of "
         "hvsrpy.sesame against the same model compiled natively (generic, edge-snapped and exact-tie curves, verbose 0/1/2).",
    note="Trusted: Lean kernel + standard axioms; harness/driver; scipy find_peaks default behaviour modelled by its contract; float rounding (near ties within 1e-7 relative are skipped and counted).",
    technique="Lean 4 theorems over an executable model + table bridge + differential correspondence",
    design="5/C16"),
 "C01": dict(
    text="Theorems: FFT length never truncates (all four branches of prepare_fft_settings), nextpow2 terminates with the minimal power, idempotence iff state != {n: None}; every "
         "registered combination is positively homogeneous with the stated closed forms for proportional components; taper, |DFT| and window smoothing are homogeneous, ratio scale law. "
         "The chain taper -> |rfft| -> combine -> smooth -> divide is the model's definition; it is tied to the code by differential execution of hvsrpy.process for every method x operator x "
         "taper (definitional DFT in the model, incl. the default FFT length 32768), by seam checks (taper, rfft, combine functions) and by the bridge on the three registers.",
    note="Trusted: numpy rfft = DFT (cross-checked on every case), np.percentile. The end-to-end scale-invariance theorem is proved per building block, not composed; the three laws and the closed form are tested on the implementation at n = 32768.",
    technique="Lean 4 theorems + differential correspondence + register bridge", design="5/C01"),
 "C02": dict(
    text="Theorems for the mirrored kernels: output = sum(w x)/sum(w) or 0, constants reproduced, bounds for non-negative weights, linearity, row independence, KO/Parzen = sinc^4, "
         "rect/tri closed forms, non-negativity of all six windows (log-triangular via monotone log), Savitzky-Golay moments and reproduction of every cubic polynomial. Tied to the code by "
         "differential execution of all seven operators, compiled AND interpreted (.py_func), and by the bridge on every numeric constant and the operator registry.",
    note="Trusted: libm/np.power differences (1e-9); samples within 1e-9 of a window limit are near ties (skipped and counted).",
    technique="Lean 4 theorems + differential correspondence (two seams) + constant bridge", design="5/C02"),
 "C03": dict(
    text="Theorems: scatter/gather bookkeeping is the identity for every arrangement of time steps (one row per record in input order), keep-smallest and keep-majority are order-preserving "
         "filters on the minimal resp. a most frequent dt, Nyquist guard sound and complete w.r.t. the largest kept dt, rows of a successful process are per-record curves. Tied to the code by "
         "mixed-dt lists under all three policies (model + alone/permuted runs at the default FFT length) and by the bridge on nextpow2/Nyquist constants and policy names.",
    note="Trusted: float equality of dt values as dict keys (mirrored).",
    technique="Lean 4 theorems (list bookkeeping) + differential correspondence + bridge", design="5/C03"),
 "C04": dict(
    text="Theorems over Real.cos/sin: rotation preserves energy, composes, inverts, is 360-periodic; stored orientation normalised to [0,360); polarised motion recovered after orienting to north; "
         "single azimuth = north component after orienting (for every current orientation), 180-degree antisymmetry of the projection, rotation invariance of the spectral energy, azimuthal result = "
         "stack of single-azimuth results at a fixed point of the FFT state. Tied to the code by orient_sensor_to and process correspondence and by metamorphic runs at the default FFT length.",
    note="RotDpp monotonicity/bounds in the percentile are tested on the implementation (np.percentile trusted), not proved.",
    technique="Lean 4 theorems (trigonometric identities, fold induction) + differential correspondence", design="5/C04"),
 "C08": dict(
    text="Theorems over the Lean peak model (soundness of the local-maximum search, completeness for strict maxima, peak = highest interior maximum of the slice, "
         "absent iff no interior maximum, peaks track the last range after ANY sequence of range updates and mask writes); tied to the code by differential execution on "
         "HvsrCurve/HvsrDiffuseField/HvsrTraditional/HvsrAzimuthal incl. update sequences, plus a brute-force oracle of the property sentence on every reported peak.",
    note="Trusted: scipy find_peaks default behaviour (modelled by contract, differentially tested); find_peaks keyword options not modelled; completeness for plateau maxima is tested, not proved.",
    technique="Lean 4 theorems (induction over reachable states) + differential correspondence + brute-force oracle", design="5/C08"),
 "C05": dict(
    text="Theorems: mean/std = textbook estimators (n-1, log space), NaN peaks excluded, frame/restriction property (every statistic equals that of the object holding the accepted "
         "windows only), frequency/period reciprocity, +-n symmetry, alias table; model tied to the code by op-by-op mirrored random histories (range updates, FDWRA, time masks, manual "
         "rejections) comparing every statistic under both distributions, by poisoned-row/rebuilt-object oracles and by the DISTRIBUTION_MAP bridge.",
    note="Trusted: numpy nansum/cov semantics mirrored; float rounding (1e-8 relative); undefined statistics (0/0) are Option.none in the model.",
    technique="Lean 4 theorems + history correspondence + table bridge", design="5/C05"),
 "C06": dict(
    text="Theorems over the mirrored FDWRA loop: one iteration keeps exactly the accepted windows with lower < f < upper, masks never re-accept (induction over iterations), "
         "1 <= iterations <= max_iterations, count returned at the limit, limits 0.01/0.01; tied to the code by return value + both masks + per-iteration DEBUG trace on traditional and "
         "azimuthal objects and by the limits/operator bridge; permutation and rescaling invariance are checked on the implementation (not proved).",
    note="Trusted: float rounding at zero guards / convergence limits / bounds (such runs are detected from the implementation's own trace, skipped and counted); permutation and scale invariance are tests.",
    technique="Lean 4 theorems (loop invariant) + differential correspondence with trace + table bridge", design="5/C06"),
 "C11": dict(
    text="Theorems: Cheng weights are positive, one per accepted window and sum to 1; zero count is refused; single azimuth reduces to the traditional mean and the Cheng denominator "
         "to (N-1)/N; model tied to the code by azimuthal histories with unequal acceptance (all statistics, both distributions) and probes (order of azimuths, mean of means, cov diagonal, pooled reduction).",
    note="Known finding C11-a (NaN peaks counted in the weights after a time-domain mask) is reported as KNOWN-FINDING. mean-of-means / equal-count reduction are tested on the implementation, proved only for one azimuth.",
    technique="Lean 4 theorems + history correspondence", design="5/C11"),
}
PENDING_REASON = "check not built yet in this round (work in progress; design in DESIGN.md section 5)"

checks = []
for pid in ids:
    if pid in CLAIMED:
        c = CLAIMED[pid]
        checks.append(dict(
            property_id=pid,
            quick_cmd=f"./check {pid} --tier quick",
            thorough_cmd=f"./check {pid} --tier thorough",
            evidence_file=f"evidence/{pid}.json",
            replay_cmd_template=f"./check {pid} --replay {{path}}",
            engine="lean4+correspondence",
            level_claimed=dict(category="proof", text=c["text"], design_ref=c["design"]),
            level_note=c["note"],
            technique=c["technique"],
        ))
manifest = dict(
    version=1,
    setup_cmd="cd lean && lake build HvsrVerif hvsrdrv",
    hooks=dict(guard="HVSRPY_VERIF", enable="HVSRPY_VERIF=1 (set by the harness; no source hooks are needed)",
               baseline_off_cmd="cd /repo && /venv/bin/python -m pytest -ra -q -p no:cacheprovider --timeout=900 --continue-on-collection-errors",
               source_commits=[], add_only=True),
    engines=[dict(name="lean4+correspondence", path="lean/ harness/ tools/", serves_properties=sorted(CLAIMED),
                  kind_free_text="Lean 4 model + theorems (lake), native driver hvsrdrv, Python differential harness, ast table extractor")],
    checks=checks,
    notes="See DESIGN.md. Exit code 2 = infrastructure failure/timeouts, never a violation.",
    not_applicable=[dict(property_id=p, reason=PENDING_REASON) for p in ids if p not in CLAIMED],
)
json.dump(manifest, open(os.path.join(HERE, "MANIFEST.json"), "w"), indent=1)
print("claimed", sorted(CLAIMED), "pending", len(manifest["not_applicable"]))
