"""Writes MANIFEST.json from the per-property table below (kept in one place so it stays valid)."""
import json, os
HERE = os.path.dirname(os.path.dirname(os.path.abspath(__file__)))
props = [json.loads(l) for l in open(os.path.join(HERE, "properties.jsonl"))]
ids = [p["id"] for p in props]

CLAIMED = {
 "C16": dict(
    text="Theorems over the Lean model of sesame.py (threshold table incl. band edges, reliability/clarity = guideline criteria, monotonicity of ii and v), "
         "model tied to the code by a bridge on the extracted constants (regenerated from source every run) and by differential execution of "
         "hvsrpy.sesame against the same model compiled natively (generic, edge-snapped and exact-tie curves, verbose 0/1/2).",
    note="Trusted: Lean kernel + standard axioms; harness/driver; scipy find_peaks default behaviour modelled by its contract; float rounding (near ties within 1e-7 relative are skipped and counted).",
    technique="Lean 4 theorems over an executable model + table bridge + differential correspondence",
    design="5/C16"),
}
PENDING_REASON = "check not built yet in this round (work in progress; design in DESIGN.md section 5)"

checks = []
for pid in ids:
    if pid in CLAIMED:
        c = CLAIMED[pid]
        checks.append(dict(
            property_id=pid,
            quick_cmd=f"./check {pid} --tier quick",
            thorough_cmd=f"./check {pid} --tier thorough",
            evidence_file=f"evidence/{pid}.json",
            replay_cmd_template=f"./check {pid} --replay {{path}}",
            engine="lean4+correspondence",
            level_claimed=dict(category="proof", text=c["text"], design_ref=c["design"]),
            level_note=c["note"],
            technique=c["technique"],
        ))
manifest = dict(
    version=1,
    setup_cmd="cd lean && lake build HvsrVerif hvsrdrv",
    hooks=dict(guard="HVSRPY_VERIF", enable="HVSRPY_VERIF=1 (set by the harness; no source hooks are needed)",
               baseline_off_cmd="cd /repo && /venv/bin/python -m pytest -ra -q -p no:cacheprovider --timeout=900 --continue-on-collection-errors",
               source_commits=[], add_only=True),
    engines=[dict(name="lean4+correspondence", path="lean/ harness/ tools/", serves_properties=sorted(CLAIMED),
                  kind_free_text="Lean 4 model + theorems (lake), native driver hvsrdrv, Python differential harness, ast table extractor")],
    checks=checks,
    notes="See DESIGN.md. Exit code 2 = infrastructure failure/timeouts, never a violation.",
    not_applicable=[dict(property_id=p, reason=PENDING_REASON) for p in ids if p not in CLAIMED],
)
json.dump(manifest, open(os.path.join(HERE, "MANIFEST.json"), "w"), indent=1)
print("claimed", sorted(CLAIMED), "pending", len(manifest["not_applicable"]))
