"""Writes MANIFEST.json from the per-property table below (kept in one place so it stays valid)."""
import json, os
HERE = os.path.dirname(os.path.dirname(os.path.abspath(__file__)))
props = [json.loads(l) for l in open(os.path.join(HERE, "properties.jsonl"))]
ids = [p["id"] for p in props]

CLAIMED = {
 "C15": dict(
    text="Theorems over a heap/aliasing model of the eight settings classes: non-interference for EVERY history of construct / in-place write / assign / save / load given that every mutable default is stored "
         "by a deep-enough copy (decided on the class table), defaults and later objects pristine, save/load and dispatching reader preserve class and content (induction on Json), every registered "
         "method alias dispatches to its class; alias storage provably breaks non-interference (counterexample). Tied to the code by op-by-op mirrored histories on the real classes, direct oracles and "
         "the bridge on the extracted class table (attributes, default kinds, store kinds) and dispatch chain.",
    note="Known findings C15-c/C15-d (explicit fft_settings / instrument_transfer_function stored by alias) are reported as KNOWN-FINDING. Trusted: Python json. numpy dtype coercion is outside the model.",
    technique="Lean 4 theorems (induction over op histories) + history correspondence + class-table bridge", design="5/C15"),
 "C16": dict(
    text="Theorems over the Lean model of sesame.py (threshold table incl. band edges, reliability/clarity = guideline criteria, monotonicity of ii and v), "
         "model tied to the code by a bridge on the extracted constants (regenerated from source every run) and by differential execution of "
         "hvsrpy.sesame against the same model compiled natively (generic, edge-snapped and exact-tie curves, verbose 0/1/2).",
    note="Trusted: Lean kernel + standard axioms; harness/driver; scipy find_peaks default behaviour modelled by its contract; float rounding (near ties within 1e-7 relative are skipped and counted).",
    technique="Lean 4 theorems over an executable model + table bridge + differential correspondence",
    design="5/C16"),
 "C01": dict(
    text="Theorems: FFT length never truncates (all four branches of prepare_fft_settings), nextpow2 terminates with the minimal power, idempotence iff state != {n: None}; every "
         "registered combination is positively homogeneous with the stated closed forms for proportional components; taper, |DFT| and window smoothing are homogeneous, ratio scale law. "
         "The chain taper -> |rfft| -> combine -> smooth -> divide is the model's definition; it is tied to the code by differential execution of hvsrpy.process for every method x operator x "
         "taper (definitional DFT in the model, incl. the default FFT length 32768), by seam checks (taper, rfft, combine functions) and by the bridge on the three registers.",
    note="Trusted: numpy rfft = DFT (cross-checked on every case), np.percentile. The end-to-end scale-invariance theorem is proved per building block, not composed; the three laws and the closed form are tested on the implementation at n = 32768.",
    technique="Lean 4 theorems + differential correspondence + register bridge", design="5/C01"),
 "C02": dict(
    text="Theorems for the mirrored kernels: output = sum(w x)/sum(w) or 0, constants reproduced, bounds for non-negative weights, linearity, row independence, KO/Parzen = sinc^4, "
         "rect/tri closed forms, non-negativity of all six windows (log-triangular via monotone log), Savitzky-Golay moments and reproduction of every cubic polynomial. Tied to the code by "
         "differential execution of all seven operators, compiled AND interpreted (.py_func), and by the bridge on every numeric constant and the operator registry.",
    note="Trusted: libm/np.power differences (1e-9); samples within 1e-9 of a window limit are near ties (skipped and counted).",
    technique="Lean 4 theorems + differential correspondence (two seams) + constant bridge", design="5/C02"),
 "C03": dict(
    text="Theorems: scatter/gather bookkeeping is the identity for every arrangement of time steps (one row per record in input order), keep-smallest and keep-majority are order-preserving "
         "filters on the minimal resp. a most frequent dt, Nyquist guard sound and complete w.r.t. the largest kept dt, rows of a successful process are per-record curves. Tied to the code by "
         "mixed-dt lists under all three policies (model + alone/permuted runs at the default FFT length) and by the bridge on nextpow2/Nyquist constants and policy names.",
    note="Trusted: float equality of dt values as dict keys (mirrored).",
    technique="Lean 4 theorems (list bookkeeping) + differential correspondence + bridge", design="5/C03"),
 "C04": dict(
    text="Theorems over Real.cos/sin: rotation preserves energy, composes, inverts, is 360-periodic; stored orientation normalised to [0,360); polarised motion recovered after orienting to north; "
         "single azimuth = north component after orienting (for every current orientation), 180-degree antisymmetry of the projection, rotation invariance of the spectral energy, azimuthal result = "
         "stack of single-azimuth results at a fixed point of the FFT state. Tied to the code by orient_sensor_to and process correspondence and by metamorphic runs at the default FFT length.",
    note="RotDpp monotonicity/bounds in the percentile are tested on the implementation (np.percentile trusted), not proved.",
    technique="Lean 4 theorems (trigonometric identities, fold induction) + differential correspondence", design="5/C04"),
 "C07": dict(
    text="Theorems over a token-level model of the readers: trace routing by channel suffix for every permutation (sound, complete, errors on missing/duplicate/other suffix), SAF column "
         "assignment for every V/N/E channel map, MiniShark scaling and its inverse, PEER routing for all six file orders (numeric and letter codes), sample-count mismatches raise in every text format, "
         "orientation rules (explicit value overrides metadata), read() argument broadcasting, first-success dispatch. Tied to the code by GENERATED files of every format (obspy writers for MSEED/SAC/GCF, own "
         "renderers for SAF/MiniShark/PEER; LF/CRLF; all orders; error streams) read through hvsrpy.read, and by the bridge on dispatch order, constants and regex sources.",
    note="Known finding C07-b (PEER horizontals equally far from north) is reported as KNOWN-FINDING. Trusted: obspy encode/decode pair, Python re (regex strings are tied by the bridge only; no lexer model).",
    technique="Lean 4 theorems (finite permutations + all-list statements) + generated-file correspondence + bridge", design="5/C07"),
 "C08": dict(
    text="Theorems over the Lean peak model (soundness of the local-maximum search, completeness for strict maxima, peak = highest interior maximum of the slice, "
         "absent iff no interior maximum, peaks track the last range after ANY sequence of range updates and mask writes); tied to the code by differential execution on "
         "HvsrCurve/HvsrDiffuseField/HvsrTraditional/HvsrAzimuthal incl. update sequences, plus a brute-force oracle of the property sentence on every reported peak.",
    note="Trusted: scipy find_peaks default behaviour (modelled by contract, differentially tested); find_peaks keyword options not modelled; completeness for plateau maxima is tested, not proved.",
    technique="Lean 4 theorems (induction over reachable states) + differential correspondence + brute-force oracle", design="5/C08"),
 "C05": dict(
    text="Theorems: mean/std = textbook estimators (n-1, log space), NaN peaks excluded, frame/restriction property (every statistic equals that of the object holding the accepted "
         "windows only), frequency/period reciprocity, +-n symmetry, alias table; model tied to the code by op-by-op mirrored random histories (range updates, FDWRA, time masks, manual "
         "rejections) comparing every statistic under both distributions, by poisoned-row/rebuilt-object oracles and by the DISTRIBUTION_MAP bridge.",
    note="Trusted: numpy nansum/cov semantics mirrored; float rounding (1e-8 relative); undefined statistics (0/0) are Option.none in the model.",
    technique="Lean 4 theorems + history correspondence + table bridge", design="5/C05"),
 "C06": dict(
    text="Theorems over the mirrored FDWRA loop: one iteration keeps exactly the accepted windows with lower < f < upper, masks never re-accept (induction over iterations), "
         "1 <= iterations <= max_iterations, count returned at the limit, limits 0.01/0.01; tied to the code by return value + both masks + per-iteration DEBUG trace on traditional and "
         "azimuthal objects and by the limits/operator bridge; permutation and rescaling invariance are checked on the implementation (not proved).",
    note="Trusted: float rounding at zero guards / convergence limits / bounds (such runs are detected from the implementation's own trace, skipped and counted); permutation and scale invariance are tests.",
    technique="Lean 4 theorems (loop invariant) + differential correspondence with trace + table bridge", design="5/C06"),
 "C09": dict(
    text="Theorems: store semantics of a processing path (M-HEAP): a path whose writes go only to buffers it allocated leaves every caller buffer unchanged (induction over the effect "
         "list); taper-a-copy satisfies the hypothesis, taper-in-place does not (witness); process is repeatable with the same settings object whenever the stored FFT state is a fixed point "
         "of prepare_fft_settings (every state but {n: None}). Tied to the code by bit-level snapshots of every recording before/after process for every family, shares_memory probes, "
         "repeated/interleaved runs, in-place tampering with recordings and settings afterwards, and the FFT-state correspondence.",
    note="Known finding C09-c ({n: None} is not a fixed point) is reported as KNOWN-FINDING. The effect lists are a hand-written abstraction of the six paths; the snapshots are what ties them to the code.",
    technique="Lean 4 theorems (heap non-interference, fixed point) + snapshot correspondence", design="5/C09"),
 "C10": dict(
    text="Theorems: split loop = closed form xs[jk : jk+k+1]; starts, overlap, content, lengths, tail, errors; exact-rational interval count; three components share the tiling; "
         "preprocess = detrend-each . split . filter . orient for arbitrary filter, with witnesses that other orders differ. Tied to the code by ramp-signal splits vs the exact spec and the float "
         "recipe, run-time op traces of hvsrpy.preprocess, and a scipy oracle in the documented order.",
    note="Trusted: scipy butter/sosfiltfilt/detrend (filter is an arbitrary function in the theorems).",
    technique="Lean 4 theorems (list/omega) + differential correspondence + op-trace", design="5/C10"),
 "C12": dict(
    text="Theorems: the reader's grouping (label change or restart of the curve numbering) inverts the writer's azimuth labelling for every azimuth list with non-empty runs (necessary; the old label-only grouping also needed distinct neighbours -- defect C12-d), read(write s) = s for every reachable "
         "traditional object (uses C08's peaks-track-range invariant) and for azimuthal objects, derived columns are those of the object written. Tied to the code by histories -> write -> "
         "independent parse -> read back (bit-for-bit curves, masks, range, peaks, every statistic), by the model replaying the history and the round trip, and by the label/regex bridge.",
    note="Trusted: %.18e/json/loadtxt are identity on doubles (checked bit for bit), float repr of azimuth labels. Defect C12-d (adjacent equal azimuths merged by the reader) was found by this check's generator and repaired; "
         "the azimuthal round-trip theorem now holds for every azimuth list with at least one curve per azimuth.",
    technique="Lean 4 theorems (round trip via invariant) + differential correspondence + bridge", design="5/C12"),
 "C13": dict(
    text="Theorems: returned list = selected windows (sublist, same order); mask entry i is the decision for window i alone; component passes iff all ratios in [lo, hi]; widening limits is "
         "monotone; several components = conjunction; ratios invariant under rescaling; maximum-value keeps iff max |sample| < threshold. Tied to the code by identity/order of returned objects, "
         "masks on every azimuth, decisions vs the model (exact-rational point counts), metamorphic probes and the comparison-operator bridge.",
    note="Trusted: Python float floor division semantics (mirrored exactly over Rat); ratios within 1e-9 of a limit are near ties.",
    technique="Lean 4 theorems + differential correspondence + operator bridge", design="5/C13"),
 "C14": dict(
    text="Theorems: weighted statistics are the textbook estimators, invariant under weight scaling; Monte-Carlo statistics = statistics of the realisations, zero-sigma closed forms for the four "
         "distribution pairs; nearer-sensor = clip half-plane, clip soundness, cell subset of hull and region, shoelace area and the whole weight pipeline invariant under translation and uniform scaling; "
         "retained-index specification. Tied to the code by an exact-rational Voronoi model vs Qhull/GEOS (weights, indices, cells) and seeded Monte-Carlo runs.",
    note="PARTIAL: cell completeness (cell contains region), w >= 0 and sum w = 1 are not proved; they are checked exactly in Q on every generated layout (a test). Trusted: Qhull, GEOS, numpy Generator. Domain <= 1e4 x extent.",
    technique="Lean 4 theorems + exact-rational differential correspondence", design="5/C14"),
 "C17": dict(
    text="Theorems: the model's real DFT is the complex DFT of the zero-padded series (bridge to roots of unity), Parseval over all n bins, conjugate symmetry, hence the one-sided identity "
         "2*sum_{0<k<n/2}|X_k|^2 = n*sum x^2 - |X_0|^2 - |X_{n/2}|^2 and psd_parseval with the code's scaling (2/(U L fs)); c^2 scaling; diffuse field = sqrt(S(Pns+Pew)/S(Pvt)) by construction. "
         "Tied to the code by PSD and diffuse-field process vs the model (even/odd lengths, smoothing on/off, Welch windows), a Parseval/scale/Welch probe on the implementation and PSD-preprocessing "
         "transforms (differentiate, flat response) vs the model's DFT pair at n = 32768.",
    note="PARTIAL: Welch averaging and the DFT-inversion clause (flat response = (x - sum/n)/S, derivative) are correspondence/numerical only. Trusted: scipy.signal.freqs for pole-zero responses.",
    technique="Lean 4 theorems (Parseval from root-of-unity orthogonality) + differential correspondence", design="5/C17"),
 "C18": dict(
    text="Theorems: invariants of the recording state machine over all op histories (equal lengths, 0 <= deg < 360, well-formed meta); load(save r) = r after any history; copy constructors, "
         "split windows and stored components allocate fresh buffers (writes invisible to the other side), with trim-keeps-a-view as positive control; trim keeps exactly nearest(start)..nearest(end) and its three refusals. "
         "Tied to the code by op histories + save/load (bit for bit), aliasing probes and the trim seam.",
    note="Trusted: Python json float repr. meta tuples become lists on load (content equal; documented).",
    technique="Lean 4 theorems (induction over op histories, location model) + differential correspondence", design="5/C18"),
 "C19": dict(
    text="Theorems: nextpow2 terminates with the minimal power; prepareFft never truncates and is idempotent iff state != {n: None}; chunks partition the task list; with fresh settings per task, for ALL "
         "batches, orders, nproc and chunk-to-worker assignments the output for f is alone(f); with shared settings there is a concrete counterexample (the repaired defect). Tied to the code by the real CLI "
         "in subprocesses vs the in-process pipeline byte for byte, FFT length in the CSV header vs the model, observed chunking vs the model.",
    note="Trusted: CPython Pool (which process runs which chunk, pickling), click. Assumes distinct file stems in a batch (same-stem collision is recorded as known finding C19-b).",
    technique="Lean 4 theorems (induction over chunk lists) + CLI differential correspondence", design="5/C19"),
 "C11": dict(
    text="Theorems: Cheng weights are positive, one per accepted window and sum to 1; zero count is refused; single azimuth reduces to the traditional mean and the Cheng denominator "
         "to (N-1)/N; model tied to the code by azimuthal histories with unequal acceptance (all statistics, both distributions) and probes (order of azimuths, mean of means, cov diagonal, pooled reduction).",
    note="Known finding C11-a (NaN peaks counted in the weights after a time-domain mask) is reported as KNOWN-FINDING. mean-of-means / equal-count reduction are tested on the implementation, proved only for one azimuth.",
    technique="Lean 4 theorems + history correspondence", design="5/C11"),
 "C20": dict(
    text="Theorems over the model of postprocessing.py: accepted/rejected line partition by the window mask (per window, in order, carrying that window's curve; per azimuth too), mean/std/peak/fn-band "
         "artists equal the object's statistics, plot_pre_and_post_rejection restores both masks on the normal AND the exceptional exit (state machine with try/finally), every modelled plotting/summary "
         "function returns the state unchanged, fn row and period row (= lognormal median and log-std of the reciprocal peaks, via C05 reciprocity). Tied to the code by bit-exact snapshots of the whole "
         "object graph around every public plotting/summary function (incl. injected exceptions), Agg artists canonicalised by style class vs the model and vs the object's accessors, and the DataFrame handed to a patched display.",
    note="Trusted: matplotlib/pandas store what they are given; style classes are read from DEFAULT_KWARGS at run time.",
    technique="Lean 4 theorems (state machine with exceptional exit) + artist/table correspondence + snapshots", design="5/C20"),
}
PENDING_REASON = "check not built yet in this round (work in progress; design in DESIGN.md section 5)"

# functions whose Lean definition is regenerated from the Python source on every run (tools/py2lean.py) and proved equal to the model
PY_TIE = {
 "C01": "the five combine functions and single_azimuth",
 "C02": "the window kernels of the six window operators (inner loop bodies of the numba kernels)",
 "C03": "the Nyquist guard check_nyquist_frequency",
 "C04": "single_azimuth and SeismicRecording3C.orient_sensor_to (rotation and orientation normalisation, helper methods inlined)",
 "C05": "the distribution pre/post transforms and _nth_std_factory",
 "C06": "the accept decision and the stopping rule of the rejection loop",
 "C08": "HvsrCurve._search_range_to_index_range (None is the only open end; nearest sample, upper end inclusive)",
 "C07": "the MiniShark gain/conversion scaling and the PEER orientation rule",
 "C18": "the orientation normalisation of SeismicRecording3C.__init__ and orient_sensor_to, and the refusals and index selection of TimeSeries.trim (= the model's trimIdx)",
 "C10": "the window arithmetic of TimeSeries.split (interval count with the isclose/round recipe, samples per window, number of windows, refusal)",
 "C11": "the distribution pre/post transforms and _nth_std_factory",
 "C14": "the two distribution conversions of montecarlo_fn",
 "C16": "the threshold chain, reliability criteria i-iii and clarity criteria iii-vi",
 "C17": "the normalisation chain of the one-sided PSD",
 "C12": "the statement of the azimuthal reader's loop that decides where a new azimuth block starts (label change, or curve numbering restarting at one; = the merge criterion of the model's groupNumbered)",
}
for pid, what in PY_TIE.items():
    c = CLAIMED[pid]
    c["text"] += (" Source translator: tools/py2lean.py symbolically executes the Python source of " + what + " on every run and rewrites "
                  "Generated/Py*.lean; bridge theorems (Bridge/Py*.lean) prove the translated definitions equal to the model functions for all real arguments "
                  "(an untranslatable source makes the obligation trivial and is recorded as t_tie: unavailable). The translator is validated on every run: the original Python statements (CPython, "
                  "inside the real module) and the generated definitions (at Float) are executed on the same inputs (harness/pyvalidate.py).")
    c["technique"] += " + source-to-Lean translator (py2lean) with equality theorems"
# whole array functions regenerated from the Python source on every run (tools/py2lean_vec.py) and proved equal to the model
PYVEC_TIE = {
 "C05": "_nanmean_weighted and _nanstd_weighted (with _distribution_factory and the two dicts of lambdas inlined)",
 "C06": "_nanmean_weighted and _nanstd_weighted (the statistics the rejection bounds and the stopping rule are computed from)",
 "C11": "_nanmean_weighted and _nanstd_weighted (both denominators: nist and cheng)",
}
PYVEC_TIE["C11"] += " and the accessor layer HvsrAzimuthal.mean_fn_frequency/std_fn_frequency/mean_fn_amplitude/std_fn_amplitude (pooled peaks and statistical weights as inputs: weighted mean, Cheng denominator; equal to HvAz.meanFn/meanAmp on every state whose weights exist)"
PYVEC_TIE["C06"] += " and HvsrTraditional.nth_std_fn_frequency (method calls as arguments of the imported _nth_std_factory inlined): on every state and for every table spelling equal to HvTrad.nthStdFn, the rejection bounds of the algorithm"
PYVEC_TIE["C05"] += " and the accessor layer HvsrTraditional.mean_fn_frequency/std_fn_frequency/mean_fn_amplitude/std_fn_amplitude (method, @property and imported estimator inlined; equal to HvTrad.meanFn/stdFn/meanAmp/stdAmp on every state) and nth_std_fn_frequency/nth_std_fn_amplitude (= HvTrad.nthStdFn/nthStdAmp)"

for pid, what in PYVEC_TIE.items():
    c = CLAIMED[pid]
    c["text"] += (" Array-level source translator: tools/py2lean_vec.py symbolically executes the whole functions " + what + " (arrays as List (Option Real), NaN = none; helper calls inlined) "
                  "into Generated/PyVec.lean on every run; Bridge/PyVec.lean proves, for every distribution name, every array and every weights argument, that the translation raises exactly for unknown "
                  "names and otherwise equals the model's nanmeanW/nanstdW (cheng denominator: whenever the weighted mean is defined). The real functions and the translation (at Float) are executed on "
                  "the same arrays on every run.")
    if "py2lean_vec" not in c["technique"]:
        c["technique"] += " + array-level source translator (py2lean_vec) with equality theorems"
CLAIMED["C14"]["text"] += (" Array-level source translator: tools/py2lean_vec.py symbolically executes hvsr_spatial._statistics (two loops over zip(values, norm_weights) as left folds with the code's accumulators, "
                           "the surviving loop variable, np.sqrt with NaN for a negative radicand) into Generated/PyVec.lean on every run; Bridge/PyVecSpatial.lean proves for every matrix of realisations and every "
                           "weight vector that the translated pair is defined exactly when the model's `statistics` is and then equals it; the real function and the translation (at Float) are executed on the same inputs on every run.")
CLAIMED["C14"]["technique"] += " + array-level source translator (py2lean_vec) with equality theorem for _statistics"
CLAIMED["C04"]["note"] = ("Trusted: np.percentile ('linear' method, modelled by its contract: monotone in p and bounded by min/max are proved for the model, "
                          "Props/C04.lean percentile_mono/percentile_bounds, and tested on the implementation); rotation invariance and 180-degree periodicity are composed through the whole chain (Props/C04Rot.lean).")
CLAIMED["C06"]["note"] = ("Trusted: float rounding at zero guards / convergence limits / bounds (such runs are detected from the implementation's own trace, skipped and counted). Order independence "
                          "(Props/C06Order.lean), scale invariance (fdwra_scale) and the published bounds/stopping rule (Props/C06Spec.lean) are theorems; they are also tested on the implementation.")
CLAIMED["C07"]["note"] = ("Known finding C07-b (PEER horizontals equally far from north) is reported as KNOWN-FINDING. Trusted: obspy encode/decode pair, Python re "
                          "(the regex source strings are tied by the bridge; a lexer model is listed in MANIFEST only once it is integrated).")
CLAIMED["C08"]["note"] = ("Trusted: scipy find_peaks default behaviour (modelled by contract: localMaxima_iff is sound and complete incl. plateaus; differentially tested); find_peaks keyword options that "
                          "exclude peaks are not modelled (neutral options are generated, excluding ones are round-trip tested in C12/C20).")
CLAIMED["C11"]["note"] = ("Known finding C11-a (NaN peaks counted in the weights after a time-domain mask) is reported as KNOWN-FINDING. Mean-of-means for any counts, equal-count reductions, "
                          "single-azimuth reduction, diagonal = std^2, invariance of mean/std/covariance under permutations of azimuths and windows are theorems (Props/C11*.lean).")
CLAIMED["C17"]["note"] = ("Parseval, amplitude-squared scaling and Welch averaging are theorems (Props/C17.lean); flat response and spectral derivative are proved from Fourier inversion for even and odd "
                          "transform lengths (Props/C17Inv, C17Deriv, C17Odd). Trusted: numpy rfft/irfft = DFT, scipy.signal.freqs for pole-zero responses (only the flat response is modelled).")
CLAIMED["C01"]["note"] = ("Trusted: numpy rfft = DFT (cross-checked on every case), np.percentile (modelled by its 'linear' contract). Scale invariance, the a/b law and the closed form for proportional "
                          "components are composed through the whole chain for every method (frequency-domain combinations, single azimuth, RotDpp for positive smoothed spectra, diffuse field).")

checks = []
for pid in ids:
    if pid in CLAIMED:
        c = CLAIMED[pid]
        checks.append(dict(
            property_id=pid,
            quick_cmd=f"./check {pid} --tier quick",
            thorough_cmd=f"./check {pid} --tier thorough",
            evidence_file=f"evidence/{pid}.json",
            replay_cmd_template=f"./check {pid} --replay {{path}}",
            engine="lean4+correspondence",
            level_claimed=dict(category="proof", text=c["text"], design_ref=c["design"]),
            level_note=c["note"],
            technique=c["technique"],
        ))
manifest = dict(
    version=1,
    setup_cmd="cd lean && lake build HvsrVerif hvsrdrv drv_c07 drv_c10 drv_c14 drv_c15 drv_c19 drv_c20 drv_py",
    hooks=dict(guard="HVSRPY_VERIF", enable="HVSRPY_VERIF=1 (set by the harness; no source hooks are needed)",
               baseline_off_cmd="cd /repo && /venv/bin/python -m pytest -ra -q -p no:cacheprovider --timeout=900 --continue-on-collection-errors",
               source_commits=[], add_only=True),
    engines=[dict(name="lean4+correspondence", path="lean/ harness/ tools/", serves_properties=sorted(CLAIMED),
                  kind_free_text="Lean 4 model + theorems (lake), native drivers, Python differential harness, ast table extractor, source-to-Lean translators (tools/py2lean.py scalar kernels, tools/py2lean_vec.py array functions)")],
    checks=checks,
    notes="See DESIGN.md. Exit code 2 = infrastructure failure/timeouts, never a violation.",
    not_applicable=[dict(property_id=p, reason=PENDING_REASON) for p in ids if p not in CLAIMED],
)
json.dump(manifest, open(os.path.join(HERE, "MANIFEST.json"), "w"), indent=1)
print("claimed", sorted(CLAIMED), "pending", len(manifest["not_applicable"]))
