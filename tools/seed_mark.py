"""Record that an initially missed seeded change is caught after a check was strengthened.
usage: seed_mark.py <seed-id> "<what was strengthened>"   (re-runs tools/selftest.py --patch seeded/<id>/patch.diff --props <prop>)"""
import json, os, subprocess, sys
VERIF = os.path.dirname(os.path.dirname(os.path.abspath(__file__)))
sid, what = sys.argv[1], sys.argv[2]
d = os.path.join(VERIF, "seeded", sid)
m = json.load(open(os.path.join(d, "meta.json")))
props = sys.argv[3] if len(sys.argv) > 3 else m["property"]
o = subprocess.run([sys.executable, os.path.join(VERIF, "tools", "selftest.py"), "--patch", os.path.join(d, "patch.diff"), "--props", props],
                   capture_output=True, text=True, cwd=VERIF).stdout
lines = [l for l in o.splitlines() if l.split(" ")[0] in ("CAUGHT", "MISSED", "ERROR", "PATCH-FAILED")]
if m.get("kind") == "neutral":
    # a behaviour-preserving rewrite: the checks must stay silent
    if not m.get("initially_false_alarm"):
        m["first_run_checks"] = m.get("checks")
    m["initially_false_alarm"] = True
    m["checks"] = lines
    m["false_alarm"] = any(l.startswith(("CAUGHT", "ERROR")) for l in lines)
    m["correction"] = what
    json.dump(m, open(os.path.join(d, "meta.json"), "w"), indent=1)
    print(sid, "false_alarm =", m["false_alarm"], lines)
    sys.exit(0)
if not m.get("initially_missed"):
    m["first_run_checks"] = m.get("checks")
m["initially_missed"] = True
m["checks"] = lines
m["caught"] = any(l.startswith("CAUGHT") for l in lines)
m["strengthening"] = what
json.dump(m, open(os.path.join(d, "meta.json"), "w"), indent=1)
print(sid, m["caught"], lines)
