"""py2lean: translate the scalar kernels of hvsrpy from their Python source into Lean 4 definitions.

The translator is a small symbolic executor over the `ast` of the *current* working tree of /repo. For every TARGET it
locates a function (or a lambda stored in a module-level dict, or the body of a nested loop of a numba kernel), executes
its statements symbolically (assignments, augmented assignments, if/elif/else, return, continue, raise) and prints the
result as one Lean definition, polymorphic in the scalar class `Transc α` (so that the same text is a real-valued function
for the theorems and an IEEE function for the driver). numpy's element-wise functions are mapped to the primitives of
`HvsrVerif/PyPrim.lean`. Nothing is evaluated and nothing of the hand-written model is consulted: the output depends on
the Python source only.

`Generated/Funcs.lean` is rewritten on every run of every check. The bridge theorems (`Bridge/Funcs*.lean`) state, for all
real arguments, that each generated definition equals the hand-written model function the property theorems are about.
A target whose source has left the translatable fragment is emitted as `NAME.ok := false` with a placeholder body: its
bridge theorem then holds trivially and the evidence records `t_tie: unavailable` for it (the differential correspondence
remains the tie); a source that is translatable but no longer *equal* to the model breaks the bridge proof, which the
check reports (after searching for a failing input).

usage: py2lean.py [REPO]   (prints the Lean text; `emit(repo)` returns (status dict, text))
"""
import ast
import decimal
import os
import re
import sys


class Untranslatable(Exception):
    pass


POISON = object()

NP_UNARY = {"sqrt": "Transc.sqrt", "log": "Transc.log", "exp": "Transc.exp", "sin": "Transc.sin", "cos": "Transc.cos",
            "abs": "absA", "absolute": "absA", "fabs": "absA", "log10": "pyLog10", "radians": "pyRadians", "deg2rad": "pyRadians",
            "square": "pySquare", "floor": "pyFloor"}
NP_BINARY = {"power": "pyPow", "maximum": "pyMaximum", "minimum": "pyMinimum", "hypot": "pyHypot"}


def dotted(node):
    """a.b.c -> 'a.b.c' for Name/Attribute chains, else None"""
    parts = []
    while isinstance(node, ast.Attribute):
        parts.append(node.attr)
        node = node.value
    if isinstance(node, ast.Name):
        parts.append(node.id)
        return ".".join(reversed(parts))
    return None


def target_name(node):
    """assignment target: dotted name, or `name[index]` with a plain index as the pseudo variable 'name[]'"""
    d = dotted(node)
    if d is not None:
        return d
    if isinstance(node, ast.Subscript) and dotted(node.value) and isinstance(node.slice, ast.Name):
        return dotted(node.value) + "[]"
    if isinstance(node, ast.Subscript) and dotted(node.value) and isinstance(node.slice, ast.Constant) and isinstance(node.slice.value, int):
        return f"{dotted(node.value)}[{node.slice.value}]"
    return None


def proj(i, n):
    """projection of component i of a right-nested n-tuple"""
    if n == 1:
        return ""
    return ".2" * i + (".1" if i < n - 1 else "")


def lean_ident(name):
    return re.sub(r"[^A-Za-z0-9_]", "_", name)


def number(value):
    if isinstance(value, bool):
        return ("true" if value else "false"), "bool"
    if isinstance(value, int):
        if value < 0:
            return f"(-(n# {-value}))", "num"
        return f"(n# {value})", "num"
    if isinstance(value, float):
        if value != value or value in (float("inf"), float("-inf")):
            raise Untranslatable("non-finite literal")
        d = decimal.Decimal(repr(value)).normalize()
        sign, digits, exp = d.as_tuple()
        m = int("".join(map(str, digits)))
        if exp < 0:
            s = f"(lit ({m}, {-exp}))"
        else:
            s = f"(n# {m * 10 ** exp})"
        return (f"(-{s})" if sign else s), "num"
    if isinstance(value, str):
        return '"' + value.replace("\\", "\\\\").replace('"', '\\"') + '"', "str"
    if value is None:
        return "none", "none"
    raise Untranslatable(f"constant {value!r}")


class Sym:
    def __init__(self, spec):
        self.spec = spec
        self.counter = 0
        self.tables = spec.get("tables", [])
        self.outs = spec["out"]
        self.option = spec.get("option", False)
        # opaque inputs: variables whose defining expression is outside the fragment (frequency[index], np.max(...)); they
        # stand for "the value this variable holds". Never an output of the slice.
        self.inputs = {p: (lean_ident(p), t) for p, t in spec["params"] if p in spec.get("opaque", [])}
        self.abstract = {k: ((lean_ident(v), "num") if isinstance(v, str) else (lean_ident(v[0]), v[1])) for k, v in spec.get("abstract", {}).items()}
        self.tree = None
        self.cls = spec.get("cls")
        self.depth = 0
        # what was selected from the source (used by tools/pyslice.py to EXECUTE the same statements with CPython):
        # prologue statements that were interpreted, the slice itself, statements whose effect was dropped (untranslatable)
        self.plan = dict(prologue=[], slice=[], skipped=set(), loops=[])
        self.guards = []
        self.consts = spec.get("consts", {})
        self.loop_ctx = None        # (text of the recursive call without the state, [(state variable, type)]) while translating the body of a `while True:` loop
        self.loop_defs = []         # texts of the auxiliary loop definitions (emitted in front of the main definition)

    # ---------------- expressions
    def expr(self, node, env):
        if isinstance(node, ast.Constant):
            return number(node.value)
        if self.abstract:
            key = ast.unparse(node)
            if key in self.abstract:        # an aggregate the fragment cannot express (len(xs), max(fcs)): an input
                return self.abstract[key]
        name = dotted(node)
        if name is not None:
            if name in env:
                v = env[name]
                if v is POISON:
                    raise Untranslatable(f"use of untranslated value {name}")
                return v
            if name in ("np.pi", "numpy.pi", "math.pi"):
                return "Transc.pi", "num"
            raise Untranslatable(f"free name {name}")
        if isinstance(node, ast.Subscript) and target_name(node) in env:
            v = env[target_name(node)]
            if v is POISON:
                raise Untranslatable(f"use of untranslated value {target_name(node)}")
            return v
        if isinstance(node, ast.UnaryOp):
            if isinstance(node.op, ast.USub):
                if isinstance(node.operand, ast.Constant) and isinstance(node.operand.value, (int, float)) and not isinstance(node.operand.value, bool):
                    return number(-node.operand.value) if node.operand.value != 0 else (f"(-{number(node.operand.value)[0]})", "num")
                e, t = self.expr(node.operand, env)
                self.need(t, "num")
                return f"(-{e})", "num"
            if isinstance(node.op, ast.UAdd):
                return self.expr(node.operand, env)
            if isinstance(node.op, ast.Not):
                return f"(¬ {self.cond(node.operand, env)})", "prop"
            raise Untranslatable("unary op")
        if isinstance(node, ast.BinOp):
            a, ta = self.expr(node.left, env)
            if ta == "int" or (ta == "num" and self.is_int_expr(node.right, env)):
                b, tb = self.expr(node.right, env)
                lit_b = isinstance(node.right, ast.Constant) and isinstance(node.right.value, int) and not isinstance(node.right.value, bool)
                lit_a = isinstance(node.left, ast.Constant) and isinstance(node.left.value, int) and not isinstance(node.left.value, bool)
                if isinstance(node.op, (ast.Add, ast.Sub, ast.Mult)) and (ta == "int" or lit_a) and (tb == "int" or lit_b):
                    ia = f"({node.left.value} : Int)" if lit_a else a
                    ib = f"({node.right.value} : Int)" if lit_b else b
                    sym = {ast.Add: "+", ast.Sub: "-", ast.Mult: "*"}[type(node.op)]
                    return f"({ia} {sym} {ib})", "int"
                if isinstance(node.op, ast.FloorDiv) and ta == "int" and tb == "int":
                    self.guards.append(f"({b} = (0 : Int))")     # int // 0 raises ZeroDivisionError
                    return f"(Int.fdiv {a} {b})", "int"
                # any other mix: integers are converted to floats (true division, comparison with floats, ...)
                const_a = isinstance(node.left, ast.Constant) and isinstance(node.left.value, (int, float)) and not isinstance(node.left.value, bool)
                if isinstance(node.op, ast.Div) and tb == "int" and (ta == "int" or const_a):
                    self.guards.append(f"({b} = (0 : Int))")     # int / int (or a Python literal / int) with a zero divisor raises ZeroDivisionError
                a = f"(ofInt {a} : α)" if ta == "int" else a
                node_b = (f"(ofInt {b} : α)" if tb == "int" else b)
                ops = {ast.Add: "+", ast.Sub: "-", ast.Mult: "*", ast.Div: "/"}
                for k, sy in ops.items():
                    if isinstance(node.op, k):
                        return f"({a} {sy} {node_b})", "num"
                raise Untranslatable("integer operator")
            self.need(ta, "num")
            if isinstance(node.op, ast.Pow):
                if isinstance(node.right, ast.Constant) and node.right.value == 2 and not isinstance(node.right.value, bool):
                    return f"({a} * {a})", "num"
                b, tb = self.expr(node.right, env)
                self.need(tb, "num")
                return f"(pyPow {a} {b})", "num"
            b, tb = self.expr(node.right, env)
            self.need(tb, "num")
            ops = {ast.Add: "+", ast.Sub: "-", ast.Mult: "*", ast.Div: "/"}
            for k, s in ops.items():
                if isinstance(node.op, k):
                    return f"({a} {s} {b})", "num"
            if isinstance(node.op, ast.FloorDiv):
                return f"(pyFloorDiv {a} {b})", "num"
            if isinstance(node.op, ast.Mod):
                return f"(pyMod {a} {b})", "num"
            raise Untranslatable("binary op")
        if isinstance(node, (ast.Compare, ast.BoolOp)):
            return self.cond(node, env), "prop"
        if isinstance(node, ast.IfExp):
            c = self.cond(node.test, env)
            a, ta = self.expr(node.body, env)
            b, tb = self.expr(node.orelse, env)
            if ta != tb:
                raise Untranslatable("if-expression of mixed type")
            return f"(if {c} then {a} else {b})", ta
        if isinstance(node, ast.Call):
            return self.call(node, env)
        if isinstance(node, ast.Tuple) and node.elts:
            return "(" + ", ".join(self.expr(e, env)[0] for e in node.elts) + ")", "tuple"
        raise Untranslatable(type(node).__name__)

    def is_int_expr(self, node, env):
        try:
            return self.expr(node, env)[1] == "int"
        except Untranslatable:
            return False

    def need(self, t, want):
        if t != want:
            raise Untranslatable(f"type {t} where {want} expected")

    def call(self, node, env):
        fn = dotted(node.func)
        if fn is None:
            raise Untranslatable("call target")
        base = fn.split(".")[-1]
        if fn in ("np.isclose", "numpy.isclose") and len(node.args) == 2 and {k.arg for k in node.keywords} <= {"rtol", "atol"}:
            a, ta = self.expr(node.args[0], env)
            b, tb = self.expr(node.args[1], env)
            self.need(ta, "num"); self.need(tb, "num")
            kw = {k.arg: self.expr(k.value, env)[0] for k in node.keywords}
            rtol = kw.get("rtol", "(lit (1, 5))")
            atol = kw.get("atol", "(lit (1, 8))")
            return f"((absA ({a} - {b})) ≤ ({atol} + ({rtol} * (absA {b}))))", "prop"
        if fn in ("np.round", "numpy.round", "np.rint", "numpy.rint", "np.around") and len(node.args) == 1 and not node.keywords:
            a, ta = self.expr(node.args[0], env)
            self.need(ta, "num")
            return f"(ofInt (pyRoundHalfEven {a}) : α)", "num"
        if fn == "dict" and not node.args and [k.arg for k in node.keywords] == [self.spec.get("dict_key")]:
            e, t = self.expr(node.keywords[0].value, env)       # dict(n=value): a fresh one-entry dict
            self.need(t, "int")
            return f"(some (some (some {e})))", "dictn"
        if base == "get" and len(node.args) == 2 and not node.keywords and fn[:-4] in env and env[fn[:-4]] is not POISON and env[fn[:-4]][1] in ("dictn", "dictv"):
            x, tx = env[fn[:-4]]
            if tx != "dictv":
                raise Untranslatable("get on a dict that may be None")
            if not (isinstance(node.args[0], ast.Constant) and node.args[0].value == self.spec.get("dict_key")):
                raise Untranslatable("dict key")
            d, td = self.expr(node.args[1], env)
            self.need(td, "int")
            return f"(match {x} with | some v => v | none => some {d})", "oint"
        if fn == "int" and len(node.args) == 1 and not node.keywords:
            a, ta = self.expr(node.args[0], env)
            if ta == "int":
                return a, "int"
            self.need(ta, "num")
            return f"(pyTruncInt {a})", "int"
        if node.keywords:
            raise Untranslatable("keyword arguments")
        if fn.startswith(("np.", "numpy.", "math.")):
            args = [self.expr(a, env) for a in node.args]
            if base in NP_UNARY and len(args) == 1:
                self.need(args[0][1], "num")
                return f"({NP_UNARY[base]} {args[0][0]})", "num"
            if base in NP_BINARY and len(args) == 2:
                self.need(args[0][1], "num"); self.need(args[1][1], "num")
                return f"({NP_BINARY[base]} {args[0][0]} {args[1][0]})", "num"
            if base == "where" and len(node.args) == 3:
                c = self.cond(node.args[0], env)
                a, ta = args[1]
                b, tb = args[2]
                self.need(ta, "num"); self.need(tb, "num")
                return f"(if {c} then {a} else {b})", "num"
            raise Untranslatable(f"numpy function {base}")
        if fn in ("float", "abs") and len(node.args) == 1:
            e, t = self.expr(node.args[0], env)
            self.need(t, "num")
            return (e if fn == "float" else f"(absA {e})"), "num"
        if base == "get" and len(node.args) == 2 and fn[:-4] in self.tables:
            k, tk = self.expr(node.args[0], env)
            self.need(tk, "str")
            if not (isinstance(node.args[1], ast.Constant) and node.args[1].value is None):
                raise Untranslatable("dict.get default")
            return f"(List.lookup {k} {lean_ident(fn[:-4])})", "ostr"
        if base == "endswith" and len(node.args) == 1 and isinstance(node.args[0], ast.Constant) and isinstance(node.args[0].value, str) \
                and len(node.args[0].value) == 1 and node.args[0].value.isalnum():
            e, t = self.expr(node.func.value, env)
            self.need(t, "str")
            return f"(pyEndsWith1 {e} '{node.args[0].value}' = true)", "prop"
        if fn in ("min", "max") and len(node.args) == 1 and dotted(node.args[0]) in self.spec.get("unpack", {}) and len(self.spec["unpack"][dotted(node.args[0])]) == 2:
            # Python's min / max of a pair (a, b): b if b < a else a  /  b if b > a else a
            a, b = (env[c_][0] for c_ in self.spec["unpack"][dotted(node.args[0])])
            return (f"(if {b} < {a} then {b} else {a})" if fn == "min" else f"(if {a} < {b} then {b} else {a})"), "num"
        if base == "lower" and not node.args:
            e, t = self.expr(node.func.value, env)
            self.need(t, "str")
            return f"(pyLower {e})", "str"
        helper = self.find_helper(fn)
        if helper is not None and self.depth < 3:
            names = [a.arg for a in helper.args.args if a.arg not in ("self", "cls")]
            if len(names) != len(node.args) or helper.args.vararg or helper.args.kwarg or helper.args.kwonlyargs:
                raise Untranslatable(f"arguments of helper {fn}")
            sub = Sym(dict(params=[], out=["return"], option=False, tables=self.tables))
            sub.tree, sub.cls, sub.depth, sub.counter = self.tree, self.cls, self.depth + 1, self.counter + 1000 * (self.depth + 1)
            env2 = {}
            lets = ""
            for n, a in zip(names, node.args):
                e, t = self.expr(a, env)
                self.counter += 1
                fresh = f"arg_{lean_ident(n)}_{self.counter}"
                lets += f"let {fresh}{' : α' if t == 'num' else ''} := {e}; "
                env2[n] = (fresh, t)
            body = sub.run(list(helper.body), env2)
            return f"({lets}{body})", "num"
        raise Untranslatable(f"call {fn}")

    def find_helper(self, fn):
        """a plain function of the module, or a method of the class being translated, called as f(...) / self.f(...) / Class.f(...)"""
        if self.tree is None:
            return None
        parts = fn.split(".")
        if len(parts) == 1:
            for n in self.tree.body:
                if isinstance(n, ast.FunctionDef) and n.name == parts[0]:
                    return n
        if len(parts) == 2 and (parts[0] in ("self", "cls") or parts[0] == self.cls):
            for n in self.tree.body:
                if isinstance(n, ast.ClassDef) and n.name == self.cls:
                    for m in n.body:
                        if isinstance(m, ast.FunctionDef) and m.name == parts[1]:
                            return m
        return None

    def cond(self, node, env):
        if isinstance(node, ast.BoolOp):
            parts = [self.cond(v, env) for v in node.values]
            op = " ∧ " if isinstance(node.op, ast.And) else " ∨ "
            return "(" + op.join(parts) + ")"
        if isinstance(node, ast.UnaryOp) and isinstance(node.op, ast.Not):
            return f"(¬ {self.cond(node.operand, env)})"
        if isinstance(node, ast.Compare):
            items = [node.left] + list(node.comparators)
            out = []
            for op, l, r in zip(node.ops, items, items[1:]):
                a, ta = self.expr(l, env)
                b, tb = self.expr(r, env)
                if {ta, tb} == {"int"}:
                    m = {ast.Lt: f"({a} < {b})", ast.Gt: f"({b} < {a})", ast.LtE: f"({a} ≤ {b})", ast.GtE: f"({b} ≤ {a})",
                         ast.Eq: f"({a} = {b})", ast.NotEq: f"(¬ ({a} = {b}))"}
                elif ta == "int" and isinstance(r, ast.Constant) and isinstance(r.value, int) and not isinstance(r.value, bool):
                    b = f"({r.value} : Int)"
                    m = {ast.Lt: f"({a} < {b})", ast.Gt: f"({b} < {a})", ast.LtE: f"({a} ≤ {b})", ast.GtE: f"({b} ≤ {a})",
                         ast.Eq: f"({a} = {b})", ast.NotEq: f"(¬ ({a} = {b}))"}
                elif {ta, tb} <= {"num"}:
                    m = {ast.Lt: f"({a} < {b})", ast.Gt: f"({b} < {a})", ast.LtE: f"({a} ≤ {b})", ast.GtE: f"({b} ≤ {a})",
                         ast.Eq: f"(eqA {a} {b} = true)", ast.NotEq: f"(¬ (eqA {a} {b} = true))"}
                elif ta == "ostr" and tb == "str":
                    m = {ast.Eq: f"({a} = some {b})", ast.NotEq: f"(¬ ({a} = some {b}))"}
                elif ta == "str" and tb == "str":
                    m = {ast.Eq: f"({a} = {b})", ast.NotEq: f"(¬ ({a} = {b}))"}
                elif ta in ("oint", "dictn", "dictv") and tb == "none":
                    m = {ast.Is: f"({a}.isNone = true)", ast.IsNot: f"({a}.isNone = false)", ast.Eq: f"({a}.isNone = true)"}
                elif ta == "onum" and tb == "none":
                    m = {ast.Is: f"({a}.isNone = true)", ast.IsNot: f"({a}.isNone = false)", ast.Eq: f"({a}.isNone = true)"}
                elif ta == "ostr" and tb == "none":
                    m = {ast.Is: f"({a} = none)", ast.IsNot: f"(¬ ({a} = none))", ast.Eq: f"({a} = none)"}
                else:
                    raise Untranslatable(f"comparison of {ta} and {tb}")
                if type(op) not in m:
                    raise Untranslatable("comparison operator")
                out.append(m[type(op)])
            return out[0] if len(out) == 1 else "(" + " ∧ ".join(out) + ")"
        e, t = self.expr(node, env)
        if t == "prop":
            return e
        if t == "bool":
            return f"({e} = true)"
        raise Untranslatable("truthiness of a non-boolean")   # `if x:` on numbers/arrays/None is never guessed

    # ---------------- statements (continuation passing: `run` returns the Lean term for "the rest of the computation")
    def append_of(self, s):
        """`xs.append(v)` on a list named in spec['appends'] -> (pseudo variable 'xs.append', v): the LAST value appended by the slice
        (type Option: `none` while the slice has appended nothing)"""
        if isinstance(s, ast.Expr) and isinstance(s.value, ast.Call) and len(s.value.args) == 1 and not s.value.keywords:
            fn = dotted(s.value.func) or ""
            if fn.endswith(".append") and fn[:-7] in self.spec.get("appends", ()):
                return fn, s.value.args[0]
        return None

    def extend_of(self, s):
        """`xs.extend([v] * k)` on a list named in spec['extends'] -> ('xs.extend', v, k): the value appended by the slice and how many times"""
        if isinstance(s, ast.Expr) and isinstance(s.value, ast.Call) and len(s.value.args) == 1 and not s.value.keywords:
            fn = dotted(s.value.func) or ""
            a = s.value.args[0]
            if fn.endswith(".extend") and fn[:-7] in self.spec.get("extends", ()) and isinstance(a, ast.BinOp) and isinstance(a.op, ast.Mult) \
                    and isinstance(a.left, ast.List) and len(a.left.elts) == 1:
                return fn, a.left.elts[0], a.right
        return None

    def assigned(self, stmts):
        names = set()
        for s in stmts:
            for n in ast.walk(s):
                if isinstance(n, ast.Expr) and self.append_of(n):
                    names.add(self.append_of(n)[0])
                if isinstance(n, ast.Expr) and self.extend_of(n):
                    names.add(self.extend_of(n)[0] + ".value")
                    names.add(self.extend_of(n)[0] + ".count")
                if isinstance(n, (ast.Assign, ast.AugAssign, ast.AnnAssign)):
                    for t in (n.targets if isinstance(n, ast.Assign) else [n.target]):
                        for el in (t.elts if isinstance(t, ast.Tuple) else [t]):
                            d = target_name(el)
                            if d is not None:
                                names.add(d)
                            if isinstance(el, ast.Subscript) and dotted(el.value):
                                names.add(dotted(el.value))
        return names

    def finish(self, env):
        if self.loop_ctx is not None:       # end of the body of `while True:` (or `continue`): next iteration with the current values of the state
            call, state = self.loop_ctx
            vals = []
            for n, t in state:
                if n not in env or env[n] is POISON or env[n][1] != t:
                    raise Untranslatable(f"loop state {n}")
                vals.append(env[n][0])
            return f"({call} " + " ".join(vals) + ")"
        if self.spec.get("fallthrough") == "none":
            return "none"
        vals = []
        for o in self.outs:
            if o not in env or env[o] is POISON:
                raise Untranslatable(f"output {o} not available")
            vals.append(env[o][0])
        body = vals[0] if len(vals) == 1 else "(" + ", ".join(vals) + ")"
        return f"some {body}" if self.option else body

    def exit_value(self, kind):
        if not self.option:
            raise Untranslatable(f"{kind} in a total function")
        return "none"

    def run(self, stmts, env):
        if not stmts:
            return self.finish(env)
        s, rest = stmts[0], stmts[1:]
        stop = self.spec.get("stop_before")
        if stop and stop in self.assigned([s]):
            return self.finish(env)
        if isinstance(s, ast.Expr) and self.append_of(s):
            name, value = self.append_of(s)
            e, t = self.expr(value, env)
            if t == "prop":
                e, t = f"(decide {e})", "bool"
            self.need(t, "bool")
            self.counter += 1
            fresh = f"{lean_ident(name)}_{self.counter}"
            env2 = dict(env)
            env2[name] = (fresh, "obool")
            return f"(let {fresh} : Option Bool := some {e}; {self.run(rest, env2)})"
        if isinstance(s, ast.Expr) and self.extend_of(s):
            name, value, count = self.extend_of(s)
            e, t = self.expr(value, env)
            self.need(t, "num")
            k, tk = self.expr(count, env)
            self.need(tk, "int")
            self.counter += 1
            fv, fc = f"{lean_ident(name)}_value_{self.counter}", f"{lean_ident(name)}_count_{self.counter}"
            env2 = dict(env)
            env2[name + ".value"] = (fv, "num")
            env2[name + ".count"] = (fc, "int")
            guards, self.guards = self.guards, []
            body = f"(let {fv} : α := {e}; let {fc} : Int := {k}; {self.run(rest, env2)})"
            for g in guards:
                body = f"(if {g} then {self.exit_value('raise')} else {body})"
            return body
        if isinstance(s, ast.Break):
            if not self.spec.get("allow_break"):
                raise Untranslatable("break")
            return self.finish(env)         # the slice is the body of the innermost loop: leaving the loop ends it, outputs as they stand
        if isinstance(s, ast.Expr):     # docstring, logging call, ...
            if isinstance(s.value, ast.Constant) or isinstance(s.value, ast.Call) and ((dotted(s.value.func) or "").startswith(("logger.", "logging.", "warnings.", "print"))
                                                                                       or (dotted(s.value.func) or "") in self.spec.get("skip_calls", ())):
                self.plan["skipped"].add(id(s))
                return self.run(rest, env)
            raise Untranslatable("expression statement")
        if isinstance(s, ast.Pass):
            return self.run(rest, env)
        if isinstance(s, (ast.Assign, ast.AugAssign, ast.AnnAssign)):
            if isinstance(s, ast.Assign):
                if len(s.targets) != 1:
                    raise Untranslatable("chained assignment")
                tgt, value = s.targets[0], s.value
            elif isinstance(s, ast.AnnAssign):
                tgt, value = s.target, s.value
            else:
                tgt = s.target
                value = ast.BinOp(left=s.target, op=s.op, right=s.value)
            if isinstance(tgt, ast.Tuple) and isinstance(value, ast.Tuple) and len(tgt.elts) == len(value.elts) and all(dotted(e) for e in tgt.elts):
                # a, b = e1, e2: both right-hand sides are evaluated first
                vals = [self.expr(v, env) for v in value.elts]
                env2 = dict(env)
                lets = ""
                for el, (e, t) in zip(tgt.elts, vals):
                    if t == "prop":
                        e, t = f"(decide {e})", "bool"
                    self.counter += 1
                    fresh = f"{lean_ident(dotted(el))}_{self.counter}"
                    lets += f"let {fresh} : {LEAN_TYPES[t]} := {e}; "
                    env2[dotted(el)] = (fresh, t)
                return f"({lets}{self.run(rest, env2)})"
            name = target_name(tgt)
            env2 = dict(env)
            ds = self.dict_store(tgt, value, env)
            if ds is not None:
                self.counter += 1
                fresh = f"{lean_ident(ds[0])}_{self.counter}"
                env2[ds[0]] = (fresh, "dictn")
                return f"(let {fresh} : {LEAN_TYPES['dictn']} := {ds[1]}; {self.run(rest, env2)})"
            unpack = self.spec.get("unpack", {})
            if isinstance(tgt, ast.Tuple) and dotted(value) in unpack and len(tgt.elts) == len(unpack[dotted(value)]):
                for el, pname in zip(tgt.elts, unpack[dotted(value)]):     # `a, b = pair`: the components are inputs of the slice
                    if dotted(el) is None:
                        raise Untranslatable("unpacking target")
                    env2[dotted(el)] = env[pname]
                return self.run(rest, env2)
            if name in self.spec.get("int_vars", []) and isinstance(value, ast.Constant) and isinstance(value.value, int) and not isinstance(value.value, bool):
                self.counter += 1
                fresh = f"{lean_ident(name)}_{self.counter}"
                env2[name] = (fresh, "int")
                return f"(let {fresh} : Int := ({value.value} : Int); {self.run(rest, env2)})"
            if name is None:
                # writes into containers (x[i] = ..., a, b = ...) poison what they touch
                for n in self.assigned([s]):
                    env2[n] = POISON
                self.plan["skipped"].add(id(s))
                return self.run(rest, env2)
            z = self.zeros(name, value, env2)
            if z is not None:
                return f"({z}{self.run(rest, env2)})"
            try:
                e, t = self.expr(value, env)
            except Untranslatable:
                # an input of the slice keeps standing for "the value this variable holds" (opaque right-hand sides such as
                # frequency[index] or np.max(...) are inputs, not formulas); anything else is poisoned
                env2[name] = self.inputs[name] if name in self.inputs else POISON
                self.plan["skipped"].add(id(s))
                return self.run(rest, env2)
            self.counter += 1
            fresh = f"{lean_ident(name)}_{self.counter}"
            ann = " : α" if t == "num" else (" : Int" if t == "int" else "")
            if t == "prop":
                e, t, ann = f"(decide {e})", "bool", " : Bool"
            env2[name] = (fresh, t)
            guards, self.guards = self.guards, []
            body = f"(let {fresh}{ann} := {e}; {self.run(rest, env2)})"
            for g in guards:            # exceptions raised while evaluating the right-hand side
                body = f"(if {g} then {self.exit_value('raise')} else {body})"
            return body
        if isinstance(s, ast.If):
            static = self.static_test(s.test)
            if static is not None:          # e.g. `if verbose > 0:` with the declared constant verbose = 0
                return self.run(list(s.body if static else s.orelse) + rest, env)
            nt = self.none_test(s.test, env)
            if nt is not None:
                # `if x is None:` on an optional value: a match; in the other branch (and in what follows it) x stands for the value
                fresh, env_some = self.refine(nt[0], env)
                body_none, body_some = (s.orelse, s.body) if nt[1] else (s.body, s.orelse)
                if not self.has_exit(s.body) and not self.has_exit(s.orelse):
                    ea, la = self.block(body_none, env)
                    eb, lb = self.block(body_some, env_some)
                    env2 = dict(env)
                    merged = []
                    for n in sorted(self.assigned(s.body) | self.assigned(s.orelse)):
                        va, vb = ea.get(n), eb.get(n)
                        if va is None or vb is None or va is POISON or vb is POISON or va[1] != vb[1] or (n == nt[0] and vb == env_some[n]):
                            if n in env2 or va is not None or vb is not None:
                                env2[n] = POISON
                            continue
                        self.counter += 1
                        merged.append((n, f"{lean_ident(n)}_{self.counter}", va, vb))
                        env2[n] = (merged[-1][1], va[1])
                    if not merged:
                        return self.run(rest, env2)
                    pat = merged[0][1] if len(merged) == 1 else "(" + ", ".join(m[1] for m in merged) + ")"
                    ta = merged[0][2][0] if len(merged) == 1 else "(" + ", ".join(m[2][0] for m in merged) + ")"
                    tb = merged[0][3][0] if len(merged) == 1 else "(" + ", ".join(m[3][0] for m in merged) + ")"
                    ty = " × ".join(LEAN_TYPES.get(m[2][1], "_") for m in merged)
                    return f"(match ((match {env[nt[0]][0]} with | none => ({la}{ta}) | some {fresh} => ({lb}{tb})) : {ty}) with | {pat} => {self.run(rest, env2)})"
                a = self.run(list(body_none) + rest, env)
                b = self.run(list(body_some) + rest, env_some)
                return f"(match {env[nt[0]][0]} with | none => {a} | some {fresh} => {b})"
            try:
                c = self.cond(s.test, env)
            except Untranslatable:
                if self.has_exit(s.body) or self.has_exit(s.orelse):
                    raise
                env2 = dict(env)        # an opaque test (e.g. on arrays) without exits: whatever it assigns is unknown from here on
                for n in self.assigned([s]):
                    env2[n] = self.inputs[n] if n in self.inputs else POISON
                self.plan["skipped"].add(id(s))
                return self.run(rest, env2)
            if not self.has_exit(s.body) and not self.has_exit(s.orelse):
                # no return/continue/raise inside: merge the two branches instead of duplicating the continuation
                names = sorted(self.assigned(s.body) | self.assigned(s.orelse))
                ea, la = self.block(s.body, env)
                eb, lb = self.block(s.orelse, env)
                env2 = dict(env)
                merged = []
                for n in names:
                    va, vb = ea.get(n), eb.get(n)
                    if va is None or vb is None or va is POISON or vb is POISON or va[1] != vb[1]:
                        if n in env2 or va is not None or vb is not None:
                            env2[n] = POISON
                        continue
                    self.counter += 1
                    fresh = f"{lean_ident(n)}_{self.counter}"
                    merged.append((n, fresh, va, vb))
                    env2[n] = (fresh, va[1])
                if not merged:
                    return self.run(rest, env2)
                pat = merged[0][1] if len(merged) == 1 else "(" + ", ".join(m[1] for m in merged) + ")"
                ta = merged[0][2][0] if len(merged) == 1 else "(" + ", ".join(m[2][0] for m in merged) + ")"
                tb = merged[0][3][0] if len(merged) == 1 else "(" + ", ".join(m[3][0] for m in merged) + ")"
                ty = " × ".join(LEAN_TYPES.get(m[2][1], "_") for m in merged)
                if len(merged) == 1:
                    return f"(let {pat} : {ty} := (if {c} then ({la}{ta}) else ({lb}{tb})); {self.run(rest, env2)})"
                return f"(match ((if {c} then ({la}{ta}) else ({lb}{tb})) : {ty}) with | {pat} => {self.run(rest, env2)})"
            a = self.run(list(s.body) + rest, env)
            b = self.run(list(s.orelse) + rest, env)
            return f"(if {c} then {a} else {b})"
        if isinstance(s, ast.Return):
            if self.spec.get("out") != ["return"]:
                return self.finish(env)      # the slice ends where the function returns: outputs are the tracked variables
            e, t = self.expr(s.value, env)
            return f"some {e}" if self.option else e
        if isinstance(s, ast.Continue):
            if self.loop_ctx is not None:
                return self.finish(env)
            return self.exit_value("continue")
        if isinstance(s, ast.While):
            return self.while_true(s, env)
        if isinstance(s, ast.Raise):
            return self.exit_value("raise")
        raise Untranslatable(type(s).__name__)

    def none_test(self, test, env):
        """`x is None` / `x is not None` / `x == None` on a variable of an optional type -> (name, negated), else None"""
        if isinstance(test, ast.Compare) and len(test.ops) == 1 and isinstance(test.ops[0], (ast.Is, ast.IsNot, ast.Eq, ast.NotEq)) \
                and isinstance(test.comparators[0], ast.Constant) and test.comparators[0].value is None:
            name = dotted(test.left)
            if name in env and env[name] is not POISON and env[name][1] in REFINES:
                return name, isinstance(test.ops[0], (ast.IsNot, ast.NotEq))
        return None

    def refine(self, name, env):
        """environment of the branch in which `name` is known not to be None: (pattern variable, new environment)"""
        self.counter += 1
        fresh = f"{lean_ident(name)}_v{self.counter}"
        env2 = dict(env)
        env2[name] = (fresh, REFINES[env[name][1]])
        return fresh, env2

    def dict_store(self, tgt, value, env):
        """`d["n"] = value` on the one-entry dict of the spec: the new value of d (text, type) or None when the target is something else"""
        if isinstance(tgt, ast.Subscript) and isinstance(tgt.slice, ast.Constant) and tgt.slice.value == self.spec.get("dict_key") and self.spec.get("dict_key") is not None:
            d = dotted(tgt.value)
            if d in env and env[d] is not POISON and env[d][1] in ("dictn", "dictv"):
                if env[d][1] != "dictv":
                    raise Untranslatable("store into a dict that may be None")
                e, t = self.expr(value, env)
                if t == "oint":
                    return d, f"(some (some {e}))"
                self.need(t, "int")
                return d, f"(some (some (some {e})))"
        return None

    def while_true(self, s, env):
        """`while True: body` whose exits are `return`s: an auxiliary definition `NAME.loop params fuel state` by recursion on the fuel (`none` when it runs out);
        the state is the declared list of variables the body assigns, the body may otherwise use the parameters of the target only"""
        state = self.spec.get("loop_state")
        if state is None or not (isinstance(s.test, ast.Constant) and s.test.value is True) or s.orelse or self.loop_ctx is not None \
                or not self.option or self.spec.get("out") != ["return"]:
            raise Untranslatable("while loop")
        if any(isinstance(n, ast.Break) for b in s.body for n in ast.walk(b)):
            raise Untranslatable("break in while True")
        if sorted(self.assigned(s.body)) != sorted(n for n, _ in state):
            raise Untranslatable("loop state " + ",".join(sorted(self.assigned(s.body))))
        params = [(p, PARAM_BASE.get(t, t)) for p, t in self.spec["params"] if t != "fuel"]
        env_loop = {p: (lean_ident(p), t) for p, t in params}
        for n, t in state:
            env_loop[n] = (lean_ident(n) + "_s", t)
        name = self.spec["name"]
        pnames = " ".join(lean_ident(p) for p, _ in params)
        self.loop_ctx = (f"{name}.loop (α := α) {pnames} fuel_rec", state)
        try:
            body = self.run(list(s.body), env_loop)
        finally:
            self.loop_ctx = None
        self.loop_defs.append(loop_head(self.spec) + "\n  | 0" + ", _" * len(state) + " => none\n  | Nat.succ fuel_rec, "
                              + ", ".join(lean_ident(n) + "_s" for n, _ in state) + " => " + body)
        vals = []
        for n, t in state:
            if n not in env or env[n] is POISON or env[n][1] != t:
                raise Untranslatable(f"initial loop state {n}")
            vals.append(env[n][0])
        return f"({name}.loop (α := α) {pnames} fuel " + " ".join(vals) + ")"

    def zeros(self, name, value, env):
        """`x = np.zeros(k)` with a literal k: one pseudo variable per entry; returns the let text or None"""
        if isinstance(value, ast.Call) and dotted(value.func) in ("np.zeros", "numpy.zeros") and len(value.args) == 1 \
                and isinstance(value.args[0], ast.Constant) and isinstance(value.args[0].value, int) and not value.keywords:
            lets = ""
            for k in range(value.args[0].value):
                self.counter += 1
                fresh = f"{lean_ident(name)}_{k}_{self.counter}"
                env[f"{name}[{k}]"] = (fresh, "num")
                lets += f"let {fresh} : α := (n# 0); "
            env[name] = POISON
            return lets
        return None

    def has_exit(self, stmts):
        return any(isinstance(n, (ast.Return, ast.Continue, ast.Raise, ast.Break)) for s in stmts for n in ast.walk(s))

    def static_test(self, test):
        """value of a test that only involves declared constants (spec['consts']) and literals, else None"""
        names = {n.id for n in ast.walk(test) if isinstance(n, ast.Name)}
        if not names or not names <= set(self.consts):
            return None
        if any(isinstance(n, (ast.Call, ast.Attribute, ast.Subscript)) for n in ast.walk(test)):
            return None
        try:
            return bool(eval(compile(ast.Expression(test), "<test>", "eval"), {"__builtins__": {}}, dict(self.consts)))
        except Exception:
            return None

    def block(self, stmts, env):
        """exit-free statements: returns (environment afterwards, text of the let-bindings)"""
        env = dict(env)
        lets = ""
        for i, s in enumerate(stmts):
            if isinstance(s, ast.Expr) and self.append_of(s):
                name, value = self.append_of(s)
                e, t = self.expr(value, env)
                if t == "prop":
                    e, t = f"(decide {e})", "bool"
                self.need(t, "bool")
                self.counter += 1
                fresh = f"{lean_ident(name)}_{self.counter}"
                lets += f"let {fresh} : Option Bool := some {e}; "
                env[name] = (fresh, "obool")
                continue
            if isinstance(s, ast.Pass) or isinstance(s, ast.Expr):
                if isinstance(s, ast.Expr) and not (isinstance(s.value, ast.Constant) or isinstance(s.value, ast.Call)
                                                    and ((dotted(s.value.func) or "").startswith(("logger.", "logging.", "warnings.", "print")) or (dotted(s.value.func) or "") in self.spec.get("skip_calls", ()))):
                    raise Untranslatable("expression statement")
                self.plan["skipped"].add(id(s))
                continue
            if isinstance(s, ast.If):
                static = self.static_test(s.test)
                if static is not None:
                    env, l2 = self.block(list(s.body if static else s.orelse), env)
                    lets += l2
                    continue
                nt = self.none_test(s.test, env)
                if nt is not None:
                    fresh, env_some = self.refine(nt[0], env)
                    body_none, body_some = (s.orelse, s.body) if nt[1] else (s.body, s.orelse)
                    ea, la = self.block(body_none, env)
                    eb, lb = self.block(body_some, env_some)
                    sel = lambda A, B: f"(match {env[nt[0]][0]} with | none => {A} | some {fresh} => {B})"    # noqa: E731
                    stale = {nt[0]: env_some[nt[0]]}
                else:
                    try:
                        c = self.cond(s.test, env)
                    except Untranslatable:
                        for n in self.assigned([s]):
                            env[n] = self.inputs[n] if n in self.inputs else POISON
                        self.plan["skipped"].add(id(s))
                        continue
                    ea, la = self.block(s.body, env)
                    eb, lb = self.block(s.orelse, env)
                    sel = lambda A, B: f"(if {c} then {A} else {B})"    # noqa: E731
                    stale = {}
                merged = []
                for n in sorted(self.assigned(s.body) | self.assigned(s.orelse)):
                    va, vb = ea.get(n), eb.get(n)
                    if va is None or vb is None or va is POISON or vb is POISON or va[1] != vb[1] or (n in stale and vb == stale[n]):
                        if n in env or va is not None or vb is not None:
                            env[n] = POISON
                        continue
                    merged.append((n, va, vb))
                if merged:
                    self.counter += 1
                    pk = f"if_{self.counter}"
                    ta = merged[0][1][0] if len(merged) == 1 else "(" + ", ".join(m[1][0] for m in merged) + ")"
                    tb = merged[0][2][0] if len(merged) == 1 else "(" + ", ".join(m[2][0] for m in merged) + ")"
                    ty = " × ".join(LEAN_TYPES.get(m[1][1], "_") for m in merged)
                    lets += f"let {pk} : {ty} := {sel(f'({la}{ta})', f'({lb}{tb})')}; "
                    for i, (n, va, vb) in enumerate(merged):
                        self.counter += 1
                        fresh = f"{lean_ident(n)}_{self.counter}"
                        lets += f"let {fresh} := {pk}{proj(i, len(merged))}; "
                        env[n] = (fresh, va[1])
                continue
            if isinstance(s, (ast.Assign, ast.AugAssign)) and (isinstance(s, ast.AugAssign) or len(s.targets) == 1):
                tgt = s.target if isinstance(s, ast.AugAssign) else s.targets[0]
                name = target_name(tgt)
                value = s.value if isinstance(s, ast.Assign) else ast.BinOp(left=s.target, op=s.op, right=s.value)
                ds = self.dict_store(tgt, value, env)
                if ds is not None:
                    self.counter += 1
                    fresh = f"{lean_ident(ds[0])}_{self.counter}"
                    lets += f"let {fresh} : {LEAN_TYPES['dictn']} := {ds[1]}; "
                    env[ds[0]] = (fresh, "dictn")
                    continue
                if name is None:
                    for n in self.assigned([s]):
                        env[n] = POISON
                    self.plan["skipped"].add(id(s))
                    continue
                z = self.zeros(name, value, env)
                if z is not None:
                    lets += z
                    continue
                try:
                    if name in self.spec.get("int_vars", []) and isinstance(value, ast.Constant) and isinstance(value.value, int) \
                            and not isinstance(value.value, bool):
                        e, t = f"({value.value} : Int)", "int"
                    else:
                        e, t = self.expr(value, env)
                    if t == "prop":
                        e, t = f"(decide {e})", "bool"
                except Untranslatable:
                    env[name] = self.inputs[name] if name in self.inputs else POISON
                    self.plan["skipped"].add(id(s))
                    continue
                self.counter += 1
                fresh = f"{lean_ident(name)}_{self.counter}"
                lets += f"let {fresh}{' : α' if t == 'num' else (' : Int' if t == 'int' else '')} := {e}; "
                env[name] = (fresh, t)
                continue
            raise Untranslatable(type(s).__name__)
        return env, lets

    def prologue(self, stmts, env):
        """statements on the way to a nested loop: only plain top-level assignments are interpreted; everything else
        poisons the names it assigns"""
        env = dict(env)
        lets = []
        for s in stmts:
            if isinstance(s, (ast.Assign, ast.AugAssign)) and (isinstance(s, ast.AugAssign) or len(s.targets) == 1):
                tgt = s.target if isinstance(s, ast.AugAssign) else s.targets[0]
                name = dotted(tgt)
                value = s.value if isinstance(s, ast.Assign) else ast.BinOp(left=s.target, op=s.op, right=s.value)
                z = self.zeros(name, value, env) if name is not None else None
                if z is not None:
                    lets.append(z)
                    self.plan["prologue"].append(s)
                    continue
                if name is not None:
                    try:
                        e, t = self.expr(value, env)
                        if t == "prop":
                            raise Untranslatable("boolean variable")
                        self.counter += 1
                        fresh = f"{lean_ident(name)}_{self.counter}"
                        lets.append(f"let {fresh}{' : α' if t == 'num' else ''} := {e}; ")
                        env[name] = (fresh, t)
                        self.plan["prologue"].append(s)
                        continue
                    except Untranslatable:
                        pass
            for n in self.assigned([s]):
                env[n] = POISON
        return env, lets


# ----------------------------------------------------------------------------------------------- locating the source

def find_function(tree, func, cls=None):
    body = tree.body
    if cls:
        for n in body:
            if isinstance(n, ast.ClassDef) and n.name == cls:
                body = n.body
                break
        else:
            raise Untranslatable(f"class {cls} not found")
    for n in body:
        if isinstance(n, ast.FunctionDef) and n.name == func:
            return n
    raise Untranslatable(f"function {func} not found")


def find_lambda(tree, path):
    var, keys = path[0], path[1:]
    for n in tree.body:
        if isinstance(n, ast.Assign) and len(n.targets) == 1 and isinstance(n.targets[0], ast.Name) and n.targets[0].id == var:
            node = n.value
            for k in keys:
                if not isinstance(node, ast.Dict):
                    raise Untranslatable("dict path")
                for kk, vv in zip(node.keys, node.values):
                    if isinstance(kk, ast.Constant) and kk.value == k:
                        node = vv
                        break
                else:
                    raise Untranslatable(f"key {k} not found")
            if not isinstance(node, ast.Lambda):
                raise Untranslatable("not a lambda")
            return node
    raise Untranslatable(f"{var} not found")


PLANS = {}      # name -> (spec, module ast, plan) of the targets translated by the last `emit`


LEAN_TYPES = {"num": "α", "str": "String", "table": "List (String × String)", "bool": "Bool", "int": "Int", "onum": "Option α", "obool": "Option Bool",
              "pint": "Int", "fuel": "Nat", "oint": "Option Int", "dictn": "Option (Option (Option Int))", "dictv": "Option (Option Int)"}
REFINES = {"oint": "int", "onum": "num", "dictn": "dictv"}       # optional type -> type of the value once it is known not to be None
PARAM_BASE = {"pint": "int"}                                      # parameter types that only steer the input generator


def loop_head(spec):
    params = [(p, t) for p, t in spec["params"] if t != "fuel"]
    ret_types = spec.get("out_types", ["num"] * len(spec["out"]))
    ret = LEAN_TYPES[ret_types[0]] if len(ret_types) == 1 else "(" + " × ".join(LEAN_TYPES[t] for t in ret_types) + ")"
    binders = " ".join(f"({lean_ident(p)} : {LEAN_TYPES[t]})" for p, t in params)
    state = " → ".join(LEAN_TYPES[t] for _, t in spec["loop_state"])
    return f"def {spec['name']}.loop {{α : Type}} [Transc α] {binders} : Nat → {state} → Option {ret}"



def translate(repo, spec):
    """returns (ok, lean definition text, reason)"""
    params = spec["params"]           # list of (python name, type)
    sym = Sym(spec)
    ret_types = spec.get("out_types", ["num"] * len(spec["out"]))
    ret = LEAN_TYPES[ret_types[0]] if len(ret_types) == 1 else "(" + " × ".join(LEAN_TYPES[t] for t in ret_types) + ")"
    zero = {"num": "(n# 0)", "str": '""', "bool": "false", "int": "(0 : Int)", "obool": "none", "dictn": "none", "oint": "none"}
    placeholder = zero[ret_types[0]] if len(ret_types) == 1 else "(" + ", ".join(zero[t] for t in ret_types) + ")"
    if spec.get("option"):
        ret, placeholder = f"Option {ret}", "none"
    binders = " ".join(f"({lean_ident(p)} : {LEAN_TYPES[t]})" for p, t in [(t_, "table") for t_ in spec.get("tables", [])] + params)
    head = f"def {spec['name']} {{α : Type}} [Transc α] {binders} : {ret} :="
    if spec.get("loop_state") is not None:      # the auxiliary loop definition exists (with its declared signature) also when the target is unavailable
        placeholder_loop = loop_head(spec) + " :=\n  fun _ " + "_ " * len(spec["loop_state"]) + "=> none\n"
    else:
        placeholder_loop = ""
    try:
        with open(os.path.join(repo, spec["file"])) as f:
            tree = ast.parse(f.read())
        sym.tree = tree
        env = {p: (lean_ident(p), PARAM_BASE.get(t, t)) for p, t in params if t != "fuel"}
        for t_ in spec.get("tables", []):
            env[t_] = (lean_ident(t_), "table")
        for c_, v_ in spec.get("consts", {}).items():
            env[c_] = number(v_)
        for a_ in spec.get("appends", ()):
            env[a_ + ".append"] = ("(none : Option Bool)", "obool")
        if "lambda" in spec:
            lam = find_lambda(tree, spec["lambda"])
            names = [a.arg for a in lam.args.args]
            if names != [p for p, _ in params]:
                raise Untranslatable(f"lambda arguments {names}")
            body, _ = sym.expr(lam.body, env)
        else:
            fn = find_function(tree, spec["func"], spec.get("cls"))
            if spec.get("check_args"):
                names = [a.arg for a in fn.args.args]
                if names[:len(spec["check_args"])] != spec["check_args"]:
                    raise Untranslatable(f"arguments {names}")
            stmts = list(fn.body)
            lets = []
            if "enter_if" in spec:
                # enter the branch of a top-level if/elif chain whose test reads `enter_if` (the statements before the chain are a prologue)
                found = None
                for i, s in enumerate(stmts):
                    node = s
                    while isinstance(node, ast.If):
                        if ast.unparse(node.test) == spec["enter_if"]:
                            found = (i, node)
                            break
                        node = node.orelse[0] if len(node.orelse) == 1 else None
                    if found:
                        break
                if not found:
                    raise Untranslatable("no branch with the test " + spec["enter_if"])
                env, l2 = sym.prologue(stmts[:found[0]], env)
                lets += l2
                stmts = list(found[1].body)
            for loopvar in spec.get("descend", []):
                for i, s in enumerate(stmts):
                    if isinstance(s, ast.For):
                        tnames = {n.id for n in ast.walk(s.target) if isinstance(n, ast.Name)}
                        if loopvar in tnames:
                            env, l2 = sym.prologue(stmts[:i], env)
                            lets += l2
                            for n in tnames - {loopvar}:
                                env[n] = POISON
                            for p_, t_ in params:      # loop variables that are inputs of the slice
                                if p_ in tnames:
                                    env[p_] = (lean_ident(p_), PARAM_BASE.get(t_, t_))
                            sym.plan["loops"].append(s)
                            stmts = list(s.body)
                            break
                else:
                    raise Untranslatable(f"loop over {loopvar} not found")
            if spec.get("descend"):
                for p_, t_ in params:          # the slice's inputs are the values the variables hold when the loop body starts
                    env[p_] = (lean_ident(p_), PARAM_BASE.get(t_, t_))
            if "start_after" in spec:
                for i, s in enumerate(stmts):
                    if spec["start_after"] in sym.assigned([s]):
                        last = i
                env, l2 = sym.prologue(stmts[:last + 1], env)
                lets += l2
                stmts = stmts[last + 1:]
                for p_, t_ in params:
                    env[p_] = (lean_ident(p_), PARAM_BASE.get(t_, t_))
            if "start_at_src" in spec:
                for i, s in enumerate(stmts):
                    if ast.unparse(s) == spec["start_at_src"]:
                        env, l2 = sym.prologue(stmts[:i], env)
                        lets += l2
                        stmts = stmts[i:]
                        for p_, t_ in params:
                            env[p_] = (lean_ident(p_), PARAM_BASE.get(t_, t_))
                        break
                else:
                    raise Untranslatable("no statement " + spec["start_at_src"])
            if "start_at_test" in spec:
                for i, s in enumerate(stmts):
                    if isinstance(s, ast.If) and ast.unparse(s.test) == spec["start_at_test"]:
                        env, l2 = sym.prologue(stmts[:i], env)
                        lets += l2
                        stmts = stmts[i:]
                        for p_, t_ in params:
                            env[p_] = (lean_ident(p_), PARAM_BASE.get(t_, t_))
                        break
                else:
                    raise Untranslatable("no if-statement with the test " + spec["start_at_test"])
            if "start_at" in spec:
                for i, s in enumerate(stmts):
                    if spec["start_at"] in sym.assigned([s]):
                        env, l2 = sym.prologue(stmts[:i], env)
                        lets += l2
                        stmts = stmts[i:]
                        for p_, t_ in params:      # the slice's inputs are the values the variables hold at its start
                            env[p_] = (lean_ident(p_), PARAM_BASE.get(t_, t_))
                        break
                else:
                    raise Untranslatable(f"no statement assigns {spec['start_at']}")
            sym.plan["slice"] = stmts
            sym.plan["fn"] = fn
            body = "".join(lets) + sym.run(stmts, env)
            if sym.guards:
                raise Untranslatable("exception guard outside an assignment")
        if spec.get("loop_state") is not None and not sym.loop_defs:
            raise Untranslatable("no while loop")
        PLANS[spec["name"]] = (spec, tree, sym.plan)
        return True, "".join(d + "\n" for d in sym.loop_defs) + f"{head}\n  {body}", None
    except Untranslatable as e:
        return False, f"-- not translated: {e}\n{placeholder_loop}{head}\n  {placeholder}", str(e)
    except Exception as e:      # a file that does not parse, ...: never an alarm of its own
        return False, f"-- not translated: {type(e).__name__}\n{placeholder_loop}{head}\n  {placeholder}", f"{type(e).__name__}: {e}"


# ----------------------------------------------------------------------------------------------- what is translated

def _combine(name):
    return dict(group="Combine", name=name, file="hvsrpy/processing.py", func=name, check_args=["ns", "ew"], params=[("ns", "num"), ("ew", "num")], out=["return"])


def _window(name, func):
    return dict(group="Windows", name=name, file="hvsrpy/smoothing.py", func=func, descend=["fc", "f"], stop_before="sumproduct",
                params=[("bandwidth", "num"), ("f", "num"), ("fc", "num")], out=["window"], option=True)


def _stat(name, var, dist, calc):
    return dict(group="Stats", name=name, file="hvsrpy/statistics.py", **{"lambda": (var, dist, calc)}, params=[("values", "num")], out=["return"])


TARGETS = [
    _combine("arithmetic_mean"), _combine("squared_average"), _combine("geometric_mean"),
    _combine("total_horizontal_energy"), _combine("maximum_horizontal_value"),
    dict(group="Azimuth", name="single_azimuth", file="hvsrpy/processing.py", func="single_azimuth", check_args=["ns", "ew", "degrees_from_north"],
         params=[("ns", "num"), ("ew", "num"), ("degrees_from_north", "num")], out=["return"]),
    _window("konno_and_ohmachi_window", "konno_and_ohmachi"), _window("parzen_window", "parzen"),
    _window("linear_rectangular_window", "linear_rectangular"), _window("linear_triangular_window", "linear_triangular"),
    _window("log_rectangular_window", "log_rectangular"), _window("log_triangular_window", "log_triangular"),
    _stat("pre_normal_mean", "PRE_PROCESS_FUNCTION_MAP", "normal", "mean"), _stat("pre_normal_std", "PRE_PROCESS_FUNCTION_MAP", "normal", "std"),
    _stat("pre_lognormal_mean", "PRE_PROCESS_FUNCTION_MAP", "lognormal", "mean"), _stat("pre_lognormal_std", "PRE_PROCESS_FUNCTION_MAP", "lognormal", "std"),
    _stat("post_normal_mean", "POST_PROCESS_FUNCTION_MAP", "normal", "mean"), _stat("post_normal_std", "POST_PROCESS_FUNCTION_MAP", "normal", "std"),
    _stat("post_lognormal_mean", "POST_PROCESS_FUNCTION_MAP", "lognormal", "mean"), _stat("post_lognormal_std", "POST_PROCESS_FUNCTION_MAP", "lognormal", "std"),
    dict(group="Stats", name="nth_std_factory", file="hvsrpy/statistics.py", func="_nth_std_factory", check_args=["n", "distribution", "mean", "std"],
         tables=["DISTRIBUTION_MAP"], params=[("n", "num"), ("distribution", "str"), ("mean", "num"), ("std", "num")], out=["return"], option=True),
    dict(group="Orient", name="orient_sensor_to", file="hvsrpy/seismic_recording_3c.py", cls="SeismicRecording3C", func="orient_sensor_to",
         check_args=["self", "degrees_from_north"],
         params=[("degrees_from_north", "num"), ("self.degrees_from_north", "num"), ("self.ns.amplitude", "num"), ("self.ew.amplitude", "num")],
         out=["self.ns.amplitude", "self.ew.amplitude", "self.degrees_from_north"], out_types=["num", "num", "num"], stop_before="self.meta"),
    dict(group="Sesame", name="clarity_thresholds", file="hvsrpy/sesame.py", func="clarity", start_at="epsilon", stop_before="criteria",
         params=[("mc_peak_frq", "num")], out=["epsilon", "theta"], out_types=["num", "num"]),
    # SESAME reliability criteria i-iii as functions of the peak frequency and of max sigma_A in the +-octave band
    dict(group="Sesame", name="reliability_criteria", file="hvsrpy/sesame.py", func="reliability", start_after="mc_peak_frq", consts={"verbose": 0},
         opaque=["mc_peak_frq", "sigma_a_max"],
         params=[("windowlength", "num"), ("passing_window_count", "num"), ("mc_peak_frq", "num"), ("sigma_a_max", "num")],
         out=["criteria[0]", "criteria[1]", "criteria[2]"], out_types=["num", "num", "num"]),
    # SESAME clarity criteria iii-vi as functions of the peak, of the peaks of the +-sigma curves and of sigma_A at the peak
    dict(group="Sesame", name="clarity_criteria", file="hvsrpy/sesame.py", func="clarity", start_after="mc_peak_amp", consts={"verbose": 0},
         opaque=["mc_peak_frq", "mc_peak_amp", "f_plus", "f_minus", "sigma_a_peak"],
         params=[("mc_peak_frq", "num"), ("mc_peak_amp", "num"), ("f_plus", "num"), ("f_minus", "num"), ("fn_std", "num"), ("sigma_a_peak", "num")],
         out=["criteria[2]", "criteria[3]", "criteria[4]", "criteria[5]"], out_types=["num"] * 4),
    # one-sided PSD: the chain of normalisations applied to the summed |FFT|^2 (taper power, samples, sampling rate, 2, windows)
    dict(group="Psd", name="psd_scaling", file="hvsrpy/processing.py", func="_rpds_single_component", start_after="window_scaling_factor",
         abstract={"len(timeseries)": "n_windows"},
         params=[("psd", "num"), ("window_scaling_factor", "num"), ("tseries.n_samples", "num"), ("tseries.fs", "num"), ("n_windows", "num")],
         out=["return"]),
    # Nyquist guard of the resampling: refused (None) iff the largest centre frequency exceeds 1/(2 dt)
    dict(group="Nyquist", name="check_nyquist_frequency", file="hvsrpy/processing.py", func="check_nyquist_frequency", check_args=["dt", "fcs"],
         abstract={"max(fcs)": "fmax", "np.max(fcs)": "fmax", "fcs.max()": "fmax"}, params=[("dt", "num"), ("fmax", "num")], out=["fnyq"], option=True),
    # Monte-Carlo fn: conversion of the draws into the space of the spatial statistics, and of the results back
    dict(group="Spatial", name="mc_to_spatial", file="hvsrpy/hvsr_spatial.py", func="montecarlo_fn",
         start_at_test="distribution_generators == 'lognormal' and distribution_spatial == 'normal'", stop_before="fn_mean",
         params=[("distribution_generators", "str"), ("distribution_spatial", "str"), ("realizations", "num")], out=["realizations"]),
    dict(group="Spatial", name="mc_from_spatial", file="hvsrpy/hvsr_spatial.py", func="montecarlo_fn",
         start_at_test="distribution_spatial == 'lognormal'",
         params=[("distribution_spatial", "str"), ("fn_mean", "num"), ("fn_stddev", "num"), ("realizations", "num")],
         out=["return"], out_types=["num", "num", "num"]),
    # TimeSeries.split: samples per window and number of windows from the window length, the time step and the record length
    dict(group="Split", name="split_counts", file="hvsrpy/timeseries.py", cls="TimeSeries", func="split", check_args=["self", "window_length_in_seconds"],
         params=[("window_length_in_seconds", "num"), ("self.dt_in_seconds", "num"), ("self.n_samples", "int")],
         out=["samples_per_window", "n_windows"], out_types=["int", "int"], stop_before="start_idx", option=True),
    # SeismicRecording3C.__init__: the stored orientation is normalised to [0, 360)
    dict(group="Orient", name="init_orientation", file="hvsrpy/seismic_recording_3c.py", cls="SeismicRecording3C", func="__init__",
         start_at="self.degrees_from_north", stop_before="meta", params=[("degrees_from_north", "num")], out=["self.degrees_from_north"]),
    # readers: MiniShark header scaling, PEER orientation taken from the azimuth code of the north-most horizontal
    dict(group="Readers", name="minishark_scale", file="hvsrpy/data_wrangler.py", func="_read_minishark", start_at_src="data /= gain", stop_before="vt",
         params=[("data", "num"), ("gain", "num"), ("conversion", "num")], out=["data"]),
    dict(group="Readers", name="peer_orientation", file="hvsrpy/data_wrangler.py", func="_read_peer", start_at_test="degrees_from_north is None", stop_before="npts",
         abstract={"component_keys_abs[ns_id]": "ns_azimuth"}, consts={"degrees_from_north": None},
         params=[("ns_azimuth", "num")], out=["degrees_from_north"]),
    # HvsrCurve._search_range_to_index_range: None is the only open end; a limit selects the nearest sample (upper end inclusive)
    dict(group="Peaks", name="search_range_to_index_range", file="hvsrpy/hvsr_curve.py", cls="HvsrCurve", func="_search_range_to_index_range",
         check_args=["frequency", "search_range_in_hz"], unpack={"search_range_in_hz": ["f_low", "f_high"]}, int_vars=["f_low_idx", "f_high_idx"],
         abstract={"np.argmin(np.abs(frequency - f_low))": ("nearest_low", "int"), "np.argmin(np.abs(frequency - f_high))": ("nearest_high", "int"),
                   "len(frequency)": ("n_frequency", "int")},
         params=[("f_low", "onum"), ("f_high", "onum"), ("nearest_low", "int"), ("nearest_high", "int"), ("n_frequency", "int")],
         out=["return"], out_types=["int", "int"]),
    # TimeSeries.trim: the three refusals, then the samples nearest to the two times (np.argmin of |t - time| is an input)
    dict(group="Trim", name="trim_indices", file="hvsrpy/timeseries.py", cls="TimeSeries", func="trim", check_args=["self", "start_time", "end_time"],
         abstract={"current_time[-1]": "t_last", "np.argmin(np.absolute(current_time - start_time))": ("nearest_start", "int"),
                   "np.argmin(np.absolute(current_time - end_time))": ("nearest_end", "int")},
         params=[("start_time", "num"), ("end_time", "num"), ("t_last", "num"), ("nearest_start", "int"), ("nearest_end", "int")],
         out=["start_index", "end_index"], out_types=["int", "int"], stop_before="self.amplitude", option=True),
    # frequency-domain window rejection: the accept decision of the inner loop (None = window skipped, its masks are kept) ...
    dict(group="Fdwra", name="fdwra_keep", file="hvsrpy/window_rejection.py", func="_frequency_domain_window_rejection",
         descend=["c_iteration", "c_peak"], params=[("c_valid", "bool"), ("c_peak", "num"), ("lower_bound", "num"), ("upper_bound", "num")],
         out=["hvsr.valid_window_boolean_mask[]", "hvsr.valid_peak_boolean_mask[]"], out_types=["bool", "bool"], option=True),
    # ... and the stopping rule at the end of an iteration (some c_iteration = return, none = next iteration)
    dict(group="Fdwra", name="fdwra_stop", file="hvsrpy/window_rejection.py", func="_frequency_domain_window_rejection",
         descend=["c_iteration"], start_after="d_after",
         params=[("diff_before", "num"), ("std_fn_before", "num"), ("std_fn_after", "num"), ("d_after", "num"), ("c_iteration", "num")],
         out=["return"], option=True, fallthrough="none"),
]


TARGETS.append(
    # reader of azimuthal results: where a new azimuth block starts (the label changes, or the curve numbering restarts at one -- repair of C12-d)
    dict(group="ObjectIO", name="reader_block_start", file="hvsrpy/object_io.py", func="read_hvsr_object_from_file", enter_if="meta['processing_method'] == 'azimuthal'",
         descend=["header"], start_after="curr_azimuth", skip_calls=("azimuths.append", "hvsrs.append"), abstract={"int(curr_curve)": ("curve_number", "int")},
         params=[("curr_azimuth", "str"), ("prev_azimuth", "str"), ("curve_number", "int"), ("idx", "int"), ("start_idx", "int")],
         out=["start_idx", "prev_azimuth"], out_types=["int", "str"]))

TARGETS += [
    # time-domain rejection (C13). STA/LTA, body of the loop over the components of one window: points per STA / LTA (`int(seconds // dt)`), the two
    # IndexErrors and the ZeroDivisionError, and the decision on the extreme ratios -- `some false` appended and the loop left (window rejected), or nothing
    # appended (next component). The extreme ratios themselves are inputs (np.max / np.min of an array expression).
    dict(group="TimeRej", name="sta_lta_step", file="hvsrpy/window_rejection.py", func="sta_lta_window_rejection", descend=["record", "component"],
         allow_break=True, appends=["valid_window_boolean_mask"],
         abstract={"np.max(sta_values / lta)": "ratio_max", "np.min(sta_values / lta)": "ratio_min"},
         params=[("sta_seconds", "num"), ("lta_seconds", "num"), ("min_sta_lta_ratio", "num"), ("max_sta_lta_ratio", "num"),
                 ("timeseries.dt_in_seconds", "num"), ("timeseries.n_samples", "int"), ("ratio_max", "num"), ("ratio_min", "num")],
         out=["npts_in_sta", "n_sta_in_window", "npts_in_lta", "valid_window_boolean_mask.append"], out_types=["int", "int", "int", "obool"], option=True),
    # maximum-value rejection: running maximum over the components, normalisation by the overall maximum, keep decision
    dict(group="TimeRej", name="maxvalue_update", file="hvsrpy/window_rejection.py", func="maximum_value_window_rejection", descend=["idx", "component"],
         abstract={"np.max(np.abs(timeseries.amplitude))": "component_max"},
         params=[("maximum_value", "num"), ("component_max", "num")], out=["maximum_value"]),
    dict(group="TimeRej", name="maxvalue_normalise", file="hvsrpy/window_rejection.py", func="maximum_value_window_rejection", start_at_test="normalized",
         stop_before="passing_records", abstract={"np.max(np.abs(maximum_values))": "overall_max"},
         params=[("maximum_values", "num"), ("normalized", "bool"), ("overall_max", "num")], out=["maximum_values"]),
    dict(group="TimeRej", name="maxvalue_keep", file="hvsrpy/window_rejection.py", func="maximum_value_window_rejection", descend=["maximum_value"],
         appends=["valid_window_boolean_mask"], skip_calls=("passing_records.append",),
         params=[("maximum_value", "num"), ("maximum_value_threshold", "num")], out=["valid_window_boolean_mask.append"], out_types=["obool"]),
]

TARGETS += [
    # FFT length (C01, C09, C19). nextpow2: the `while True` loop as a recursion on fuel; prepare_fft_settings: what is stored back into settings.fft_settings
    # as a function of its previous value (None / no key n / n None / n = k), nextpow2 of the longest record and that length
    dict(group="Fft", name="nextpow2", file="hvsrpy/processing.py", func="nextpow2", check_args=["n", "minimum_power_of_two"],
         params=[("fuel", "fuel"), ("n", "int"), ("minimum_power_of_two", "pint")], loop_state=[("power_of_two", "int")],
         out=["return"], out_types=["int"], option=True),
    dict(group="Fft", name="prepare_fft_store", file="hvsrpy/processing.py", func="prepare_fft_settings", check_args=["records", "settings"],
         start_after="good_n", dict_key="n",
         params=[("good_n", "int"), ("max_n_samples", "int"), ("settings.fft_settings", "dictn")], out=["settings.fft_settings"], out_types=["dictn"]),
]

TARGETS += [
    # Cheng et al. (2020) weights (C11): body of the loop over the azimuths of `_compute_statistical_weights` -- the value appended for one azimuth and how
    # many times, as a function of the number of azimuths and of the number of accepted entries of that azimuth's mask (ZeroDivisionError when it is zero)
    dict(group="Weights", name="cheng_weights_step", file="hvsrpy/hvsr_azimuthal.py", cls="HvsrAzimuthal", func="_compute_statistical_weights",
         descend=["hvsr"], extends=["weights"],
         abstract={"len(self.azimuths)": ("n_azimuths_in", "int"), "int(np.sum(getattr(hvsr, mask)))": ("n_valid_in", "int")},
         params=[("n_azimuths_in", "int"), ("n_valid_in", "int")], out=["weights.extend.value", "weights.extend.count"], out_types=["num", "int"], option=True),
]

TARGETS += [
    # readers (C07): one pass of the loop of `_arrange_traces` -- which "found" flag a channel name sets, refused when none applies -- and the sample-count check
    dict(group="Readers", name="arrange_step", file="hvsrpy/data_wrangler.py", func="_arrange_traces", descend=["trace"],
         params=[("trace.meta.channel", "str"), ("found_ew", "bool"), ("found_ns", "bool"), ("found_vt", "bool")],
         out=["found_ew", "found_ns", "found_vt"], out_types=["bool", "bool", "bool"], option=True,
         str_values=["BHE", "HHN", "EHZ", "E", "N", "Z", "HNE", "BHN", "BHZ", "XYZ", "bhe", "EN1", "Z2", "NE", "ZE"]),
    dict(group="Readers", name="check_npts", file="hvsrpy/data_wrangler.py", func="_check_npts", check_args=["npts_header", "npts_found"],
         params=[("npts_header", "int"), ("npts_found", "int")], out=["npts_header"], out_types=["int"], option=True),
    # SESAME (C16): trimming to the search range -- the limits are min / max of the pair, the distances are taken to those limits, the slice runs from the first
    # nearest sample of the lower limit through the first nearest sample of the upper limit
    dict(group="Sesame", name="trim_curve_indices", file="hvsrpy/sesame.py", func="trim_curve", consts={"verbose": 0},
         unpack={"search_range_in_hz": ["range_a", "range_b"]},
         abstract={"np.where(rel_frq_low == np.min(rel_frq_low))[0][0]": ("first_nearest_low", "int"),
                   "np.where(rel_frq_upp == np.min(rel_frq_upp))[0][0]": ("first_nearest_upp", "int")},
         params=[("range_a", "num"), ("range_b", "num"), ("frequency", "num"), ("first_nearest_low", "int"), ("first_nearest_upp", "int")],
         out=["low_limit", "upp_limit", "rel_frq_low", "rel_frq_upp", "lower_index", "upper_index"], out_types=["num", "num", "num", "num", "int", "int"],
         stop_before="frequency"),
]

GROUPS = ["Weights", "Fft", "TimeRej", "Combine", "Azimuth", "Orient", "Windows", "Stats", "Sesame", "Fdwra", "Psd", "Nyquist", "Spatial", "Split", "Readers", "Peaks", "Trim", "ObjectIO"]


def emit(repo):
    PLANS.clear()
    return _emit(repo)


def _emit(repo):
    """returns (status dict, {group: Lean text}); one file `Generated/Py<group>.lean` per group so that a target that
    breaks concerns only the properties that use its group"""
    status = {}
    texts = {}
    for g in GROUPS:
        L = ["import HvsrVerif.PyPrim", "/-! GENERATED by tools/py2lean.py from the Python source of the hvsrpy working tree -- do not edit. -/",
             "set_option linter.unusedVariables false", "namespace HV.Generated.Py", "open HV", ""]
        for spec in TARGETS:
            if spec["group"] != g:
                continue
            ok, text, why = translate(repo, spec)
            status["py:" + spec["name"]] = "translated" if ok else f"unavailable: {why}"
            L.append(text)
            L.append(f"def {spec['name']}.ok : Bool := {'true' if ok else 'false'}")
            L.append("")
        L.append("end HV.Generated.Py")
        texts[g] = "\n".join(L) + "\n"
    return status, texts


READ = {"num": "flt", "str": "tok", "bool": "bool", "int": "int", "onum": "optFlt", "pint": "int", "fuel": "nat", "dictn": "dictN"}
SHOW = {"num": "fF", "int": "toString", "bool": "fB", "str": "id", "obool": "fOB", "dictn": "fDN"}


def emit_driver(status):
    """`Generated/PyDrv.lean`: one driver command `py.NAME args…` per translated target, evaluating the generated definition at
    `Float` (used by harness/pyvalidate.py to run the translation and the original Python statements on the same inputs)"""
    groups = sorted({spec["group"] for spec in TARGETS})
    L = [f"import HvsrVerif.Generated.Py{g}" for g in groups] + ["import HvsrVerif.Proto",
         "/-! GENERATED by tools/py2lean.py -- driver commands evaluating the translated definitions at Float. -/",
         "namespace HV.Drv", "open HV.Proto HV.Generated", "",
         "def strPairs : P (List (String × String)) := do rep (← nat) (do let a ← tok; let b ← tok; pure (a, b))",
         "def fOB : Option Bool → String | none => \"none\" | some b => fB b",
         "def dictN : P (Option (Option (Option Int))) := do",
         "  let t ← tok",
         "  if t == \"None\" then pure none else if t == \"nokey\" then pure (some none) else if t == \"nnone\" then pure (some (some none)) else",
         "  match t.toInt? with | some k => pure (some (some (some k))) | none => throw s!\"dictN:{t}\"",
         "def fDN : Option (Option (Option Int)) → String | none => \"None\" | some none => \"nokey\" | some (some none) => \"nnone\" | some (some (some k)) => toString k", "",
         "def opsPy (op : String) : Option (P String) :=", "  match op with"]
    for spec in TARGETS:
        if status.get("py:" + spec["name"]) != "translated":
            continue
        binds, args = [], []
        for t_ in spec.get("tables", []):
            binds.append(f"let {lean_ident(t_)} ← strPairs")
            args.append(lean_ident(t_))
        for p_, t_ in spec["params"]:
            binds.append(f"let {lean_ident(p_)} ← {READ[t_]}")
            args.append(lean_ident(p_))
        ot = spec.get("out_types", ["num"] * len(spec["out"]))
        names = [f"o{i}" for i in range(len(ot))]
        pat = names[0] if len(ot) == 1 else "(" + ", ".join(names) + ")"
        shown = ' ++ " " ++ '.join(f"{SHOW[t]} {n}" for t, n in zip(ot, names))
        call = f"Py.{spec['name']} (α := Float) " + " ".join(args)
        if spec.get("option"):
            body = f'match {call} with | none => "none" | some {pat} => "some " ++ {shown}'
        else:
            body = f'match {call} with | {pat} => "val " ++ {shown}'
        L.append(f'  | "py.{spec["name"]}" => some (do {"; ".join(binds)}; pure ({body}))')
    L += ["  | _ => none", "", "end HV.Drv"]
    return "\n".join(L) + "\n"


def write(repo, lean_dir):
    """rewrite Generated/Py<group>.lean where the text changed; returns the status dict"""
    status, texts = emit(repo)
    for g, text in texts.items():
        path = os.path.join(lean_dir, "HvsrVerif", "Generated", f"Py{g}.lean")
        old = None
        if os.path.exists(path):
            with open(path) as f:
                old = f.read()
        if old != text:
            with open(path, "w") as f:
                f.write(text)
    path = os.path.join(lean_dir, "HvsrVerif", "Generated", "PyDrv.lean")
    text = emit_driver(status)
    old = None
    if os.path.exists(path):
        with open(path) as f:
            old = f.read()
    if old != text:
        with open(path, "w") as f:
            f.write(text)
    return status


if __name__ == "__main__":
    st, texts = emit(sys.argv[1] if len(sys.argv) > 1 else "/repo")
    for g, text in texts.items():
        sys.stdout.write(f"-- ===== Generated/Py{g}.lean\n" + text)
    for k, v in st.items():
        sys.stderr.write(f"{k}: {v}\n")
