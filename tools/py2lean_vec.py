"""py2lean_vec: translate whole numpy *array* functions of hvsrpy from their Python source into Lean 4 definitions.

Companion of tools/py2lean.py (scalar kernels). Here a target is a complete module-level function whose arguments are float arrays
(possibly holding NaN), optional arrays (`None`), strings and constants. The function is executed symbolically over the `ast` of the
CURRENT working tree: assignments, `if/elif/else`, `try/except` (handlers that re-raise), `return`, `raise`, calls to helper functions of
the same module with keyword arguments (inlined, the caller's continuation is the helper's `return`), tuple returns and unpacking,
functions stored in module-level dicts of lambdas and selected by a (symbolic) key, masked assignment `a[mask] = c`, `x is None`,
`**kwargs` with an empty dict, and the numpy calls listed in NP_*. Arrays are `List (Option α)` (NaN = none), possibly-NaN scalars are
`Option α`; the meaning of every primitive is in `lean/HvsrVerif/PyVec.lean`. The result type of a translated function is
`Option (Option α)`: outer `none` = the Python function raises, inner `none` = it returns NaN / a non-finite value.

Nothing of the hand-written model is consulted. A source outside the fragment makes the target untranslatable (`NAME.ok := false`, bridge
trivially true, evidence `t_tie: unavailable`). Truthiness of arrays/numbers is never guessed.

usage: py2lean_vec.py [REPO]
"""
import ast
import os
import sys

sys.path.insert(0, os.path.dirname(os.path.abspath(__file__)))
from py2lean import Untranslatable, dotted, lean_ident     # noqa: E402


class Val:
    def __init__(self, text, ty, const=None, has_const=False, fn=None, items=None):
        self.text, self.ty, self.const, self.has_const, self.fn, self.items = text, ty, const, has_const, fn, items


NP_MAP = {"log": "Transc.log", "exp": "Transc.exp", "sqrt": "Transc.sqrt"}
BINOPS = {ast.Add: "PyV.oadd", ast.Sub: "PyV.osub", ast.Mult: "PyV.omul", ast.Div: "PyV.odiv"}
LEAN_TY = {"b": "List Bool", "m": "List (List (Option α))", "v": "List (Option α)", "ov": "Option (List (Option α))", "str": "String", "n": "Option α", "table": "List (String × String)"}


class VSym:
    def __init__(self, tree, tables, depth=0, counter=None, repo=None, file=None, cls=None):
        self.tree = tree
        self.tables = tables
        self.depth = depth
        self.counter = counter if counter is not None else [0]
        self.repo, self.file, self.cls = repo, file, cls

    def class_node(self):
        for n in self.tree.body:
            if isinstance(n, ast.ClassDef) and n.name == self.cls:
                return n
        return None

    def class_property(self, name):
        """the `return` expression of a @property of the class being translated, or None"""
        c = self.class_node() if self.cls else None
        if c is None:
            return None
        for m in c.body:
            if isinstance(m, ast.FunctionDef) and m.name == name and any((dotted(d) or "") == "property" for d in m.decorator_list):
                body = [st for st in m.body if not (isinstance(st, ast.Expr) and isinstance(st.value, ast.Constant))]
                if len(body) == 1 and isinstance(body[0], ast.Return) and body[0].value is not None and [a.arg for a in m.args.args] == ["self"]:
                    return body[0].value
        return None

    def imported_function(self, name):
        """a function imported with `from .module import name`: (FunctionDef, tree of that module, file), or None"""
        if self.repo is None or self.file is None:
            return None
        for n in self.tree.body:
            if isinstance(n, ast.ImportFrom) and n.level == 1 and n.module and any(a.name == name and a.asname is None for a in n.names):
                path = os.path.join(os.path.dirname(self.file), n.module + ".py")
                try:
                    with open(os.path.join(self.repo, path)) as f:
                        tree = ast.parse(f.read())
                except OSError:
                    return None
                for m in tree.body:
                    if isinstance(m, ast.FunctionDef) and m.name == name:
                        return m, tree, path
        return None

    def fresh(self, name):
        self.counter[0] += 1
        return f"{lean_ident(name)}_{self.counter[0]}"

    # ------------------------------------------------------------------ module-level objects
    def module_dict(self, name):
        for n in self.tree.body:
            if isinstance(n, ast.Assign) and len(n.targets) == 1 and isinstance(n.targets[0], ast.Name) and n.targets[0].id == name \
                    and isinstance(n.value, ast.Dict):
                return n.value
        return None

    def module_function(self, name):
        for n in self.tree.body:
            if isinstance(n, ast.FunctionDef) and n.name == name:
                return n
        return None

    # ------------------------------------------------------------------ expressions
    def const(self, value):
        if isinstance(value, bool):
            return Val("true" if value else "false", "bool", value, True)
        if isinstance(value, int) and value >= 0:
            return Val(f"(PyV.onat {value})", "n", value, True)
        if isinstance(value, str):
            return Val('"' + value.replace("\\", "\\\\").replace('"', '\\"') + '"', "str", value, True)
        if value is None:
            return Val("none", "none", None, True)
        raise Untranslatable(f"constant {value!r}")

    def expr(self, node, env, guards):
        if isinstance(node, ast.Constant):
            return self.const(node.value)
        ab = getattr(self, "abstract", None)
        if ab and not isinstance(node, (ast.Name, ast.Attribute)):
            key = ast.unparse(node)
            if key in ab:             # an aggregate outside the fragment (a method call building an array): an input of the translation
                return Val(lean_ident(ab[key][0]), ab[key][1])
        name = dotted(node)
        if name is not None:
            if name in env:
                v = env[name]
                if v is None:
                    raise Untranslatable(f"use of untranslated value {name}")
                return v
            if name in ("np.nan", "numpy.nan", "np.NaN", "math.nan"):
                return Val("none", "n")
            if name in self.tables:
                return Val(lean_ident(name), "table")
            if isinstance(node, ast.Name) and self.module_dict(name) is not None:
                return Val(name, "moddict", items=[(None, self.module_dict(name))])
            f = self.function_value([(None, node)])
            if f is not None:
                return f
            if name.startswith("self.") and name.count(".") == 1:
                pr = self.class_property(name[5:])
                if pr is not None:
                    return self.expr(pr, env, guards)
            raise Untranslatable(f"free name {name}")
        if isinstance(node, ast.Dict) and not node.keys:
            return Val("{}", "empty")
        if isinstance(node, ast.IfExp):
            c = self.expr(node.test, env, guards)
            if c.ty == "static":
                return self.expr(node.body if c.const else node.orelse, env, guards)
            a = self.expr(node.body, env, guards)
            b = self.expr(node.orelse, env, guards)
            if c.ty == "prop" and a.ty == b.ty and a.ty in ("n", "v", "b"):
                return Val(f"(if {c.text} then {a.text} else {b.text})", a.ty)
            raise Untranslatable("conditional expression")
        if isinstance(node, ast.Tuple):
            return Val("", "tuple", items=[self.expr(e, env, guards) for e in node.elts])
        if isinstance(node, ast.UnaryOp):
            a = self.expr(node.operand, env, guards)
            if isinstance(node.op, ast.Invert) and a.ty == "b":
                return Val(f"(PyV.bnot {a.text})", "b")
            if isinstance(node.op, ast.USub) and a.ty == "n":
                return Val(f"(PyV.oneg {a.text})", "n")
            if isinstance(node.op, ast.USub) and a.ty == "v":
                return Val(f"(PyV.vneg {a.text})", "v")
            if isinstance(node.op, ast.Not) and a.ty == "prop":
                return Val(f"(¬ {a.text})", "prop")
            raise Untranslatable("unary operator")
        if isinstance(node, ast.BinOp):
            a = self.expr(node.left, env, guards)
            if isinstance(node.op, ast.Pow):
                if isinstance(node.right, ast.Constant) and node.right.value == 2 and not isinstance(node.right.value, bool):
                    if a.ty == "n":
                        return Val(f"(PyV.osq {a.text})", "n")
                    if a.ty == "v":
                        return Val(f"(PyV.vsq {a.text})", "v")
                raise Untranslatable("power")
            b = self.expr(node.right, env, guards)
            f = BINOPS.get(type(node.op))
            if f is None:
                raise Untranslatable("binary operator")
            if (a.ty, b.ty) == ("n", "n"):
                return Val(f"({f} {a.text} {b.text})", "n")
            if (a.ty, b.ty) == ("v", "v"):
                return Val(f"(PyV.vv {f} {a.text} {b.text})", "v")
            if (a.ty, b.ty) == ("v", "n"):
                return Val(f"(PyV.vn {f} {a.text} {b.text})", "v")
            if (a.ty, b.ty) == ("n", "v"):
                return Val(f"(PyV.nv {f} {a.text} {b.text})", "v")
            raise Untranslatable(f"operands {a.ty}, {b.ty}")
        if isinstance(node, ast.Compare) and len(node.ops) == 1:
            a = self.expr(node.left, env, guards)
            b = self.expr(node.comparators[0], env, guards)
            op = node.ops[0]
            if isinstance(op, (ast.Is, ast.IsNot, ast.Eq, ast.NotEq)) and b.ty == "none":
                pos = isinstance(op, (ast.Is, ast.Eq))
                if a.ty == "none":
                    return Val("True" if pos else "False", "static", pos, True)
                if a.ty == "ov":
                    return Val(a.text, "isnone" if pos else "notnone")
                if a.ty in ("v", "n", "str", "empty", "b"):
                    return Val("False" if pos else "True", "static", not pos, True)
                raise Untranslatable("comparison with None")
            if isinstance(op, (ast.Eq, ast.NotEq)):
                neg = isinstance(op, ast.NotEq)
                if a.has_const and b.has_const and a.ty == b.ty == "str":
                    r = (a.const == b.const) != neg
                    return Val(str(r), "static", r, True)
                if a.ty == "ostr" and b.ty == "str":
                    t = f"({a.text} = some {b.text})"
                elif a.ty == "str" and b.ty == "str":
                    t = f"({a.text} = {b.text})"
                else:
                    raise Untranslatable(f"comparison of {a.ty} and {b.ty}")
                return Val(f"(¬ {t})" if neg else t, "prop")
            raise Untranslatable("comparison")
        if isinstance(node, ast.Subscript):
            base = self.expr(node.value, env, guards)
            key = self.expr(node.slice, env, guards)
            if base.ty == "moddict":
                return self.dict_lookup(base, key, guards)
            if base.ty == "v" and key.ty == "b":
                return Val(f"(PyV.select {base.text} {key.text})", "v")
            raise Untranslatable("subscript")
        if isinstance(node, ast.Call):
            return self.call(node, env, guards)
        raise Untranslatable(type(node).__name__)

    def dict_lookup(self, base, key, guards):
        """one level of D[k1][k2]...: `items` is the list of (condition text or None, ast node) alternatives reached so far"""
        out = []
        for cond, d in base.items:
            if not isinstance(d, ast.Dict):
                raise Untranslatable("subscript of a non-dict")
            entries = []
            for k, v in zip(d.keys, d.values):
                if not (isinstance(k, ast.Constant) and isinstance(k.value, str)):
                    raise Untranslatable("dict key")
                entries.append((k.value, v))
            if key.has_const and key.ty == "str":
                hit = [v for k, v in entries if k == key.const]
                if not hit:
                    # KeyError for this alternative: the alternative raises
                    guards.append(cond if cond is not None else "True")
                    continue
                out.append((cond, hit[-1]))
            elif key.ty in ("ostr", "str"):
                if cond is not None:
                    raise Untranslatable("two symbolic keys")
                some = "some " if key.ty == "ostr" else ""
                tests = []
                for k, v in entries:
                    t = f'({key.text} = {some}"{k}")'
                    tests.append(t)
                    out.append((t, v))
                guards.append("(¬ (" + " ∨ ".join(tests) + "))")       # KeyError
            else:
                raise Untranslatable(f"dict key of type {key.ty}")
        if out:
            f = self.function_value(out)
            if f is not None:
                return f
            if all(isinstance(v, ast.Tuple) for _, v in out) and len({len(v.elts) for _, v in out}) == 1:
                items = [self.function_value([(c, v.elts[i]) for c, v in out]) for i in range(len(out[0][1].elts))]
                if all(i is not None for i in items):
                    return Val("", "tuple", items=items)
        return Val(base.text, "moddict", items=out)

    def unary_function(self, node):
        """a Python-level function of one argument given by `node` (a lambda, the name of a one-line module function, np.log/exp/sqrt):
        returns a callable Val -> Val, or None"""
        if isinstance(node, ast.Lambda):
            names = [a.arg for a in node.args.args]
            if len(names) != 1:
                return None
            return lambda arg: self.expr(node.body, {names[0]: arg}, [])
        d = dotted(node)
        if d is None:
            return None
        if d.startswith(("np.", "numpy.")) and d.split(".")[-1] in NP_MAP:
            call = ast.Call(func=node, args=[ast.Name(id="__arg__", ctx=ast.Load())], keywords=[])
            return lambda arg: self.call(call, {"__arg__": arg}, [])
        if isinstance(node, ast.Name):
            fn = self.module_function(d)
            if fn is not None and len(fn.args.args) == 1 and not fn.args.defaults:
                body = [st for st in fn.body if not (isinstance(st, ast.Expr) and isinstance(st.value, ast.Constant))]
                if len(body) == 1 and isinstance(body[0], ast.Return) and body[0].value is not None:
                    return lambda arg: self.expr(body[0].value, {fn.args.args[0].arg: arg}, [])
        return None

    def function_value(self, alts):
        """alternatives [(condition text or None, ast node)] that all denote one-argument functions: a `fn` value selecting among them"""
        fs = [(cond, self.unary_function(node)) for cond, node in alts]
        if not fs or any(f is None for _, f in fs):
            return None

        def apply(arg, fs=fs):
            texts = []
            ty = None
            for cond, f in fs:
                r = f(arg)
                if ty is not None and r.ty != ty:
                    raise Untranslatable("functions of different result type")
                ty = r.ty
                texts.append((cond, r.text))
            if ty != arg.ty:
                raise Untranslatable("function result type")
            text = arg.text
            for cond, t in reversed(texts):
                text = t if cond is None else f"(if {cond} then {t} else {text})"
            return Val(text, ty)
        return Val("<fn>", "fn", fn=apply)

    def call(self, node, env, guards):
        fn = dotted(node.func)
        if fn is None:
            raise Untranslatable("call target")
        # functions held in variables (selected from a dict of lambdas)
        if fn in env and env[fn] is not None and env[fn].ty == "fn":
            if len(node.args) != 1 or node.keywords:
                raise Untranslatable("call of a function value")
            return env[fn].fn(self.expr(node.args[0], env, guards))
        kws = []
        for k in node.keywords:
            if k.arg is None:       # **kwargs: only the empty dict
                v = self.expr(k.value, env, guards)
                if v.ty != "empty":
                    raise Untranslatable("**kwargs")
                continue
            kws.append(k)
        base = fn.split(".")[-1]
        if fn.startswith(("np.", "numpy.")):
            if kws:
                raise Untranslatable("keyword arguments of a numpy call")
            args = [self.expr(a, env, guards) for a in node.args]
            if base == "sqrt" and getattr(self, "sqrt_nan", False) and len(args) == 1 and args[0].ty == "n":
                return Val(f"(PyV.osqrt {args[0].text})", "n")
            if base in NP_MAP and len(args) == 1 and args[0].ty == "n":
                return Val(f"(PyV.omap {NP_MAP[base]} {args[0].text})", "n")
            if base == "sum" and len(args) == 1 and args[0].ty == "n":
                return args[0]
            if base in NP_MAP and len(args) == 1 and args[0].ty == "v":
                return Val(f"(PyV.vmap {NP_MAP[base]} {args[0].text})", "v")
            if base == "isnan" and len(args) == 1 and args[0].ty == "v":
                return Val(f"(PyV.isnan {args[0].text})", "b")
            if base == "nansum" and len(args) == 1 and args[0].ty == "v":
                return Val(f"(PyV.nansum {args[0].text})", "n")
            if base == "sum" and len(args) == 1 and args[0].ty == "b":
                return Val(f"(PyV.bcount {args[0].text})", "n")
            if base == "sum" and len(args) == 1 and args[0].ty == "v":
                return Val(f"(PyV.vsum {args[0].text})", "n")
            if base == "full_like" and len(args) == 2 and args[0].ty == "v" and args[1].ty == "n":
                return Val(f"(PyV.fullLike {args[0].text} {args[1].text})", "v")
            if base == "ones_like" and len(args) == 1 and args[0].ty == "v":
                return Val(f"(PyV.fullLike {args[0].text} (PyV.onat 1))", "v")
            raise Untranslatable(f"numpy function {base}")
        if base == "get" and fn[:-4] in self.tables and len(node.args) == 2 and not kws:
            k = self.expr(node.args[0], env, guards)
            d = self.expr(node.args[1], env, guards)
            if k.ty != "str" or d.ty != "none":
                raise Untranslatable("dict.get")
            return Val(f"(List.lookup {k.text} {lean_ident(fn[:-4])})", "ostr")
        if fn == "len" and len(node.args) == 1 and not kws:
            a = self.expr(node.args[0], env, guards)
            if a.ty in ("v", "m"):
                return Val(f"(PyV.olen {a.text})", "n")
            raise Untranslatable("len")
        if base == "lower" and not node.args and not kws:
            e = self.expr(node.func.value, env, guards)
            if e.ty != "str":
                raise Untranslatable("lower of a non-string")
            return Val(f"(pyLower {e.text})", "str")
        raise Untranslatable(f"call {fn}")

    # ------------------------------------------------------------------ statements (continuation passing)
    def run(self, stmts, env, ret):
        """Lean term for executing `stmts` in `env`; `ret(Val)` is the term for `return value`; raising is `none`"""
        if not stmts:
            return ret(self.const(None))
        s, rest = stmts[0], stmts[1:]
        if isinstance(s, ast.Expr):
            if isinstance(s.value, ast.Constant):
                return self.run(rest, env, ret)
            raise Untranslatable("expression statement")
        if isinstance(s, ast.Pass):
            return self.run(rest, env, ret)
        if isinstance(s, ast.Raise):
            return "none"
        if isinstance(s, ast.Try):
            if s.orelse or s.finalbody or not all(h.body and isinstance(h.body[-1], ast.Raise) for h in s.handlers):
                raise Untranslatable("try statement")
            return self.run(list(s.body) + rest, env, ret)         # every handler re-raises: an exception in the body is an exception
        if isinstance(s, ast.Return):
            return self.with_value(s.value, env, ret)
        if isinstance(s, (ast.Assign, ast.AugAssign)) and isinstance(s.value, ast.JoinedStr):
            # the text of an error message (f-string): not a value of the computation
            t_ = s.targets[0] if isinstance(s, ast.Assign) else s.target
            env2 = dict(env)
            if isinstance(t_, ast.Name):
                env2[t_.id] = None
            return self.run(rest, env2, ret)
        if isinstance(s, ast.Assign):
            if len(s.targets) != 1:
                raise Untranslatable("chained assignment")
            tgt = s.targets[0]
            if isinstance(tgt, ast.Subscript):          # a[mask] = c
                guards = []
                a = self.expr(tgt.value, env, guards)
                m = self.expr(tgt.slice, env, guards)
                c = self.expr(s.value, env, guards)
                if guards or not (a.ty == "v" and m.ty == "b" and c.ty == "n" and isinstance(tgt.value, ast.Name)):
                    raise Untranslatable("subscript assignment")
                fresh = self.fresh(tgt.value.id)
                env2 = dict(env)
                env2[tgt.value.id] = Val(fresh, "v")
                return f"(let {fresh} := (PyV.maskSet {a.text} {m.text} {c.text}); {self.run(rest, env2, ret)})"

            def bind(v, tgt=tgt, rest=rest, env=env):
                env2 = dict(env)
                if isinstance(tgt, ast.Tuple):
                    if v.ty != "tuple" or len(v.items) != len(tgt.elts):
                        raise Untranslatable("tuple unpacking")
                    for el, item in zip(tgt.elts, v.items):
                        if not isinstance(el, ast.Name):
                            raise Untranslatable("unpacking target")
                        env2[el.id] = item
                    return self.run(rest, env2, ret)
                if not isinstance(tgt, ast.Name):
                    raise Untranslatable("assignment target")
                if v.ty in ("fn", "empty", "none", "moddict", "static", "tuple") or v.has_const:
                    env2[tgt.id] = v
                    return self.run(rest, env2, ret)
                if v.ty in ("prop", "isnone", "notnone"):
                    raise Untranslatable("boolean variable")
                fresh = self.fresh(tgt.id)
                env2[tgt.id] = Val(fresh, v.ty)
                return f"(let {fresh} := {v.text}; {self.run(rest, env2, ret)})"
            return self.with_value(s.value, env, bind)
        if isinstance(s, ast.AugAssign) and isinstance(s.target, ast.Name):
            as_assign = ast.Assign(targets=[ast.Name(id=s.target.id, ctx=ast.Store())], value=ast.BinOp(left=ast.Name(id=s.target.id, ctx=ast.Load()), op=s.op, right=s.value))
            return self.run([as_assign] + rest, env, ret)
        if isinstance(s, ast.For):
            return self.for_loop(s, rest, env, ret)
        if isinstance(s, ast.If):
            guards = []
            c = self.expr(s.test, env, guards)
            if guards:
                raise Untranslatable("exception in a test")
            if c.ty == "static":
                return self.run(list(s.body if c.const else s.orelse) + rest, env, ret)
            merged = self.merge_if(s, c, env)
            if merged is not None:
                lets, env2 = merged
                return f"({lets}{self.run(rest, env2, ret)})"
            if c.ty in ("isnone", "notnone"):
                # x is None: in the other branch x is the array it holds
                var = s.test.left
                if not isinstance(var, ast.Name):
                    raise Untranslatable("is None on an expression")
                fresh = self.fresh(var.id)
                env_some = dict(env)
                env_some[var.id] = Val(fresh, "v")
                env_none = dict(env)
                env_none[var.id] = Val("none", "none", None, True)
                none_branch, some_branch = (s.body, s.orelse) if c.ty == "isnone" else (s.orelse, s.body)
                a = self.run(list(none_branch) + rest, env_none, ret)
                b = self.run(list(some_branch) + rest, env_some, ret)
                return f"(match {c.text} with | none => {a} | some {fresh} => {b})"
            if c.ty != "prop":
                raise Untranslatable("truthiness of a non-boolean")
            a = self.run(list(s.body) + rest, env, ret)
            b = self.run(list(s.orelse) + rest, env, ret)
            return f"(if {c.text} then {a} else {b})"
        raise Untranslatable(type(s).__name__)

    def for_loop(self, s, rest, env, ret):
        """`for a, b in zip(X, Y): <assignments>`: a left fold over the zipped sequences; the accumulators are the variables of the enclosing scope that
        the body assigns; afterwards the loop variables hold the last pair (unbound -- NameError -- when the sequences are empty)"""
        if s.orelse or not (isinstance(s.iter, ast.Call) and dotted(s.iter.func) == "zip" and len(s.iter.args) == 2 and not s.iter.keywords
                            and isinstance(s.target, ast.Tuple) and len(s.target.elts) == 2 and all(isinstance(e, ast.Name) for e in s.target.elts)):
            raise Untranslatable("for statement")
        guards = []
        xs = self.expr(s.iter.args[0], env, guards)
        ys = self.expr(s.iter.args[1], env, guards)
        if guards or xs.ty not in ("m", "v") or ys.ty not in ("m", "v"):
            raise Untranslatable("for over non-arrays")
        elt = {"m": "v", "v": "n"}
        a, b = s.target.elts[0].id, s.target.elts[1].id
        assigned = []
        for st in s.body:
            if isinstance(st, (ast.Assign, ast.AugAssign)):
                t = st.targets[0] if isinstance(st, ast.Assign) else st.target
                if not isinstance(t, ast.Name):
                    raise Untranslatable("loop body target")
                if t.id not in assigned:
                    assigned.append(t.id)
            else:
                raise Untranslatable("loop body statement")
        accs = [n for n in assigned if n in env and env[n] is not None]
        if not accs or any(env[n].ty != "n" for n in accs):
            raise Untranslatable("loop accumulators")
        st_names = [self.fresh("acc_" + n) for n in accs]
        pa, pb = self.fresh(a), self.fresh(b)
        env_b = dict(env)
        for n, f in zip(accs, st_names):
            env_b[n] = Val(f, "n")
        env_b[a], env_b[b] = Val(pa, elt[xs.ty]), Val(pb, elt[ys.ty])
        body = [ast.Assign(targets=[ast.Name(id=st.target.id, ctx=ast.Store())], value=ast.BinOp(left=ast.Name(id=st.target.id, ctx=ast.Load()), op=st.op, right=st.value))
                if isinstance(st, ast.AugAssign) else st for st in s.body]
        lets, env_after = self.block(body, env_b)
        outs = [env_after[n] for n in accs]
        if any(o.ty != "n" for o in outs):
            raise Untranslatable("accumulator type")
        tup = lambda items: items[0] if len(items) == 1 else "(" + ", ".join(items) + ")"
        ty = " × ".join(["Option α"] * len(accs))
        init = tup([env[n].text for n in accs])
        step = f"(fun (st : {ty}) (pr : {LEAN_TY[elt[xs.ty]]} × {LEAN_TY[elt[ys.ty]]}) => match st, pr with | {tup(st_names)}, ({pa}, {pb}) => ({lets}{tup([o.text for o in outs])}))"
        zipped = self.fresh("zipped")
        res = [self.fresh(n) for n in accs]
        env2 = dict(env)
        for n, f in zip(accs, res):
            env2[n] = Val(f, "n")
        for n in assigned:
            if n not in accs:
                env2[n] = None          # a temporary of the body: not used after the loop in the fragment
        used_after = {n.id for st in rest for n in ast.walk(st) if isinstance(n, ast.Name)}
        head = f"(let {zipped} := List.zip {xs.text} {ys.text}; match (List.foldl {step} {init} {zipped} : {ty}) with | {tup(res)} => "
        if a in used_after or b in used_after:
            la, lb = self.fresh(a + "_last"), self.fresh(b + "_last")
            env2[a], env2[b] = Val(la, elt[xs.ty]), Val(lb, elt[ys.ty])
            return head + f"(match {zipped}.getLast? with | none => none | some ({la}, {lb}) => {self.run(rest, env2, ret)}))"
        env2[a] = env2[b] = None
        return head + f"{self.run(rest, env2, ret)})"

    def block(self, stmts, env):
        """exit-free straight-line statements (assignments to names, masked assignments): (let-bindings, environment afterwards)"""
        env = dict(env)
        lets = ""
        for s in stmts:
            if isinstance(s, ast.Pass):
                continue
            if not (isinstance(s, ast.Assign) and len(s.targets) == 1):
                raise Untranslatable("block statement")
            tgt = s.targets[0]
            guards = []
            if isinstance(tgt, ast.Subscript) and isinstance(tgt.value, ast.Name):
                a = self.expr(tgt.value, env, guards)
                m = self.expr(tgt.slice, env, guards)
                c = self.expr(s.value, env, guards)
                if guards or not (a.ty == "v" and m.ty == "b" and c.ty == "n"):
                    raise Untranslatable("subscript assignment")
                fresh = self.fresh(tgt.value.id)
                lets += f"let {fresh} := (PyV.maskSet {a.text} {m.text} {c.text}); "
                env[tgt.value.id] = Val(fresh, "v")
                continue
            if not isinstance(tgt, ast.Name):
                raise Untranslatable("block target")
            if isinstance(s.value, ast.Call) and isinstance(s.value.func, ast.Name) and self.module_function(s.value.func.id) is not None:
                raise Untranslatable("helper call in a block")
            v = self.expr(s.value, env, guards)
            if guards or v.ty not in ("n", "v", "b"):
                raise Untranslatable("block value")
            fresh = self.fresh(tgt.id)
            lets += f"let {fresh} := {v.text}; "
            env[tgt.id] = Val(fresh, v.ty)
        return lets, env

    def merge_if(self, s, c, env):
        """an `if` without return/raise whose branches only assign variables: one `let x := if c then a else b` per variable instead of
        duplicating the continuation; None when the statement does not have that shape"""
        if any(isinstance(n, (ast.Return, ast.Raise, ast.Try)) for b in (s.body, s.orelse) for st in b for n in ast.walk(st)):
            return None
        try:
            if c.ty in ("isnone", "notnone"):
                var = s.test.left
                if not isinstance(var, ast.Name):
                    return None
                w = self.fresh(var.id)
                env_some = dict(env); env_some[var.id] = Val(w, "v")
                env_none = dict(env); env_none[var.id] = Val("none", "none", None, True)
                none_b, some_b = (s.body, s.orelse) if c.ty == "isnone" else (s.orelse, s.body)
                la, ea = self.block(none_b, env_none)
                lb, eb = self.block(some_b, env_some)
                names = sorted({t.targets[0].id if isinstance(t.targets[0], ast.Name) else t.targets[0].value.id
                                for b in (s.body, s.orelse) for t in b if isinstance(t, ast.Assign)} | {var.id})
            elif c.ty == "prop":
                la, ea = self.block(s.body, env)
                lb, eb = self.block(s.orelse, env)
                names = sorted({t.targets[0].id if isinstance(t.targets[0], ast.Name) else t.targets[0].value.id
                                for b in (s.body, s.orelse) for t in b if isinstance(t, ast.Assign)})
            else:
                return None
        except Untranslatable:
            return None
        lets = ""
        env2 = dict(env)
        for n in names:
            va, vb = ea.get(n), eb.get(n)
            if va is None or vb is None or va.ty != vb.ty or va.ty not in ("n", "v", "b"):
                return None
            fresh = self.fresh(n)
            if c.ty in ("isnone", "notnone"):
                lets += f"let {fresh} := (match {c.text} with | none => ({la}{va.text}) | some {w} => ({lb}{vb.text})); "
            else:
                lets += f"let {fresh} := (if {c.text} then ({la}{va.text}) else ({lb}{vb.text})); "
            env2[n] = Val(fresh, va.ty)
        return lets, env2

    def inlinable(self, node, env):
        """a call that is inlined: a module-level function, a function imported from a sibling module, or a (non-property) method of the class being
        translated called as self.method(...): returns (FunctionDef, tree, file, cls, is_method) or None"""
        if not isinstance(node, ast.Call):
            return None
        if isinstance(node.func, ast.Name) and node.func.id not in env:
            fn = self.module_function(node.func.id)
            if fn is not None:
                return fn, self.tree, self.file, self.cls, False
            imp = self.imported_function(node.func.id)
            if imp is not None:
                return imp[0], imp[1], imp[2], None, False
        if isinstance(node.func, ast.Attribute) and isinstance(node.func.value, ast.Name) and node.func.value.id == "self" and self.cls:
            c = self.class_node()
            for m in (c.body if c else []):
                if isinstance(m, ast.FunctionDef) and m.name == node.func.attr and not m.decorator_list:
                    return m, self.tree, self.file, self.cls, True
        return None

    def with_value(self, node, env, k):
        """evaluate `node` and continue with k(Val); calls of module functions, imported functions and methods of the class are inlined (their arguments
        may themselves be such calls: they are evaluated first, left to right)"""
        ab = getattr(self, "abstract", None)
        target = None if (ab and not isinstance(node, (ast.Name, ast.Attribute)) and ast.unparse(node) in ab) else self.inlinable(node, env)
        if target is not None:
            helper, tree, file, cls, is_method = target
            if self.depth >= 4:
                raise Untranslatable("helper nesting")
            a = helper.args
            if a.vararg or a.kwarg or a.kwonlyargs or a.posonlyargs:
                raise Untranslatable("helper signature")
            names = [x.arg for x in a.args]
            if is_method:
                if not names or names[0] != "self":
                    raise Untranslatable("method signature")
                names = names[1:]
            defaults = dict(zip(names[len(names) - len(a.defaults):], a.defaults)) if a.defaults else {}
            arg_nodes = list(zip(names, node.args))
            for kw in node.keywords:
                if kw.arg is None or kw.arg not in names or kw.arg in dict(arg_nodes):
                    raise Untranslatable("helper keyword")
                arg_nodes.append((kw.arg, kw.value))
            if len(node.args) > len(names):
                raise Untranslatable("helper arguments")

            def bind_args(i, given):
                if i < len(arg_nodes):
                    name, anode = arg_nodes[i]
                    return self.with_value(anode, env, lambda v: bind_args(i + 1, dict(given, **{name: v})))
                lets = ""
                env2 = {key: val for key, val in env.items() if key.startswith("self.")} if is_method else {}
                for n in names:
                    if n in given:
                        v = given[n]
                    elif n in defaults:
                        v = self.expr(defaults[n], {}, [])
                    else:
                        raise Untranslatable(f"missing argument {n}")
                    if v.ty in ("n", "v", "b", "ov", "str", "ostr") and not v.has_const:
                        fresh = self.fresh("arg_" + n)
                        lets += f"let {fresh} := {v.text}; "
                        v = Val(fresh, v.ty)
                    env2[n] = v
                sub = VSym(tree, self.tables, self.depth + 1, self.counter, repo=self.repo, file=file, cls=cls)
                sub.sqrt_nan, sub.abstract = getattr(self, "sqrt_nan", False), getattr(self, "abstract", None)
                body = sub.run(list(helper.body), env2, k)
                return f"({lets}{body})" if lets else body
            return bind_args(0, {})
        guards = []
        v = self.expr(node, env, guards)
        body = k(v)
        for g in guards:
            body = "none" if g == "True" else f"(if {g} then none else {body})"
        return body


# ----------------------------------------------------------------------------------------------- targets

TARGETS = [
    # the nan-aware weighted mean / standard deviation behind every resonance statistic (C05, C11; used by C06, C12, C20)
    dict(name="nanmean_weighted", file="hvsrpy/statistics.py", func="_nanmean_weighted", tables=["DISTRIBUTION_MAP"],
         args=["distribution", "values", "weights", "mean_kwargs"],
         params=[("distribution", "str"), ("values", "v"), ("weights", "ov")], consts={"mean_kwargs": None}),
    dict(name="nanstd_weighted", file="hvsrpy/statistics.py", func="_nanstd_weighted", tables=["DISTRIBUTION_MAP"],
         args=["distribution", "values", "weights", "std_kwargs", "denominator"],
         params=[("distribution", "str"), ("values", "v"), ("weights", "ov"), ("denominator", "str")], consts={"std_kwargs": None}),
]


def _trad_stat(name, method):
    which = "frq" if "frequency" in method else "amp"
    return dict(name=name, file="hvsrpy/hvsr_traditional.py", cls="HvsrTraditional", func=method, tables=["DISTRIBUTION_MAP"], args=["self", "distribution"],
                params=[("distribution", "str"), (f"self._main_peak_{which}", "v"), ("self.valid_peak_boolean_mask", "b")])


def _trad_nth(name, method):
    which = "frq" if "frequency" in method else "amp"
    return dict(name=name, file="hvsrpy/hvsr_traditional.py", cls="HvsrTraditional", func=method, tables=["DISTRIBUTION_MAP"], args=["self", "n", "distribution"],
                params=[("n", "n"), ("distribution", "str"), (f"self._main_peak_{which}", "v"), ("self.valid_peak_boolean_mask", "b")])


# the accessor layer of HvsrTraditional: WHICH array and WHICH mask feed the estimator (C05; the estimator itself is inlined from statistics.py)
TARGETS += [_trad_stat("trad_mean_fn_frequency", "mean_fn_frequency"), _trad_stat("trad_std_fn_frequency", "std_fn_frequency"),
            _trad_stat("trad_mean_fn_amplitude", "mean_fn_amplitude"), _trad_stat("trad_std_fn_amplitude", "std_fn_amplitude"),
            # mean +- n standard deviations (the rejection bounds of the frequency-domain algorithm are nth_std_fn_frequency(-n) and (+n)): two method calls
            # as arguments of the imported _nth_std_factory
            _trad_nth("trad_nth_std_fn_frequency", "nth_std_fn_frequency"), _trad_nth("trad_nth_std_fn_amplitude", "nth_std_fn_amplitude")]


def _az_stat(name, method):
    which = "frequencies" if "frequency" in method else "amplitudes"
    return dict(name=name, file="hvsrpy/hvsr_azimuthal.py", cls="HvsrAzimuthal", func=method, tables=["DISTRIBUTION_MAP"], args=["self", "distribution"],
                abstract={"self._compute_statistical_weights()": ("weights", "v"), f"np.array(_flatten_list(self.peak_{which}))": ("values", "v")},
                params=[("distribution", "str"), ("values", "v"), ("weights", "v")], vgroup="Vec",
                # how harness/pyvalidate.py feeds the abstract inputs to the REAL method: a subclass whose helper method / property return them
                stubs={"_compute_statistical_weights": ("call", "weights"), f"peak_{which}": ("list", "values")})


# the accessor layer of HvsrAzimuthal (C11): the pooled peak values and the Cheng weights are inputs; WHICH estimator, WHICH denominator and that the
# weights are handed over is what the translation fixes
TARGETS += [_az_stat("az_mean_fn_frequency", "mean_fn_frequency"), _az_stat("az_std_fn_frequency", "std_fn_frequency"),
            _az_stat("az_mean_fn_amplitude", "mean_fn_amplitude"), _az_stat("az_std_fn_amplitude", "std_fn_amplitude")]


# weighted mean / standard deviation of Monte-Carlo realisations (C14): two loops over zip(values, norm_weights) with accumulators
TARGETS += [dict(name="spatial_statistics", vgroup="VecSpatial", file="hvsrpy/hvsr_spatial.py", func="_statistics", tables=[], args=["values", "weights"],
                 params=[("values", "m"), ("weights", "v")], returns="pair", sqrt_nan=True)]


def translate(repo, spec):
    binders = " ".join(f"({lean_ident(t)} : {LEAN_TY['table']})" for t in spec["tables"]) + " " + \
        " ".join(f"({lean_ident(p)} : {LEAN_TY[t]})" for p, t in spec["params"])
    rty = "Option (Option α × Option α)" if spec.get("returns") == "pair" else "Option (Option α)"
    head = f"def {spec['name']} {{α : Type}} [Transc α] {binders} : {rty} :="
    try:
        with open(os.path.join(repo, spec["file"])) as f:
            tree = ast.parse(f.read())
        sym = VSym(tree, spec["tables"], repo=repo, file=spec["file"], cls=spec.get("cls"))
        sym.sqrt_nan = bool(spec.get("sqrt_nan"))
        sym.abstract = spec.get("abstract")
        if spec.get("cls"):
            c = sym.class_node()
            fn = next((m for m in (c.body if c else []) if isinstance(m, ast.FunctionDef) and m.name == spec["func"]), None)
        else:
            fn = sym.module_function(spec["func"])
        if fn is None:
            raise Untranslatable(f"function {spec['func']} not found")
        names = [a.arg for a in fn.args.args]
        if names != spec["args"]:
            raise Untranslatable(f"arguments {names}")
        env = {p: Val(lean_ident(p), t) for p, t in spec["params"]}
        for c_, v_ in spec.get("consts", {}).items():
            env[c_] = sym.const(v_)

        def ret(v):
            if spec.get("returns") == "pair":
                if v.ty != "tuple" or len(v.items) != 2 or any(i.ty != "n" for i in v.items):
                    raise Untranslatable("return value is not a pair of numbers")
                return f"some ({v.items[0].text}, {v.items[1].text})"
            if v.ty != "n":
                raise Untranslatable(f"return value of type {v.ty}")
            return f"some {v.text}"
        body = sym.run(list(fn.body), env, ret)
        return True, f"{head}\n  {body}", None
    except Untranslatable as e:
        return False, f"-- not translated: {e}\n{head}\n  none", str(e)
    except Exception as e:          # a file that does not parse, ...: never an alarm of its own
        return False, f"-- not translated: {type(e).__name__}\n{head}\n  none", f"{type(e).__name__}: {e}"


def emit(repo):
    status = {}
    L = ["import HvsrVerif.PyPrim", "import HvsrVerif.PyVec",
         "/-! GENERATED by tools/py2lean_vec.py from the Python source of the hvsrpy working tree -- do not edit. -/",
         "set_option linter.unusedVariables false", "namespace HV.Generated.PyVec", "open HV", ""]
    for spec in TARGETS:
        ok, text, why = translate(repo, spec)
        status["pyvec:" + spec["name"]] = "translated" if ok else f"unavailable: {why}"
        L += [text, f"def {spec['name']}.ok : Bool := {'true' if ok else 'false'}", ""]
    L.append("end HV.Generated.PyVec")
    return status, "\n".join(L) + "\n"


READ = {"v": "optVec", "ov": "optOptVec", "str": "tok", "b": "boolVec", "m": "optMat", "n": "optFlt"}


def emit_driver(status):
    L = ["import HvsrVerif.Generated.PyVec", "import HvsrVerif.Proto",
         "/-! GENERATED by tools/py2lean_vec.py -- driver commands evaluating the translated array functions at Float. -/",
         "namespace HV.Drv", "open HV.Proto HV.Generated", "",
         "def strPairsV : P (List (String × String)) := do rep (← nat) (do let a ← tok; let b ← tok; pure (a, b))",
         "def optOptVec : P (Option (List (Option Float))) := do", "  match (← peek?) with",
         '  | some "None" => do let _ ← tok; pure none', "  | _ => do pure (some (← optVec))",
         "def optMat : P (List (List (Option Float))) := do rep (← nat) optVec", "",
         "def opsPyVec (op : String) : Option (P String) :=", "  match op with"]
    for spec in TARGETS:
        if status.get("pyvec:" + spec["name"]) != "translated":
            continue
        binds = [f"let {lean_ident(t)} ← strPairsV" for t in spec["tables"]] + [f"let {lean_ident(p)} ← {READ[t]}" for p, t in spec["params"]]
        args = " ".join([lean_ident(t) for t in spec["tables"]] + [lean_ident(p) for p, _ in spec["params"]])
        if spec.get("returns") == "pair":
            L.append(f'  | "pyvec.{spec["name"]}" => some (do {"; ".join(binds)}; pure (match PyVec.{spec["name"]} (α := Float) {args} with '
                     f'| none => "raise" | some (a, b) => "pair " ++ fOF a ++ " " ++ fOF b))')
            continue
        L.append(f'  | "pyvec.{spec["name"]}" => some (do {"; ".join(binds)}; pure (match PyVec.{spec["name"]} (α := Float) {args} with '
                 f'| none => "raise" | some none => "nan" | some (some x) => "val " ++ fF x))')
    L += ["  | _ => none", "", "end HV.Drv"]
    return "\n".join(L) + "\n"


def write(repo, lean_dir):
    status, text = emit(repo)
    for fn, t in (("PyVec.lean", text), ("PyVecDrv.lean", emit_driver(status))):
        path = os.path.join(lean_dir, "HvsrVerif", "Generated", fn)
        old = None
        if os.path.exists(path):
            with open(path) as f:
                old = f.read()
        if old != t:
            with open(path, "w") as f:
                f.write(t)
    return status


if __name__ == "__main__":
    st, text = emit(sys.argv[1] if len(sys.argv) > 1 else "/repo")
    sys.stdout.write(text)
    for k, v in st.items():
        sys.stderr.write(f"{k}: {v}\n")
