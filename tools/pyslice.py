"""pyslice: execute, with CPython and the real hvsrpy module, exactly the statements that tools/py2lean.py translated.

py2lean records for every translated target a *plan*: the prologue statements it interpreted, the statements of the slice, and the
statements whose effect it dropped. `runner(name, module)` turns the plan into a Python function built from the ORIGINAL ast nodes
(nothing is re-written from the translator's understanding of them) and executes it with the module's own globals (numpy, logger,
helper functions, constants). The differential validation of the translator (harness/pyvalidate.py) runs this function and the
generated Lean definition (driver `drv_py`) on the same inputs.

Result protocol: ("value", tuple of outputs) | ("skip",) for `continue` | ("raise",) for an exception | ("return", value).
"""
import ast
import copy
import types

import py2lean


class AutoNS:
    """stand-in for an object that is only written to: unknown attributes are dicts (so that x.attr[i] = v works)"""
    def __getattr__(self, k):
        if k.startswith("__"):
            raise AttributeError(k)
        d = {}
        object.__setattr__(self, k, d)
        return d


def _set_path(root_objs, dotted, value, classes):
    parts = dotted.split(".")
    if len(parts) == 1:
        root_objs[parts[0]] = value
        return
    obj = root_objs.get(parts[0])
    if obj is None:
        obj = root_objs[parts[0]] = types.SimpleNamespace()
    for p in parts[1:-1]:
        if not hasattr(obj, p):
            setattr(obj, p, types.SimpleNamespace())
        obj = getattr(obj, p)
    setattr(obj, parts[-1], value)


def _get_path(ns, dotted):
    parts = dotted.split(".")
    obj = ns[parts[0]]
    for p in parts[1:]:
        obj = getattr(obj, p)
    return obj


class _Rewrite(ast.NodeTransformer):
    def __init__(self, abstract, skipped, opaque, allow_break=False):
        self.abstract = abstract        # source text -> parameter name
        self.skipped = skipped          # ids of statements whose effect the translator dropped
        self.opaque = opaque
        self.allow_break = allow_break  # `break` leaves the loop whose body is the slice: the slice ends, outputs as they stand

    def generic_visit(self, node):
        node = super().generic_visit(node)
        return node

    def visit(self, node):
        if isinstance(node, ast.expr) and self.abstract:
            try:
                key = ast.unparse(node)
            except Exception:
                key = None
            if key in self.abstract:
                return ast.copy_location(ast.Name(id=self.abstract[key], ctx=ast.Load()), node)
        if isinstance(node, ast.Break) and self.allow_break:
            new = ast.parse("return ('end', locals())").body[0]
            return ast.copy_location(new, node)
        if isinstance(node, ast.Return):
            value = node.value if node.value is not None else ast.Constant(value=None)
            value = self.visit(value)
            new = ast.Return(value=ast.Tuple(elts=[ast.Constant(value="return"), value], ctx=ast.Load()))
            return ast.copy_location(new, node)
        orig_id = getattr(node, "_orig_id", None)
        if isinstance(node, ast.stmt) and orig_id in self.skipped:
            inner = super().visit(node)
            new = ast.Try(body=[inner], handlers=[ast.ExceptHandler(type=ast.Name(id="Exception", ctx=ast.Load()), name=None,
                                                                    body=[ast.Pass()])], orelse=[], finalbody=[])
            return ast.copy_location(new, node)
        return super().visit(node)


def _tag(stmts):
    """deep copies of statements that remember the identity of the originals (the plan refers to originals by id)"""
    out = []
    for s in stmts:
        c = copy.deepcopy(s)
        for a, b in zip(ast.walk(s), ast.walk(c)):
            b._orig_id = id(a)
        out.append(c)
    return out


def runner(name, module):
    """returns f(inputs: dict param name -> value) -> result tuple, or None when the target has no plan (lambda targets are called directly)"""
    if name not in py2lean.PLANS:
        return None
    spec, tree, plan = py2lean.PLANS[name]
    params = [p for p, _ in spec["params"]]
    if "lambda" in spec:
        lam = py2lean.find_lambda(tree, spec["lambda"])
        code = compile(ast.Expression(lam), "<lambda %s>" % name, "eval")
        fn = eval(code, module.__dict__)

        def call(inputs):
            try:
                return ("return", fn(*[inputs[p] for p in params]))
            except Exception:
                return ("raise",)
        return call
    sym = py2lean.Sym(spec)
    stop = spec.get("stop_before")
    body = []
    for s in plan["slice"]:
        if stop and stop in sym.assigned([s]):
            break
        body.append(s)
    abstract = {k: (v if isinstance(v, str) else v[0]) for k, v in spec.get("abstract", {}).items()}
    rw = _Rewrite(abstract, plan["skipped"], spec.get("opaque", []), spec.get("allow_break", False))
    pro = [rw.visit(s) for s in _tag(plan["prologue"])]
    sl = [rw.visit(s) for s in _tag(body)]
    outs = spec["out"]
    # every prologue statement is best effort (a name it needs may be outside the fragment), like the translator's prologue
    pro = [ast.Try(body=[s], handlers=[ast.ExceptHandler(type=ast.Name(id="Exception", ctx=ast.Load()), name=None, body=[ast.Pass()])],
                   orelse=[], finalbody=[]) for s in pro]
    fn_def = ast.parse("def __slice__():\n    pass\n").body[0]
    # inputs are bound as locals through default-free assignments generated below
    roots = sorted({p.split(".")[0] for p in params} | {o.split(".")[0].split("[")[0] for o in outs if o != "return"}
                   | set(spec.get("unpack", {})))
    loopvars = set()
    for lp in plan["loops"]:
        loopvars |= {n.id for n in ast.walk(lp.target) if isinstance(n, ast.Name)}
    pre = []
    for r in sorted(set(roots) | loopvars | set(spec.get("consts", {}))):
        pre.append(ast.parse(f"{r} = __in[{r!r}]").body[0])
    restore = [ast.parse(f"{p} = __in2[{p!r}]").body[0] for p in params if "." not in p]
    end = ast.parse("return ('end',)").body[0]
    loop = ast.For(target=ast.Name(id="__once", ctx=ast.Store()), iter=ast.Tuple(elts=[ast.Constant(value=0)], ctx=ast.Load()),
                   body=sl + [end], orelse=[])
    skip = ast.parse("return ('skip',)").body[0]
    fn_def.args = ast.arguments(posonlyargs=[], args=[ast.arg(arg="__in"), ast.arg(arg="__in2")], kwonlyargs=[], kw_defaults=[], defaults=[])
    # the function returns its locals with the status so that outputs can be read after an 'end'
    end.value = ast.Tuple(elts=[ast.Constant(value="end"), ast.Call(func=ast.Name(id="locals", ctx=ast.Load()), args=[], keywords=[])], ctx=ast.Load())
    fn_def.body = pre + pro + restore + [loop, skip]
    mod = ast.Module(body=[fn_def], type_ignores=[])
    ast.fix_missing_locations(mod)
    g = dict(module.__dict__)
    exec(compile(mod, "<slice %s>" % name, "exec"), g)
    f = g["__slice__"]
    cls = getattr(module, spec["cls"], None) if spec.get("cls") else None

    def call(inputs):
        ns = {}
        for p, v in inputs.items():
            _set_path(ns, p, v, None)
        if "self" in ns and cls is not None:
            # a real instance (methods, static helpers) whose listed attributes are plain values, also where the class has properties
            attrs = {k: getattr(ns["self"], k) for k in vars(ns["self"])}
            sub = type(cls.__name__ + "Slice", (cls,), dict(attrs))
            obj = object.__new__(sub)
            for k, v in attrs.items():
                try:
                    object.__setattr__(obj, k, v)
                except Exception:
                    pass
            ns["self"] = obj
        for c, val in spec.get("consts", {}).items():
            ns.setdefault(c, val)
        for pair, comps in spec.get("unpack", {}).items():
            ns[pair] = tuple(inputs[c] for c in comps)
        for a in spec.get("extends", ()):
            ns[a] = []
        for a in spec.get("appends", ()):        # lists the slice appends to: fresh and empty; the output is the last value appended (None: nothing)
            ns[a] = []
        for r in roots:
            ns.setdefault(r, AutoNS())
        for v in loopvars:
            ns.setdefault(v, 0)
        flat = {p: inputs[p] for p in params if "." not in p}
        try:
            res = f(ns, flat)
        except Exception as e:
            return ("raise", type(e).__name__ + ": " + str(e)[:80])
        if res[0] == "end" and outs == ["return"]:
            return ("skip",)            # fell off the end of a slice whose result is a return value (e.g. "next iteration")
        if res[0] == "end":
            loc = res[1]
            vals = []
            for o in outs:
                if o.endswith(".extend.value") and o[:-13] in spec.get("extends", ()):
                    lst = _get_path(loc, o[:-13])
                    vals.append(lst[-1] if lst else float("nan"))
                elif o.endswith(".extend.count") and o[:-13] in spec.get("extends", ()):
                    vals.append(len(_get_path(loc, o[:-13])))
                elif o.endswith(".append") and o[:-7] in spec.get("appends", ()):
                    lst = _get_path(loc, o[:-7])
                    vals.append(lst[-1] if lst else None)
                elif o.endswith("[]"):
                    base = _get_path(loc, o[:-2])
                    vals.append(list(base.values())[-1] if isinstance(base, dict) else base[0])
                elif "[" in o:
                    base, idx = o[:-1].split("[")
                    vals.append(_get_path(loc, base)[int(idx)])
                else:
                    vals.append(_get_path(loc, o))
            return ("value", tuple(vals))
        return res
    return call
