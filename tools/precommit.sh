#!/bin/sh
# regenerate the translated sources from /repo, build everything that setup_cmd builds, and refuse on any error
cd "$(dirname "$0")/.." || exit 2
python3 -c "import sys; sys.path.insert(0,'tools'); import py2lean; py2lean.write('/repo','lean')" || exit 2
out=$(tools/lk build HvsrVerif hvsrdrv drv_c07 drv_c10 drv_c14 drv_c15 drv_c19 drv_c20 2>&1)
echo "$out" | tail -1
echo "$out" | grep -q 'Build completed successfully' || { echo "$out" | grep -B2 -A12 'error' | head -60; exit 1; }
