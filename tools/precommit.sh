#!/bin/sh
# usage: tools/precommit.sh "commit message" [paths...]   (default paths: everything)
# Under the self-test lock (no check against a mutated scratch tree is running): regenerate the extracted tables and the translated
# sources from /repo, build everything that setup_cmd builds, and commit only if the build is clean.
cd "$(dirname "$0")/.." || exit 2
msg="$1"; shift
mkdir -p .cache
exec flock .cache/selftest.lock sh -c '
  /venv/bin/python -c "import sys; sys.path.insert(0, \"harness\"); import common; common.regenerate_tables()" || exit 2
  out=$(tools/lk build HvsrVerif hvsrdrv drv_c07 drv_c10 drv_c14 drv_c15 drv_c19 drv_c20 drv_py 2>&1)
  echo "$out" | tail -1
  echo "$out" | grep -q "Build completed successfully" || { echo "$out" | grep -B2 -A12 "error" | head -60; exit 1; }
  if [ -n "$0" ]; then
    if [ $# -gt 0 ]; then git add -- "$@"; else git add -A; fi
    git commit -qm "$0" && echo committed
  fi
' "$msg" "$@"
