#!/bin/sh
# usage: tools/trypatch.sh PATCH Bridge.Module...   -- under the self-test lock: regenerate the extracted/translated Lean sources from a
# scratch copy of /repo with PATCH applied, type-check the given bridge modules, print which fail, then regenerate from /repo again.
cd "$(dirname "$0")/.." || exit 2
patch="$(realpath "$1")"; shift
mkdir -p .cache
exec flock .cache/selftest.lock sh -c '
  d=$(mktemp -d /tmp/hvsr_try_XXXX); git -C /repo worktree add --detach -q $d/src HEAD
  git -C $d/src apply "$0" || { echo PATCH-FAILED; git -C /repo worktree remove --force $d/src; rm -rf $d; exit 2; }
  HVSRPY_SRC=$d/src /venv/bin/python -c "import sys; sys.path.insert(0, \"harness\"); import common; t = common.regenerate_tables(); print({k: v for k, v in t.get(\"__py2lean_status__\", {}).items() if v != \"translated\"})"
  for m in "$@"; do
    out=$(tools/lk build HvsrVerif.$m 2>&1); echo "$out" | grep -q "Build completed successfully" && echo "OK   $m" || { echo "FAIL $m"; echo "$out" | grep -A14 "error:" | head -40; }
  done
  git -C /repo worktree remove --force $d/src; rm -rf $d
  /venv/bin/python -c "import sys; sys.path.insert(0, \"harness\"); import common; common.regenerate_tables()"
' "$patch" "$@"
