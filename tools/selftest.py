"""Mutation self-test: apply a patch (or the reverse of a fix commit) to a SCRATCH COPY of /repo and run checks against it.

usage: selftest.py --patch FILE | --revert COMMIT   --props C01,C05 [--tier quick] [--keep]
Prints one line per property: CAUGHT / MISSED / ERROR with the VIOLATION lines. Never touches /repo.
Evidence and replays of these runs go to the scratch directory (VERIF_OUT), not to /verif/evidence; lean/HvsrVerif/Generated/Tables.lean is
regenerated from the mutated tree, and again from /repo by the next ordinary run.
"""
import argparse
import os
import shutil
import subprocess
import sys
import tempfile

VERIF = os.path.dirname(os.path.dirname(os.path.abspath(__file__)))


def main():
    ap = argparse.ArgumentParser()
    ap.add_argument("--patch")
    ap.add_argument("--revert")
    ap.add_argument("--clean", action="store_true", help="no change at all: run the checks against an unchanged scratch copy (serialised with the other self-tests)")
    ap.add_argument("--props", required=True)
    ap.add_argument("--tier", default="quick")
    ap.add_argument("--seed", default=None)
    a = ap.parse_args()
    # one self-test at a time: each regenerates lean/HvsrVerif/Generated/Tables.lean from its own mutated tree
    import fcntl
    os.makedirs(os.path.join(VERIF, ".cache"), exist_ok=True)
    lock = open(os.path.join(VERIF, ".cache", "selftest.lock"), "w")
    fcntl.flock(lock, fcntl.LOCK_EX)
    scratch = tempfile.mkdtemp(prefix="hvsr_mut_", dir="/tmp")
    src = os.path.join(scratch, "src")
    try:
        subprocess.run(["git", "-C", "/repo", "worktree", "add", "--detach", "-q", src, "HEAD"], check=True)
        if a.clean:
            r = subprocess.run(["true"], capture_output=True, text=True)
        elif a.patch:
            r = subprocess.run(["git", "-C", src, "apply", os.path.abspath(a.patch)], capture_output=True, text=True)
        else:
            d = subprocess.run(["git", "-C", "/repo", "diff", a.revert + "^", a.revert], capture_output=True, text=True).stdout
            r = subprocess.run(["git", "-C", src, "apply", "-R", "-"], input=d, capture_output=True, text=True)
        if r.returncode != 0:
            print("PATCH-FAILED", r.stderr[:500])
            return 2
        env = dict(os.environ, HVSRPY_SRC=src, VERIF_TIER=a.tier, VERIF_OUT=os.path.join(scratch, "out"))
        if a.seed:
            env["VERIF_SEED"] = a.seed
        rc_all = 0
        for p in a.props.split(","):
            pr = subprocess.run([os.path.join(VERIF, "check"), p, "--tier", a.tier], env=env, capture_output=True, text=True, cwd=VERIF)
            viol = [l for l in pr.stdout.splitlines() if l.startswith("VIOLATION")]
            status = "CAUGHT" if pr.returncode == 1 and viol else ("MISSED" if pr.returncode == 0 else "ERROR")
            print(f"{status} {p} exit={pr.returncode} " + " | ".join(viol[:3]))
            if status == "ERROR":
                print(pr.stdout[-800:], pr.stderr[-400:])
            rc_all |= (0 if status == "CAUGHT" else 1)
        return rc_all
    finally:
        subprocess.run(["git", "-C", "/repo", "worktree", "remove", "--force", src], capture_output=True)
        shutil.rmtree(scratch, ignore_errors=True)
        # leave lean/HvsrVerif/Generated as /repo itself generates it (a commit made right after a self-test must not carry files generated from a mutated tree)
        env0 = {k: v for k, v in os.environ.items() if k not in ("HVSRPY_SRC", "VERIF_OUT")}
        subprocess.run(["/venv/bin/python", "-c", "import sys; sys.path.insert(0, 'harness'); import common; common.regenerate_tables()"], cwd=VERIF, env=env0,
                       capture_output=True)


if __name__ == "__main__":
    sys.exit(main())
