"""one line per seeded change of a round: seed_summary.py IJN"""
import json, glob, os, sys
letters = sys.argv[1] if len(sys.argv) > 1 else "IJN"
VERIF = os.path.dirname(os.path.dirname(os.path.abspath(__file__)))
for d in sorted(glob.glob(os.path.join(VERIF, "seeded", "C??-[%s]" % letters))):
    if not os.path.exists(os.path.join(d, "meta.json")):
        print(os.path.basename(d), "(running)"); continue
    m = json.load(open(os.path.join(d, "meta.json")))
    if m.get("kind") == "neutral":
        st = "FALSE-ALARM" if m.get("false_alarm") else "silent"
        if m.get("initially_false_alarm"):
            st += " (after correction)"
    else:
        st = "caught" if m.get("caught") else "MISSED"
        if m.get("initially_missed"):
            st += " (after strengthening)"
    print(os.path.basename(d), "confirmed" if m.get("confirmed") else "NOT-CONFIRMED", st, "|", "; ".join(m.get("checks", []))[:150])
