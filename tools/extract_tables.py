"""Table extractor: regenerates HvsrVerif/Generated/Tables.lean from /repo's working tree.

stdlib only (ast, re, decimal). Extracts *data* (numeric constants, comparison operators,
name registries), never control flow. A table whose pattern is not found is emitted as `none`
(the bridge theorem is then trivially true and the evidence says `unavailable`): a refactoring
is never an alarm; a changed constant/alias is a broken bridge obligation.
"""
import ast
import os
import re
from decimal import Decimal

OPS = {"<": 0, "<=": 1, ">": 2, ">=": 3, "==": 4, "!=": 5}


def dec_pair(text):
    """'1.78' -> (178, 2); '10' -> (10, 0); '1E-6' -> (1, 6)"""
    d = Decimal(text)
    sign, digits, exp = d.as_tuple()
    if sign:
        raise ValueError("negative literal")
    m = int("".join(map(str, digits)))
    if exp > 0:
        m *= 10 ** exp
        exp = 0
    # normalise trailing zeros of the fraction
    e = -exp
    while e > 0 and m % 10 == 0:
        m //= 10
        e -= 1
    return (m, e)


def lean_pair(p):
    return f"({p[0]}, {p[1]})"


def func_source(tree, name):
    for node in ast.walk(tree):
        if isinstance(node, ast.FunctionDef) and node.name == name:
            return node
    return None


def strip_verbose(func):
    """drop `if verbose > k:` blocks and all print calls (they hold formatting constants only)"""
    class T(ast.NodeTransformer):
        def visit_If(self, node):
            src = ast.unparse(node.test)
            if src.startswith("verbose"):
                return None
            return self.generic_visit(node)
    return T().visit(func)


NUM = r"([0-9][0-9.eE+-]*)"
CMP = r"(<=|>=|<|>)"


def grab(src, pattern):
    m = re.search(pattern, src)
    return m.groups() if m else None


def extract_sesame(repo):
    out = dict(sesameBands=None, sesameLastBand=None, sesameConsts=None)
    try:
        with open(os.path.join(repo, "hvsrpy", "sesame.py")) as f:
            tree = ast.parse(f.read())
    except Exception:
        return out
    cla = func_source(tree, "clarity")
    rel = func_source(tree, "reliability")
    if cla is None or rel is None:
        return out
    # threshold table: the if/elif chain assigning epsilon and theta
    try:
        chain = None
        for node in ast.walk(cla):
            if isinstance(node, ast.If):
                tgt = [ast.unparse(s) for s in node.body if isinstance(s, ast.Assign)]
                if any(t.startswith("epsilon") for t in tgt) and any(t.startswith("theta") for t in tgt):
                    chain = node
                    break
        bands = []
        last = None
        node = chain
        while node is not None:
            test = ast.unparse(node.test)
            g = grab(test, r"^\w+ < " + NUM + "$")
            body = {ast.unparse(s.targets[0]): ast.unparse(s.value) for s in node.body if isinstance(s, ast.Assign)}
            if g is None:
                raise ValueError("band test")
            bands.append((dec_pair(g[0]), dec_pair(body["epsilon"]), dec_pair(body["theta"])))
            if len(node.orelse) == 1 and isinstance(node.orelse[0], ast.If):
                node = node.orelse[0]
            else:
                body = {ast.unparse(s.targets[0]): ast.unparse(s.value) for s in node.orelse if isinstance(s, ast.Assign)}
                last = (dec_pair(body["epsilon"]), dec_pair(body["theta"]))
                node = None
        out["sesameBands"] = bands
        out["sesameLastBand"] = last
    except Exception:
        pass
    # scalar constants
    try:
        rsrc = ast.unparse(strip_verbose(rel))
        csrc = ast.unparse(strip_verbose(cla))
        c = {}
        c["relI"] = grab(rsrc, r"mc_peak_frq > " + NUM + r" / windowlength")[0]
        c["relII"] = grab(rsrc, r"nc > " + NUM)[0]
        g = grab(rsrc, r"frequency > " + NUM + r" \* mc_peak_frq, frequency < " + NUM + r" \* mc_peak_frq")
        c["relIIIlo"], c["relIIIhi"] = g
        c["relIIIsplit"] = grab(rsrc, r"if mc_peak_frq > " + NUM + r":\n\s+if sigma_a_max")[0]
        g = re.findall(r"sigma_a_max < " + NUM, rsrc)
        c["relIIIa"], c["relIIIb"] = g[0], g[1]
        c["claIdiv"] = grab(csrc, r"frequency < mc_peak_frq, frequency > mc_peak_frq / " + NUM)[0]
        g = re.findall(r"a_(?:low|high) < mc_peak_amp / " + NUM, csrc)
        if len(g) != 2 or g[0] != g[1]:
            raise ValueError("amp div")
        c["claAmpDiv"] = g[0]
        c["claIImul"] = grab(csrc, r"frequency > mc_peak_frq, frequency < " + NUM + r" \* mc_peak_frq")[0]
        c["claIII"] = grab(csrc, r"mc_peak_amp > " + NUM)[0]
        lo = set(re.findall(r"f_(?:plus|minus) > mc_peak_frq \* " + NUM, csrc))
        hi = set(re.findall(r"f_(?:plus|minus) < mc_peak_frq \* " + NUM, csrc))
        if len(lo) != 1 or len(hi) != 1:
            raise ValueError("5%")
        c["claIVlo"], c["claIVhi"] = lo.pop(), hi.pop()
        out["sesameConsts"] = {k: dec_pair(v) for k, v in c.items()}
    except Exception:
        pass
    return out


def emit_sesame(t):
    L = []
    if t["sesameBands"] is None:
        L.append("def sesameBands : Option (List ((Nat × Nat) × (Nat × Nat) × (Nat × Nat))) := none")
    else:
        rows = ", ".join(f"({lean_pair(a)}, {lean_pair(b)}, {lean_pair(c)})" for a, b, c in t["sesameBands"])
        L.append(f"def sesameBands : Option (List ((Nat × Nat) × (Nat × Nat) × (Nat × Nat))) := some [{rows}]")
    if t["sesameLastBand"] is None:
        L.append("def sesameLastBand : Option ((Nat × Nat) × (Nat × Nat)) := none")
    else:
        a, b = t["sesameLastBand"]
        L.append(f"def sesameLastBand : Option ((Nat × Nat) × (Nat × Nat)) := some ({lean_pair(a)}, {lean_pair(b)})")
    if t["sesameConsts"] is None:
        L.append("def sesameConsts : Option (List (String × (Nat × Nat))) := none")
    else:
        rows = ", ".join(f'("{k}", {lean_pair(v)})' for k, v in t["sesameConsts"].items())
        L.append(f"def sesameConsts : Option (List (String × (Nat × Nat))) := some [{rows}]")
    return L


def lean_str_pairs(name, val):
    ty = "Option (List (String × String))"
    if val is None:
        return f"def {name} : {ty} := none"
    rows = ", ".join(f'("{a}", "{b}")' for a, b in val)
    return f"def {name} : {ty} := some [{rows}]"


def module_dict_of_names(path, varname):
    """a module-level `VAR = {"key": value, ...}` -> sorted list of (key, rendered value)"""
    with open(path) as f:
        tree = ast.parse(f.read())
    for node in tree.body:
        if isinstance(node, ast.Assign) and len(node.targets) == 1 and ast.unparse(node.targets[0]) == varname \
                and isinstance(node.value, ast.Dict):
            out = []
            for k, v in zip(node.value.keys, node.value.values):
                if not (isinstance(k, ast.Constant) and isinstance(k.value, str)):
                    return None
                out.append((k.value, v.value if isinstance(v, ast.Constant) and isinstance(v.value, str) else ast.unparse(v)))
            return sorted(out)
    return None


def extract_stats(repo):
    out = dict(distributionMap=None, fdwraLimits=None, fdwraAcceptOps=None)
    try:
        out["distributionMap"] = module_dict_of_names(os.path.join(repo, "hvsrpy", "constants.py"), "DISTRIBUTION_MAP")
    except Exception:
        pass
    try:
        with open(os.path.join(repo, "hvsrpy", "window_rejection.py")) as f:
            tree = ast.parse(f.read())
        fn = func_source(tree, "_frequency_domain_window_rejection")
        src = ast.unparse(fn)
        g = grab(src, r"d_diff " + CMP + " " + NUM + r" and s_diff " + CMP + " " + NUM)
        if g:
            out["fdwraLimits"] = ((OPS[g[0]], dec_pair(g[1])), (OPS[g[2]], dec_pair(g[3])))
        g = grab(src, r"c_peak " + CMP + r" lower_bound and c_peak " + CMP + r" upper_bound")
        if g:
            out["fdwraAcceptOps"] = (OPS[g[0]], OPS[g[1]])
    except Exception:
        pass
    return out


def emit_stats(t):
    L = [lean_str_pairs("distributionMap", t["distributionMap"])]
    if t["fdwraLimits"] is None:
        L.append("def fdwraLimits : Option ((Nat × (Nat × Nat)) × (Nat × (Nat × Nat))) := none")
    else:
        (o1, p1), (o2, p2) = t["fdwraLimits"]
        L.append(f"def fdwraLimits : Option ((Nat × (Nat × Nat)) × (Nat × (Nat × Nat))) := some (({o1}, {lean_pair(p1)}), ({o2}, {lean_pair(p2)}))")
    if t["fdwraAcceptOps"] is None:
        L.append("def fdwraAcceptOps : Option (Nat × Nat) := none")
    else:
        L.append(f"def fdwraAcceptOps : Option (Nat × Nat) := some ({t['fdwraAcceptOps'][0]}, {t['fdwraAcceptOps'][1]})")
    return L


EXTRACTORS = [(extract_sesame, emit_sesame), (extract_stats, emit_stats)]


def extract(repo):
    tables = {}
    lines = ["/-! GENERATED by tools/extract_tables.py from the hvsrpy working tree -- do not edit. -/",
             "namespace HV.Generated"]
    for ex, em in EXTRACTORS:
        t = ex(repo)
        tables.update(t)
        lines += em(t)
    lines.append("end HV.Generated")
    return tables, "\n".join(lines) + "\n"


if __name__ == "__main__":
    import sys
    import json
    t, text = extract(sys.argv[1] if len(sys.argv) > 1 else "/repo")
    print(text)
    print(json.dumps({k: (v is not None) for k, v in t.items()}), file=sys.stderr)
