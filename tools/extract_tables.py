"""Table extractor: regenerates HvsrVerif/Generated/Tables.lean from /repo's working tree.

stdlib only (ast, re, decimal). Extracts *data* (numeric constants, comparison operators,
name registries), never control flow. A table whose pattern is not found is emitted as `none`
(the bridge theorem is then trivially true and the evidence says `unavailable`): a refactoring
is never an alarm; a changed constant/alias is a broken bridge obligation.
"""
import ast
import os
import re
from decimal import Decimal

OPS = {"<": 0, "<=": 1, ">": 2, ">=": 3, "==": 4, "!=": 5}


def dec_pair(text):
    """'1.78' -> (178, 2); '10' -> (10, 0); '1E-6' -> (1, 6)"""
    d = Decimal(text)
    sign, digits, exp = d.as_tuple()
    if sign:
        raise ValueError("negative literal")
    m = int("".join(map(str, digits)))
    if exp > 0:
        m *= 10 ** exp
        exp = 0
    # normalise trailing zeros of the fraction
    e = -exp
    while e > 0 and m % 10 == 0:
        m //= 10
        e -= 1
    return (m, e)


def lean_pair(p):
    return f"({p[0]}, {p[1]})"


def func_source(tree, name):
    for node in ast.walk(tree):
        if isinstance(node, ast.FunctionDef) and node.name == name:
            return node
    return None


def strip_verbose(func):
    """drop `if verbose > k:` blocks and all print calls (they hold formatting constants only)"""
    class T(ast.NodeTransformer):
        def visit_If(self, node):
            src = ast.unparse(node.test)
            if src.startswith("verbose"):
                return None
            return self.generic_visit(node)
    return T().visit(func)


NUM = r"([0-9][0-9.eE+-]*)"
CMP = r"(<=|>=|<|>)"


def grab(src, pattern):
    m = re.search(pattern, src)
    return m.groups() if m else None


def extract_sesame(repo):
    out = dict(sesameBands=None, sesameLastBand=None, sesameConsts=None)
    try:
        with open(os.path.join(repo, "hvsrpy", "sesame.py")) as f:
            tree = ast.parse(f.read())
    except Exception:
        return out
    cla = func_source(tree, "clarity")
    rel = func_source(tree, "reliability")
    if cla is None or rel is None:
        return out
    # threshold table: the if/elif chain assigning epsilon and theta
    try:
        chain = None
        for node in ast.walk(cla):
            if isinstance(node, ast.If):
                tgt = [ast.unparse(s) for s in node.body if isinstance(s, ast.Assign)]
                if any(t.startswith("epsilon") for t in tgt) and any(t.startswith("theta") for t in tgt):
                    chain = node
                    break
        bands = []
        last = None
        node = chain
        if chain is None:          # the table is no longer an if/elif chain: unavailable, not "an empty table"
            raise ValueError("no threshold chain")
        while node is not None:
            test = ast.unparse(node.test)
            g = grab(test, r"^\w+ < " + NUM + "$")
            body = {ast.unparse(s.targets[0]): ast.unparse(s.value) for s in node.body if isinstance(s, ast.Assign)}
            if g is None:
                raise ValueError("band test")
            bands.append((dec_pair(g[0]), dec_pair(body["epsilon"]), dec_pair(body["theta"])))
            if len(node.orelse) == 1 and isinstance(node.orelse[0], ast.If):
                node = node.orelse[0]
            else:
                body = {ast.unparse(s.targets[0]): ast.unparse(s.value) for s in node.orelse if isinstance(s, ast.Assign)}
                last = (dec_pair(body["epsilon"]), dec_pair(body["theta"]))
                node = None
        if not bands or last is None:
            raise ValueError("incomplete table")
        out["sesameBands"] = bands
        out["sesameLastBand"] = last
    except Exception:
        pass
    # scalar constants
    try:
        rsrc = ast.unparse(strip_verbose(rel))
        csrc = ast.unparse(strip_verbose(cla))
        c = {}
        c["relI"] = grab(rsrc, r"mc_peak_frq > " + NUM + r" / windowlength")[0]
        c["relII"] = grab(rsrc, r"nc > " + NUM)[0]
        g = grab(rsrc, r"frequency > " + NUM + r" \* mc_peak_frq, frequency < " + NUM + r" \* mc_peak_frq")
        c["relIIIlo"], c["relIIIhi"] = g
        c["relIIIsplit"] = grab(rsrc, r"if mc_peak_frq > " + NUM + r":\n\s+if sigma_a_max")[0]
        g = re.findall(r"sigma_a_max < " + NUM, rsrc)
        c["relIIIa"], c["relIIIb"] = g[0], g[1]
        c["claIdiv"] = grab(csrc, r"frequency < mc_peak_frq, frequency > mc_peak_frq / " + NUM)[0]
        g = re.findall(r"a_(?:low|high) < mc_peak_amp / " + NUM, csrc)
        if len(g) != 2 or g[0] != g[1]:
            raise ValueError("amp div")
        c["claAmpDiv"] = g[0]
        c["claIImul"] = grab(csrc, r"frequency > mc_peak_frq, frequency < " + NUM + r" \* mc_peak_frq")[0]
        c["claIII"] = grab(csrc, r"mc_peak_amp > " + NUM)[0]
        lo = set(re.findall(r"f_(?:plus|minus) > mc_peak_frq \* " + NUM, csrc))
        hi = set(re.findall(r"f_(?:plus|minus) < mc_peak_frq \* " + NUM, csrc))
        if len(lo) != 1 or len(hi) != 1:
            raise ValueError("5%")
        c["claIVlo"], c["claIVhi"] = lo.pop(), hi.pop()
        out["sesameConsts"] = {k: dec_pair(v) for k, v in c.items()}
    except Exception:
        pass
    return out


def emit_sesame(t):
    L = []
    if t["sesameBands"] is None:
        L.append("def sesameBands : Option (List ((Nat × Nat) × (Nat × Nat) × (Nat × Nat))) := none")
    else:
        rows = ", ".join(f"({lean_pair(a)}, {lean_pair(b)}, {lean_pair(c)})" for a, b, c in t["sesameBands"])
        L.append(f"def sesameBands : Option (List ((Nat × Nat) × (Nat × Nat) × (Nat × Nat))) := some [{rows}]")
    if t["sesameLastBand"] is None:
        L.append("def sesameLastBand : Option ((Nat × Nat) × (Nat × Nat)) := none")
    else:
        a, b = t["sesameLastBand"]
        L.append(f"def sesameLastBand : Option ((Nat × Nat) × (Nat × Nat)) := some ({lean_pair(a)}, {lean_pair(b)})")
    if t["sesameConsts"] is None:
        L.append("def sesameConsts : Option (List (String × (Nat × Nat))) := none")
    else:
        rows = ", ".join(f'("{k}", {lean_pair(v)})' for k, v in t["sesameConsts"].items())
        L.append(f"def sesameConsts : Option (List (String × (Nat × Nat))) := some [{rows}]")
    return L


def lean_str_pairs(name, val):
    ty = "Option (List (String × String))"
    if val is None:
        return f"def {name} : {ty} := none"
    rows = ", ".join(f'("{a}", "{b}")' for a, b in val)
    return f"def {name} : {ty} := some [{rows}]"


def module_dict_of_names(path, varname):
    """a module-level `VAR = {"key": value, ...}` -> sorted list of (key, rendered value)"""
    with open(path) as f:
        tree = ast.parse(f.read())
    for node in tree.body:
        if isinstance(node, ast.Assign) and len(node.targets) == 1 and ast.unparse(node.targets[0]) == varname \
                and isinstance(node.value, ast.Dict):
            out = []
            for k, v in zip(node.value.keys, node.value.values):
                if not (isinstance(k, ast.Constant) and isinstance(k.value, str)):
                    return None
                out.append((k.value, v.value if isinstance(v, ast.Constant) and isinstance(v.value, str) else ast.unparse(v)))
            return sorted(out)
    return None


def extract_stats(repo):
    out = dict(distributionMap=None, fdwraLimits=None, fdwraAcceptOps=None)
    try:
        out["distributionMap"] = module_dict_of_names(os.path.join(repo, "hvsrpy", "constants.py"), "DISTRIBUTION_MAP")
    except Exception:
        pass
    try:
        with open(os.path.join(repo, "hvsrpy", "window_rejection.py")) as f:
            tree = ast.parse(f.read())
        fn = func_source(tree, "_frequency_domain_window_rejection")
        src = ast.unparse(fn)
        g = grab(src, r"d_diff " + CMP + " " + NUM + r" and s_diff " + CMP + " " + NUM)
        if g:
            out["fdwraLimits"] = ((OPS[g[0]], dec_pair(g[1])), (OPS[g[2]], dec_pair(g[3])))
        g = grab(src, r"c_peak " + CMP + r" lower_bound and c_peak " + CMP + r" upper_bound")
        if g:
            out["fdwraAcceptOps"] = (OPS[g[0]], OPS[g[1]])
    except Exception:
        pass
    return out


def emit_stats(t):
    L = [lean_str_pairs("distributionMap", t["distributionMap"])]
    if t["fdwraLimits"] is None:
        L.append("def fdwraLimits : Option ((Nat × (Nat × Nat)) × (Nat × (Nat × Nat))) := none")
    else:
        (o1, p1), (o2, p2) = t["fdwraLimits"]
        L.append(f"def fdwraLimits : Option ((Nat × (Nat × Nat)) × (Nat × (Nat × Nat))) := some (({o1}, {lean_pair(p1)}), ({o2}, {lean_pair(p2)}))")
    if t["fdwraAcceptOps"] is None:
        L.append("def fdwraAcceptOps : Option (Nat × Nat) := none")
    else:
        L.append(f"def fdwraAcceptOps : Option (Nat × Nat) := some ({t['fdwraAcceptOps'][0]}, {t['fdwraAcceptOps'][1]})")
    return L


EXTRACTORS = [(extract_sesame, emit_sesame), (extract_stats, emit_stats)]


def extract_smoothing(repo):
    out = dict(smoothConsts=None, smoothingOperators=None)
    path = os.path.join(repo, "hvsrpy", "smoothing.py")
    try:
        with open(path) as f:
            tree = ast.parse(f.read())
        src = {n.name: ast.unparse(n) for n in tree.body if isinstance(n, ast.FunctionDef)}
        c = {}
        guards = set()
        for name in ("konno_and_ohmachi", "parzen", "linear_rectangular", "log_rectangular", "linear_triangular", "log_triangular"):
            guards |= set(re.findall(r"(?:fc|f|np\.abs\(f - fc\)) < " + NUM, src[name]))
        if len(guards) != 1:
            raise ValueError("guards")
        c["guard"] = guards.pop()
        c["koN"] = grab(src["konno_and_ohmachi"], r"\bn = " + NUM + r"\n")[0]
        g = grab(src["parzen"], r"a = np\.pi \* " + NUM + r" / \(2 \* " + NUM + r"\)")
        c["pzA"], c["pzB"] = g
        c["pzC"] = grab(src["parzen"], r"upper_limit = np\.sqrt\(" + NUM + r"\) \* a / bandwidth")[0]
        g = grab(src["savitzky_and_golay"], r"\(" + NUM + r" \* m \* m - " + NUM + r" - " + NUM + r" \* abs\(i \* i\)\) / " + NUM)
        c["sgA"], c["sgB"], c["sgC"], c["sgD"] = g
        g = grab(src["savitzky_and_golay"], r"m \* \(m \* m - " + NUM + r"\) / " + NUM)
        c["sgE"], c["sgF"] = g
        out["smoothConsts"] = {k: dec_pair(v) for k, v in c.items()}
    except Exception:
        pass
    try:
        out["smoothingOperators"] = module_dict_of_names(path, "SMOOTHING_OPERATORS")
    except Exception:
        pass
    return out


def emit_smoothing(t):
    L = []
    if t["smoothConsts"] is None:
        L.append("def smoothConsts : Option (List (String × (Nat × Nat))) := none")
    else:
        rows = ", ".join(f'("{k}", {lean_pair(v)})' for k, v in t["smoothConsts"].items())
        L.append(f"def smoothConsts : Option (List (String × (Nat × Nat))) := some [{rows}]")
    L.append(lean_str_pairs("smoothingOperators", t["smoothingOperators"]))
    return L


EXTRACTORS.append((extract_smoothing, emit_smoothing))


def extract_readers(repo):
    """C07: reader dispatch table (insertion order of READ_FUNCTION_DICT), the name whose failure read_single re-raises,
    the source strings of the text-format regular expressions, and the numeric constants of the orientation rules"""
    out = dict(readDispatch=None, readReraise=None, readerRegex=None, readerConsts=None)
    path = os.path.join(repo, "hvsrpy", "data_wrangler.py")
    try:
        with open(path) as f:
            text = f.read()
        tree = ast.parse(text)
        for node in tree.body:
            if isinstance(node, ast.Assign) and len(node.targets) == 1 and ast.unparse(node.targets[0]) == "READ_FUNCTION_DICT" \
                    and isinstance(node.value, ast.Dict):
                rows = []
                for k, v in zip(node.value.keys, node.value.values):
                    if not (isinstance(k, ast.Constant) and isinstance(k.value, str)):
                        raise ValueError("key")
                    rows.append((k.value, ast.unparse(v)))
                out["readDispatch"] = rows          # NOT sorted: the order is the table
        fn = func_source(tree, "read_single")
        g = grab(ast.unparse(fn), r"if ftype == '([a-z]+)':\n\s+raise e")
        if g:
            out["readReraise"] = g[0]
        c = {}
        saf = ast.unparse(func_source(tree, "_read_saf"))
        c["safHorizCh"] = grab(saf, r"if n_ch == (\d+):")[0]
        c["safHorizChE"] = grab(saf, r"elif e_ch == (\d+):")[0]
        c["safEastOffset"] = grab(saf, r"degrees_from_north = north_rot \+ (\d+)\.0\n")[0]
        peer = ast.unparse(func_source(tree, "_read_peer"))
        g = grab(peer, r"component_keys_rel\[component_keys_abs > (\d+)\] -= (\d+)")
        c["peerHalfTurn"], c["peerFullTurn"] = g
        g = grab(peer, r"float\(degrees_from_north - (\d+) \* \(degrees_from_north // (\d+)\)\)")
        c["peerMod"], c["peerModDiv"] = g
        rec = os.path.join(repo, "hvsrpy", "seismic_recording_3c.py")
        with open(rec) as f:
            init = ast.unparse(func_source(ast.parse(f.read()), "__init__"))
        g = grab(init, r"self\.degrees_from_north = float\(degrees_from_north - (\d+) \* \(degrees_from_north // (\d+)\)\)")
        c["recMod"], c["recModDiv"] = g
        out["readerConsts"] = [(k, int(v)) for k, v in c.items()]
    except Exception:
        pass
    try:
        with open(os.path.join(repo, "hvsrpy", "regex.py")) as f:
            tree = ast.parse(f.read())
        rows = []
        flags = {}
        for node in tree.body:
            if isinstance(node, ast.Assign) and len(node.targets) == 1 and isinstance(node.targets[0], ast.Name):
                name = node.targets[0].id
                if name.endswith("_expr") and name.split("_")[0] in ("saf", "mshark", "peer") and isinstance(node.value, ast.Constant) \
                        and isinstance(node.value.value, str):
                    rows.append((name[:-5], node.value.value))
                if name.endswith("_exec") and name.split("_")[0] in ("saf", "mshark", "peer") and isinstance(node.value, ast.Call):
                    kw = [ast.unparse(k.value) for k in node.value.keywords if k.arg == "flags"]
                    flags[name[:-5]] = kw[0] if kw else ""
        if rows:
            out["readerRegex"] = [(n, s, flags.get(n, "")) for n, s in rows]
    except Exception:
        pass
    return out


def emit_readers(t):
    def q(s):
        if any(ord(ch) < 32 or ord(ch) > 126 for ch in s):
            raise ValueError("non printable")
        return '"' + s.replace("\\", "\\\\").replace('"', '\\"') + '"'
    L = []
    try:
        rows = None if t["readDispatch"] is None else ", ".join(f"({q(a)}, {q(b)})" for a, b in t["readDispatch"])
    except ValueError:
        rows = None
    L.append("def readDispatch : Option (List (String × String)) := " + ("none" if rows is None else f"some [{rows}]"))
    L.append("def readReraise : Option String := " + ("none" if t["readReraise"] is None else "some " + q(t["readReraise"])))
    try:
        rows = None if t["readerRegex"] is None else ", ".join(f"({q(a)}, {q(b)}, {q(c)})" for a, b, c in t["readerRegex"])
    except ValueError:
        rows = None
    L.append("def readerRegex : Option (List (String × String × String)) := " + ("none" if rows is None else f"some [{rows}]"))
    rows = None if t["readerConsts"] is None else ", ".join(f"({q(a)}, {b})" for a, b in t["readerConsts"])
    L.append("def readerConsts : Option (List (String × Nat)) := " + ("none" if rows is None else f"some [{rows}]"))
    return L


EXTRACTORS.append((extract_readers, emit_readers))


def extract_processing(repo):
    out = dict(nextpow2Min=None, nextpow2Cmp=None, nyquistGuard=None, policyNames=None, combineRegister=None,
               traditionalRegister=None, processingMethods=None)
    path = os.path.join(repo, "hvsrpy", "processing.py")
    try:
        with open(path) as f:
            tree = ast.parse(f.read())
        src = {n.name: ast.unparse(n) for n in tree.body if isinstance(n, ast.FunctionDef)}
    except Exception:
        return out
    try:
        g = grab(src["nextpow2"], r"minimum_power_of_two=(\d+) \*\* (\d+)")
        out["nextpow2Min"] = (int(g[0]), int(g[1]))
        out["nextpow2Cmp"] = OPS[grab(src["nextpow2"], r"if power_of_two " + CMP + r" n:")[0]]
    except Exception:
        pass
    try:
        g1 = grab(src["check_nyquist_frequency"], r"fnyq = 1 / \(" + NUM + r" \* dt\)")
        g2 = grab(src["check_nyquist_frequency"], r"if max\(fcs\) " + CMP + r" fnyq")
        out["nyquistGuard"] = (dec_pair(g1[0]), OPS[g2[0]])
    except Exception:
        pass
    try:
        names = sorted(set(re.findall(r"handle_dissimilar_time_steps_by == '(\w+)'", src["prepare_records_with_inconsistent_dt"])))
        out["policyNames"] = names or None
    except Exception:
        pass
    for var, key in (("COMBINE_HORIZONTAL_REGISTER", "combineRegister"), ("TRADITIONAL_PROCESSING_REGISTER", "traditionalRegister"),
                     ("PROCESSING_METHODS", "processingMethods")):
        try:
            out[key] = module_dict_of_names(path, var)
        except Exception:
            pass
    return out


def emit_processing(t):
    L = []
    L.append("def nextpow2Min : Option (Nat × Nat) := " + ("none" if t["nextpow2Min"] is None else f"some ({t['nextpow2Min'][0]}, {t['nextpow2Min'][1]})"))
    L.append("def nextpow2Cmp : Option Nat := " + ("none" if t["nextpow2Cmp"] is None else f"some {t['nextpow2Cmp']}"))
    L.append("def nyquistGuard : Option ((Nat × Nat) × Nat) := " + ("none" if t["nyquistGuard"] is None else f"some ({lean_pair(t['nyquistGuard'][0])}, {t['nyquistGuard'][1]})"))
    L.append("def policyNames : Option (List String) := " + ("none" if t["policyNames"] is None else "some [" + ", ".join(f'"{x}"' for x in t["policyNames"]) + "]"))
    for key in ("combineRegister", "traditionalRegister", "processingMethods"):
        L.append(lean_str_pairs(key, t[key]))
    return L


EXTRACTORS.append((extract_processing, emit_processing))


def extract_settings(repo):
    """C15: per concrete settings class the entries of self.attrs with the kind of the default value in the signature
    (0 immutable, 1 list, 2 ndarray, 3 dict) and how the constructor chain stores the argument (0 alias `self.x = x`,
    1 shallow copy, 2 np.array(x), 3 deepcopy(x), 4 deepcopy(dict(x))); the dispatch chain of
    read_settings_object_from_file; the registered values of method_to_combine_horizontals."""
    out = dict(settingsTable=None, settingsDispatch=None, settingsTraditionalRegister=None)
    concrete = ["HvsrPreProcessingSettings", "PsdPreProcessingSettings", "PsdProcessingSettings",
                "HvsrTraditionalProcessingSettings", "HvsrTraditionalSingleAzimuthProcessingSettings",
                "HvsrTraditionalRotDppProcessingSettings", "HvsrAzimuthalProcessingSettings",
                "HvsrDiffuseFieldProcessingSettings"]

    def const_like(n):
        return isinstance(n, (ast.Constant, ast.Name)) or (isinstance(n, ast.UnaryOp) and isinstance(n.operand, ast.Constant))

    def dkind(n):
        if const_like(n):
            return 0
        if isinstance(n, ast.Tuple) and all(const_like(e) for e in n.elts):
            return 0
        if isinstance(n, (ast.List, ast.Tuple, ast.Set)):
            return 1
        if isinstance(n, ast.Dict) or (isinstance(n, ast.Call) and ast.unparse(n.func) == "dict"):
            return 3
        if isinstance(n, ast.Call) and ast.unparse(n.func).startswith(("np.", "numpy.")):
            return 2
        raise ValueError("default kind")

    def store_kind(expr):
        """(parameter name, store code) of the right-hand side of `self.x = ...`"""
        if isinstance(expr, ast.Name):
            return expr.id, 0
        if isinstance(expr, ast.Call):
            fn = ast.unparse(expr.func)
            if len(expr.args) == 1 and not expr.keywords:
                a = expr.args[0]
                if fn in ("deepcopy", "copy.deepcopy"):
                    if isinstance(a, ast.Name):
                        return a.id, 3
                    if isinstance(a, ast.Call) and ast.unparse(a.func) == "dict" and len(a.args) == 1 and isinstance(a.args[0], ast.Name) \
                            and not a.keywords:
                        return a.args[0].id, 4
                if isinstance(a, ast.Name):
                    if fn in ("np.array", "numpy.array"):
                        return a.id, 2
                    if fn in ("dict", "list", "copy", "copy.copy"):
                        return a.id, 1
                    if fn in ("np.asarray", "numpy.asarray", "np.asanyarray"):
                        return a.id, 0
            if not expr.args and not expr.keywords and isinstance(expr.func, ast.Attribute) and expr.func.attr == "copy" \
                    and isinstance(expr.func.value, ast.Name):
                return expr.func.value.id, 1
        raise ValueError("store kind")

    try:
        with open(os.path.join(repo, "hvsrpy", "settings.py")) as f:
            tree = ast.parse(f.read())
        classes = {n.name: n for n in tree.body if isinstance(n, ast.ClassDef)}

        def analyze(name):
            """-> (attrs in order, {attr: (own parameter or None, store code, default node)})"""
            cls = classes[name]
            init = [n for n in cls.body if isinstance(n, ast.FunctionDef) and n.name == "__init__"][0]
            args = init.args
            if args.vararg or args.kwarg or args.kwonlyargs or args.posonlyargs:
                raise ValueError("signature")
            params = [a.arg for a in args.args][1:]
            if len(args.defaults) != len(params):
                raise ValueError("defaults")
            defaults = dict(zip(params, args.defaults))
            attrs, info = [], {}
            for st in init.body:
                if isinstance(st, ast.Expr) and isinstance(st.value, ast.Constant):
                    continue
                src = ast.unparse(st)
                if isinstance(st, ast.Expr) and src.startswith("super().__init__("):
                    call = st.value
                    if call.args or len(cls.bases) != 1:
                        raise ValueError("super call")
                    battrs, binfo = analyze(ast.unparse(cls.bases[0]))
                    passed = {}
                    for kw in call.keywords:
                        if kw.arg is None or not isinstance(kw.value, ast.Name) or kw.value.id not in defaults:
                            raise ValueError("super keyword")
                        passed[kw.arg] = kw.value.id
                    for a in battrs:
                        bp, sk, dn = binfo[a]
                        if bp is not None and bp in passed:
                            info[a] = (passed[bp], sk, defaults[passed[bp]])
                        else:
                            info[a] = (None, sk, dn)
                    attrs += battrs
                elif isinstance(st, ast.Assign) and src.startswith("self.attrs = ") and isinstance(st.value, ast.List):
                    attrs += [e.value for e in st.value.elts]
                elif isinstance(st, ast.Expr) and src.startswith("self.attrs.extend(") and isinstance(st.value.args[0], ast.List):
                    attrs += [e.value for e in st.value.args[0].elts]
                elif isinstance(st, ast.Assign) and len(st.targets) == 1 and isinstance(st.targets[0], ast.Attribute) \
                        and ast.unparse(st.targets[0].value) == "self":
                    p, sk = store_kind(st.value)
                    if p not in defaults:
                        raise ValueError("source parameter")
                    info[st.targets[0].attr] = (p, sk, defaults[p])
                else:
                    raise ValueError("statement")
            return attrs, info

        table = []
        for cn in concrete:
            attrs, info = analyze(cn)
            if len(set(attrs)) != len(attrs):
                raise ValueError("duplicate attrs")
            rows = []
            for a in attrs:
                p, sk, dn = info[a]
                if p != a:      # every attribute is fed by the constructor parameter of the same name
                    raise ValueError("attribute/parameter name")
                rows.append((a, dkind(dn), sk))
            table.append((cn, rows))
        out["settingsTable"] = table
    except Exception:
        pass

    try:
        with open(os.path.join(repo, "hvsrpy", "object_io.py")) as f:
            fn = func_source(ast.parse(f.read()), "read_settings_object_from_file")

        def klass(body):
            if len(body) == 1 and isinstance(body[0], ast.Assign) and ast.unparse(body[0].targets[0]) == "settings_object" \
                    and isinstance(body[0].value, ast.Call) and not body[0].value.args and not body[0].value.keywords:
                return ast.unparse(body[0].value.func)
            return None

        def is_raise(body):
            return len(body) == 1 and isinstance(body[0], ast.Raise)

        def test_of(test):
            """attr_dict['k'] == 'v'  |  attr_dict['k'] in ('v1', 'v2') -> (k, [v..])"""
            if isinstance(test, ast.Compare) and len(test.ops) == 1 and isinstance(test.left, ast.Subscript) \
                    and ast.unparse(test.left.value) == "attr_dict" and isinstance(test.left.slice, ast.Constant):
                k = test.left.slice.value
                c = test.comparators[0]
                if isinstance(test.ops[0], ast.Eq) and isinstance(c, ast.Constant):
                    return k, [c.value]
                if isinstance(test.ops[0], ast.In) and isinstance(c, (ast.Tuple, ast.List)) and all(isinstance(e, ast.Constant) for e in c.elts):
                    return k, [e.value for e in c.elts]
            raise ValueError("test")

        def chain(node):
            """if/elif chain -> [(key, values, body)], else body"""
            rows = []
            while True:
                k, vs = test_of(node.test)
                rows.append((k, vs, node.body))
                if len(node.orelse) == 1 and isinstance(node.orelse[0], ast.If):
                    node = node.orelse[0]
                else:
                    return rows, node.orelse

        top = [n for n in fn.body if isinstance(n, ast.If)]
        if len(top) != 1:
            raise ValueError("top")
        node = top[0]
        groups = []
        while True:
            g = grab(ast.unparse(node.test), r"^'(\w+)' in attr_dict\.keys\(\)$")
            if g is None or len(node.body) != 1 or not isinstance(node.body[0], ast.If):
                raise ValueError("group")
            rows, els = chain(node.body[0])
            if not is_raise(els):
                raise ValueError("group else")
            rules = []
            for k, vs, body in rows:
                if k != g[0]:
                    raise ValueError("group key")
                c = klass(body)
                if c is not None:
                    rules += [(v, c, None) for v in vs]
                elif len(body) == 1 and isinstance(body[0], ast.If):
                    srows, sels = chain(body[0])
                    dflt = klass(sels)
                    if dflt is None or len({r[0] for r in srows}) != 1:
                        raise ValueError("sub chain")
                    alts = []
                    for k2, vs2, b2 in srows:
                        c2 = klass(b2)
                        if c2 is None:
                            raise ValueError("sub body")
                        alts += [(v2, c2) for v2 in vs2]
                    rules += [(v, dflt, (srows[0][0], alts)) for v in vs]
                else:
                    raise ValueError("rule body")
            groups.append((g[0], rules))
            if len(node.orelse) == 1 and isinstance(node.orelse[0], ast.If):
                node = node.orelse[0]
            elif is_raise(node.orelse):
                break
            else:
                raise ValueError("top else")
        out["settingsDispatch"] = groups
    except Exception:
        pass

    try:
        out["settingsTraditionalRegister"] = module_dict_of_names(os.path.join(repo, "hvsrpy", "processing.py"),
                                                                  "TRADITIONAL_PROCESSING_REGISTER")
    except Exception:
        pass
    return out


def emit_settings(t):
    L = []
    ty = "Option (List (String × List (String × Nat × Nat)))"
    if t["settingsTable"] is None:
        L.append(f"def settingsTable : {ty} := none")
    else:
        rows = ", ".join('("%s", [%s])' % (cn, ", ".join(f'("{a}", {d}, {s})' for a, d, s in ps)) for cn, ps in t["settingsTable"])
        L.append(f"def settingsTable : {ty} := some [{rows}]")
    ty = "Option (List (String × List (String × String × String × List (String × String))))"
    if t["settingsDispatch"] is None:
        L.append(f"def settingsDispatch : {ty} := none")
    else:
        def rule(v, c, sub):
            s = '"", []' if sub is None else '"%s", [%s]' % (sub[0], ", ".join(f'("{a}", "{b}")' for a, b in sub[1]))
            return f'("{v}", "{c}", {s})'
        rows = ", ".join('("%s", [%s])' % (k, ", ".join(rule(*r) for r in rules)) for k, rules in t["settingsDispatch"])
        L.append(f"def settingsDispatch : {ty} := some [{rows}]")
    L.append(lean_str_pairs("settingsTraditionalRegister", t["settingsTraditionalRegister"]))
    return L


EXTRACTORS.append((extract_settings, emit_settings))


def extract_timerej(repo):
    out = dict(staLtaOps=None, maxValueOp=None)
    try:
        with open(os.path.join(repo, "hvsrpy", "window_rejection.py")) as f:
            tree = ast.parse(f.read())
        src = {n.name: ast.unparse(n) for n in tree.body if isinstance(n, ast.FunctionDef)}
        g = grab(src["sta_lta_window_rejection"], r"np\.max\(sta_values / lta\) " + CMP + r" max_sta_lta_ratio or np\.min\(sta_values / lta\) " + CMP + r" min_sta_lta_ratio")
        if g:
            out["staLtaOps"] = (OPS[g[0]], OPS[g[1]])
        g = grab(src["maximum_value_window_rejection"], r"if maximum_value " + CMP + r" maximum_value_threshold")
        if g:
            out["maxValueOp"] = OPS[g[0]]
    except Exception:
        pass
    return out


def emit_timerej(t):
    return ["def staLtaOps : Option (Nat × Nat) := " + ("none" if t["staLtaOps"] is None else f"some ({t['staLtaOps'][0]}, {t['staLtaOps'][1]})"),
            "def maxValueOp : Option Nat := " + ("none" if t["maxValueOp"] is None else f"some {t['maxValueOp']}")]


EXTRACTORS.append((extract_timerej, emit_timerej))


def lean_string(x):
    return '"' + x.replace("\\", "\\\\").replace('"', '\\"') + '"'


def extract_objectio(repo):
    out = dict(azimuthLabelFormat=None, azimuthRegex=None)
    try:
        with open(os.path.join(repo, "hvsrpy", "object_io.py")) as f:
            src = f.read()
        g = re.search(r'f"(azimuth \{[^"]*)"', src)
        if g:
            out["azimuthLabelFormat"] = g.group(1)
    except Exception:
        pass
    try:
        with open(os.path.join(repo, "hvsrpy", "regex.py")) as f:
            tree = ast.parse(f.read())
        for node in tree.body:
            if isinstance(node, ast.Assign) and ast.unparse(node.targets[0]) == "azimuth_expr" and isinstance(node.value, ast.Constant):
                out["azimuthRegex"] = node.value.value
    except Exception:
        pass
    return out


def emit_objectio(t):
    return ["def azimuthLabelFormat : Option String := " + ("none" if t["azimuthLabelFormat"] is None else "some " + lean_string(t["azimuthLabelFormat"])),
            "def azimuthRegex : Option String := " + ("none" if t["azimuthRegex"] is None else "some " + lean_string(t["azimuthRegex"]))]


EXTRACTORS.append((extract_objectio, emit_objectio))


def extract(repo):
    tables = {}
    lines = ["/-! GENERATED by tools/extract_tables.py from the hvsrpy working tree -- do not edit. -/",
             "namespace HV.Generated"]
    for ex, em in EXTRACTORS:
        t = ex(repo)
        tables.update(t)
        lines += em(t)
    lines.append("end HV.Generated")
    return tables, "\n".join(lines) + "\n"


if __name__ == "__main__":
    import sys
    import json
    t, text = extract(sys.argv[1] if len(sys.argv) > 1 else "/repo")
    print(text)
    print(json.dumps({k: (v is not None) for k, v in t.items()}), file=sys.stderr)
