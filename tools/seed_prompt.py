"""Print the brief handed to one independent seeding sub-agent (round 6 and later).

usage: seed_prompt.py PROP_ID ROUND_DIR LETTER1 LETTER2 NEUTRAL_LETTER
The agent receives ONLY the property record and a scratch worktree (created by the caller:
git -C /repo worktree add --detach ROUND_DIR/PROP_ID HEAD) -- nothing from /verif.
"""
import json
import os
import sys

VERIF = os.path.dirname(os.path.dirname(os.path.abspath(__file__)))

TEMPLATE = """You are helping to evaluate a verification effort for the open-source Python library hvsrpy (horizontal-to-vertical spectral ratio processing of seismic recordings). Your job is to play the role of a developer who introduces a subtle regression.

Your own scratch git worktree of the library is at {wt} (a detached worktree of the repository; the package is the directory {wt}/hvsrpy, the tests are in {wt}/test). Work ONLY inside {wt}. Never read, list or write anything under /verif or /repo (not even to look), and do not run `git commit`, `git stash` or `git checkout <branch>`; `git diff`, `git apply`, `git checkout -- <paths>` inside {wt} are fine. Run Python as
  cd {wt} && NUMBA_CACHE_DIR={wt}/.numba_cache MPLBACKEND=Agg PYTHONPATH={wt} PYTHONDONTWRITEBYTECODE=1 /venv/bin/python ...
(no network; everything needed is installed in /venv).

THE PROPERTY (a behavioural guarantee users rely on; it must hold for every input / configuration / history it quantifies over):

{record}

WHAT TO PRODUCE, in the directory {wt}/_seed/ (create it):

1. TWO independent *breaking* changes, `patch{a}.diff` and `patch{b}.diff` (each made from a clean tree with `git diff -- hvsrpy > _seed/patchX.diff`, each applying to the clean tree on its own with `git apply`). Each change must
   * make hvsrpy violate the property above for some input / configuration / history,
   * keep the package importable and keep the existing test suite at its baseline: `cd {wt} && ... /venv/bin/python -m pytest -q -p no:cacheprovider --timeout=900 -n 4 test` gives `3 failed, 157 passed` on the unchanged tree (the three failures test_read_single_on_minishark, test_notebook_example_hvsr_cli, test_notebook_example_psd_and_self_noise are the baseline and must stay the only failures; a notebook test that fails only under -n can be re-run alone),
   * look like something a competent maintainer could plausibly write and a reviewer could plausibly accept (a refactoring with a slip, an optimisation, a "clean-up", a defensive check, a vectorisation, caching, a changed default handled at a second site ...), NOT a random operator flip, and
   * need something SPECIFIC to manifest, so that ordinary use and the obvious first test do not expose it: for instance a multi-step sequence of operations on one object (state left over from an earlier call), an unusual but legal input or argument value (boundary lengths, exact multiples, ties, zeros, negative or non-finite numbers, empty selections, one-element inputs, descending or non-uniform axes, integer or float32 arrays, lists vs arrays vs tuples, unusual but accepted spellings/aliases), a rarely used entry point or option combination, two cooperating sites that each look fine alone, a second call with the same settings object, an exception path, or an ordering/interleaving of files, azimuths or windows. Prefer ideas that differ from each other (different function, different mechanism). Avoid changes whose effect is a crash on every call or a change of every result.
   For each change also write `demo{a}.py` / `demo{b}.py`: a self-contained program (only hvsrpy, numpy, the standard library; synthetic data or files under {wt}/hvsrpy/test or {wt}/test/data if needed; it must insert {wt} at the front of sys.path itself) that checks the relevant sentence of the property on the input that exposes the change, prints `demoX: OK` and exits 0 on the unchanged tree, and prints `demoX: FAIL - <which sentence of the property is violated and how>` and exits 1 with the patch applied. The demo must judge the PROPERTY (as stated above), not merely detect that the code was edited, and must not depend on timing or on random seeds you do not fix.

2. ONE *neutral* change `patch{n}.diff`: a behaviour-preserving rewrite (30-120 changed lines) of the code this property is anchored in -- renamed locals, extracted helpers, loops restructured, equivalent numpy idioms, reordered independent statements, an if-chain turned into a table, and so on -- after which the property STILL HOLDS, both demos print OK, and the suite keeps its baseline. It should be a real refactoring that changes the shape of the code, not comments or whitespace. Results must stay the same (bit-identical where the property speaks of exact values; rounding-level differences below 1e-12 relative are acceptable only in floating-point curves).

3. `notes.md`: for each patch: what was changed, which sentence of the property breaks (or why it still holds, for the neutral one), exactly what is needed for the change to manifest, why the existing tests do not notice, and the commands you ran with their results (demo on clean tree, demo with patch, suite with patch).

Verify everything yourself before finishing: every patch applies to the clean tree, demos pass on the clean tree and fail with their own patch (and pass with the neutral patch), the suite keeps its baseline with every patch. Leave the worktree CLEAN at the end (`git checkout -- hvsrpy test`; `git status --short` shows only `_seed/` and caches). If after honest effort you cannot produce a second breaking change that satisfies all the conditions, deliver one and say so in notes.md rather than delivering a weak one.

Your final message: a short summary per patch (one paragraph each) — file/function touched, what it needs to manifest, and the verification results.
"""


FOCUS = {
    # optional extra paragraph appended to the brief of a round (argv[6]); it only steers WHERE to look, never what the checks contain
    "entry-points": "\nFOCUS OF THIS ROUND: look beyond the main function. Prefer changes in the less travelled parts of the code this property is anchored in -- alternate "
                    "constructors and classmethods, properties and setters, `__eq__`/`is_similar`, copy constructors, `__str__`/`__repr__`-adjacent helpers, default-argument handling, "
                    "option combinations that are rarely used together, error branches, the interplay of two public calls on one object, module-level state, and numerically special but legal "
                    "inputs (NaN, inf, empty or one-element arrays, float32 or integer arrays, negative zero, unsorted or duplicated axis values). At least one of your two breaking changes should "
                    "need a HISTORY (two or more calls) or an INTERPLAY of two arguments to manifest.\n",
    "cooperating-sites": "\nFOCUS OF THIS ROUND: changes that are only wrong in COMBINATION. Prefer (a) two edits at different sites (two functions, two modules, a producer and a consumer, a writer "
                         "and a reader, a default and the code that interprets it) that each preserve behaviour on their own but not together; (b) a change that is correct for the data shapes, containers and "
                         "dtypes ordinary use hands over (float64 ndarrays, ascending axes, equal lengths) and wrong for another legal one (lists, tuples, integer or float32 arrays, 0-d arrays, numpy scalars "
                         "vs Python floats, descending or duplicated axis values, unequal lengths where they are allowed, read-only arrays, views); (c) a change on an exception or early-return path that leaves "
                         "an object half updated and only shows in what the NEXT call does; (d) a change whose effect depends on the ORDER of otherwise independent calls, files, azimuths or windows. "
                         "At least one of your two breaking changes must be of kind (a) or (c).\n",
    "boundaries": "\nFOCUS OF THIS ROUND: semantic near-misses that only a boundary shows. Prefer changes of the kind: strict versus non-strict comparison at an exact tie; inclusive versus "
                  "exclusive end of a range or slice; first versus last occurrence among equal values; n versus n-1 (or n+1) in a count, a denominator or a length; rounding direction "
                  "(floor / round / truncate; half-to-even versus half-up) at exact halves; a sign or direction convention (clockwise versus counter-clockwise, +n versus -n); rows versus "
                  "columns for square inputs; degrees wrapped at 360 versus at 180; natural versus base-10 logarithm where both give the same answer for the values tests use; a default that "
                  "coincides with the tested value. Each change must be indistinguishable from the original on generic (random, non-tied, non-integer, non-square) inputs and wrong on the "
                  "boundary input -- which must be a legal input the property quantifies over. Say in notes.md exactly which boundary it is.\n",
    "faults": "\nFOCUS OF THIS ROUND: FAULTS and what they leave behind. Prefer changes that are invisible as long as every call succeeds and only show after something went wrong "
              "at a particular point: an exception raised half way through a loop over files, recordings, windows, azimuths or settings attributes (a refused input in the MIDDLE of a list, a missing key, "
              "an invalid argument detected late), an object or a module-level structure left half updated by such an exception, a resource or a temporary override (masks, settings, logging level, "
              "numpy error state, working directory, caches, memoised values) that is not restored on the error path, a retry after the failure, or the next ordinary call on the same object / same "
              "settings / in the same process after a failed one. Also welcome: a cache or memo keyed too coarsely, so that a second, different request is answered from the first. The failing scenario must "
              "still be one the property quantifies over (the property must speak about the state or result observed AFTER the fault, or about a later successful call).\n",
    "sizes": "\nFOCUS OF THIS ROUND: SIZES and SHAPES that the tests never reach. Prefer changes that are right for the sizes ordinary use and the tests hand over and wrong beyond a threshold or for a degenerate "
             "shape: more windows / azimuths / files / sensors / frequencies than some small number (a fast path below a threshold and a slow path above it, a chunk size, a buffer or block length, a "
             "pre-allocated array length, an integer dtype narrowed to int16/int32/float32 'to save memory'), exactly one or exactly two of something, an odd versus even count, a length that is or is not a "
             "power of two or a multiple of a block, records much longer or much shorter than a window, a window as long as the record, square versus non-square arrays, a vectorised formula that silently "
             "broadcasts when two lengths coincide. Each change must agree with the original on small generic cases and differ on the special size -- which must be a legal input the property quantifies over. "
             "Say in notes.md exactly which size or shape it is.\n",
}


def main():
    prop, rdir, a, b, n = sys.argv[1:6]
    rec = None
    with open(os.path.join(VERIF, "properties.jsonl")) as f:
        for line in f:
            p = json.loads(line)
            if p["id"] == prop:
                rec = p
    keep = {k: rec[k] for k in ("title", "statement", "quantifier", "why_tests_cant", "anchors")}
    keep["anchors"] = {k: v for k, v in keep["anchors"].items() if k != "hook_needed"}
    text = "title: %s\n\nstatement: %s\n\nquantified over: %s\n\nwhy the existing tests cannot settle it: %s\n\nwhere it lives in the code (line numbers are approximate):\n%s" % (
        keep["title"], keep["statement"], keep["quantifier"]["text"], keep["why_tests_cant"], json.dumps(keep["anchors"], indent=1))
    out = TEMPLATE.format(wt=os.path.join(rdir, prop), record=text, a=a, b=b, n=n)
    if len(sys.argv) > 6:
        out = out.replace("WHAT TO PRODUCE,", FOCUS[sys.argv[6]].strip("\n") + "\n\nWHAT TO PRODUCE,", 1)
    sys.stdout.write(out)


if __name__ == "__main__":
    main()
