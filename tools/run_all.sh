#!/bin/sh
# usage: tools/run_all.sh quick|thorough [seed]   -- setup_cmd, then every registered check once; prints one line per check (used with `vp run`)
cd "$(dirname "$0")/.." || exit 2
(cd lean && lake build HvsrVerif hvsrdrv drv_c07 drv_c10 drv_c14 drv_c15 drv_c19 drv_c20 drv_py) > /dev/null 2>&1 || { echo "setup failed"; exit 2; }
for i in $(seq -w 1 20); do
  s=$(date +%s)
  VERIF_SEED=${2:-20260929} ./check C$i --tier $1 > run_all_C$i.log 2>&1
  rc=$?
  echo "C$i rc=$rc wall=$(( $(date +%s) - s )) $(grep -c '^VIOLATION' run_all_C$i.log) $(tail -1 run_all_C$i.log)"
done
