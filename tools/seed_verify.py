"""Confirm a seeded change and run the registered checks against it.

usage: seed_verify.py SRC_DIR LETTER PROP_ID [--props C01,C03] [--skip-suite] [--neutral DEMO_LETTERS]
  --neutral IJ: the patch is a behaviour-preserving rewrite: the demos of the listed letters must PASS with it, the suite keeps its baseline,
  and the registered checks must stay silent (a VIOLATION would be a false alarm). Recorded with kind=neutral.
  SRC_DIR/_seed/patch<LETTER>.diff, demo<LETTER>.py, notes.md are taken from the seeding agent's worktree.
Steps (all in a fresh scratch worktree of /repo under /tmp, removed afterwards):
  1. demo passes on the unchanged code; 2. patch applies; 3. demo fails with the patch; 4. pinned suite keeps its baseline with the patch
  5. tools/selftest.py --patch ... --props ...  (checks run against a scratch copy, never /repo)
Writes /verif/seeded/<PROP_ID>-<LETTER>/{patch.diff,demo.py,meta.json}.
"""
import json
import os
import re
import shutil
import subprocess
import sys
import tempfile
import time

VERIF = os.path.dirname(os.path.dirname(os.path.abspath(__file__)))
BASE_FAIL = {"test_read_single_on_minishark", "test_notebook_example_hvsr_cli", "test_notebook_example_psd_and_self_noise"}


def sh(cmd, cwd=None, env=None, timeout=3600):
    p = subprocess.run(cmd, cwd=cwd, env=env, capture_output=True, text=True, timeout=timeout)
    return p.returncode, p.stdout + p.stderr


def main():
    src, letter, prop = sys.argv[1], sys.argv[2], sys.argv[3]
    props = prop
    skip_suite = "--skip-suite" in sys.argv
    neutral = sys.argv[sys.argv.index("--neutral") + 1] if "--neutral" in sys.argv else None
    if "--props" in sys.argv:
        props = sys.argv[sys.argv.index("--props") + 1]
    patch = os.path.join(src, "_seed", f"patch{letter}.diff")
    demo = os.path.join(src, "_seed", f"demo{(neutral or letter)[0]}.py")
    out = os.path.join(VERIF, "seeded", f"{prop}-{letter}")
    os.makedirs(out, exist_ok=True)
    meta = dict(property=prop, id=f"{prop}-{letter}", source="independent sub-agent given only the property text and a scratch worktree")
    scratch = tempfile.mkdtemp(prefix="hvsr_seed_", dir="/tmp")
    wt = os.path.join(scratch, "wt")
    try:
        sh(["git", "-C", "/repo", "worktree", "add", "--detach", "-q", wt, "HEAD"])
        env = dict(os.environ, PYTHONPATH=wt, NUMBA_CACHE_DIR=os.path.join(scratch, "numba"), MPLBACKEND="Agg", PYTHONDONTWRITEBYTECODE="1")
        os.makedirs(os.path.join(wt, "_seed"), exist_ok=True)
        with open(demo) as f:
            demo_src = f.read().replace(os.path.abspath(src).rstrip("/"), wt)     # the demos pin the seeding agent's worktree path
        with open(os.path.join(wt, "_seed", "demo.py"), "w") as f:
            f.write(demo_src)
        rc0, o0 = sh(["/venv/bin/python", "_seed/demo.py"], cwd=wt, env=env)
        meta["demo_unchanged_exit"] = rc0
        rca, oa = sh(["git", "-C", wt, "apply", patch])
        meta["patch_applies"] = rca == 0
        rc1, o1 = sh(["/venv/bin/python", "_seed/demo.py"], cwd=wt, env=env)
        meta["demo_with_patch_exit"] = rc1
        meta["demo_with_patch_tail"] = o1[-400:]
        if neutral:
            meta["kind"] = "neutral"
            meta["other_demos_with_patch"] = {}
            for L in neutral[1:]:
                with open(os.path.join(src, "_seed", f"demo{L}.py")) as f:
                    dsrc = f.read().replace(os.path.abspath(src).rstrip("/"), wt)
                with open(os.path.join(wt, "_seed", f"demo{L}.py"), "w") as f:
                    f.write(dsrc)
                rcx, ox = sh(["/venv/bin/python", f"_seed/demo{L}.py"], cwd=wt, env=env)
                meta["other_demos_with_patch"][L] = rcx
        if not skip_suite:
            t0 = time.time()
            rcs, os_ = sh(["/venv/bin/python", "-m", "pytest", "-q", "-p", "no:cacheprovider", "--timeout=900", "-n", "6", "test"], cwd=wt, env=env)
            failed = set(re.findall(r"FAILED \S+::(\w+)", os_))
            if failed - BASE_FAIL:   # notebook tests can flake in parallel: re-run those alone
                again = sorted(failed - BASE_FAIL)
                rcs2, os2 = sh(["/venv/bin/python", "-m", "pytest", "-q", "-p", "no:cacheprovider", "--timeout=900", "test", "-k", " or ".join(again)], cwd=wt, env=env)
                failed = (failed & BASE_FAIL) | set(re.findall(r"FAILED \S+::(\w+)", os2))
            m = re.search(r"(\d+) passed", os_)
            meta["suite_with_patch"] = dict(summary=(os_.strip().splitlines() or [""])[-1], unexpected_failures=sorted(failed - BASE_FAIL), wall_s=round(time.time() - t0))
        meta["confirmed"] = bool(rc0 == 0 and rca == 0 and rc1 != 0 and (skip_suite or not meta["suite_with_patch"]["unexpected_failures"]))
        if neutral:
            meta["confirmed"] = bool(rc0 == 0 and rca == 0 and rc1 == 0 and all(v == 0 for v in meta["other_demos_with_patch"].values())
                                     and (skip_suite or not meta["suite_with_patch"]["unexpected_failures"]))
    finally:
        sh(["git", "-C", "/repo", "worktree", "remove", "--force", wt])
        shutil.rmtree(scratch, ignore_errors=True)
    rc, o = sh([sys.executable, os.path.join(VERIF, "tools", "selftest.py"), "--patch", patch, "--props", props], cwd=VERIF)
    meta["checks"] = [l for l in o.splitlines() if l.split(" ")[0] in ("CAUGHT", "MISSED", "ERROR", "PATCH-FAILED")]
    meta["caught"] = any(l.startswith("CAUGHT") for l in meta["checks"])
    if neutral:
        meta["false_alarm"] = meta.pop("caught") or any(l.startswith("ERROR") for l in meta["checks"])
    shutil.copy(patch, os.path.join(out, "patch.diff"))
    shutil.copy(demo, os.path.join(out, "demo.py"))
    notes = os.path.join(src, "_seed", "notes.md")
    if os.path.exists(notes):
        shutil.copy(notes, os.path.join(out, "notes.md"))
    meta["note"] = "demo.py is stored as written by the seeding agent: it pins that agent's worktree path (%s); replace it by your own worktree" % os.path.abspath(src)
    meta["ran"] = ["demo on unchanged worktree", "git apply patch", "demo with patch", "pinned suite with patch (-n 6; unexpected failures re-run serially)",
                   "tools/selftest.py --patch patch.diff --props " + props]
    json.dump(meta, open(os.path.join(out, "meta.json"), "w"), indent=1)
    print(json.dumps({k: meta.get(k) for k in ("id", "confirmed", "caught", "false_alarm", "checks", "demo_unchanged_exit", "demo_with_patch_exit")}, indent=0))


if __name__ == "__main__":
    main()
