#!/bin/sh
# runs the calibration rewrites of seeded/translator/ through tools/trypatch.sh and compares with the expectation
cd "$(dirname "$0")/.." || exit 2
rc=0
run() { # name modules expected(OK|FAIL)
  out=$(tools/trypatch.sh seeded/translator/$1.diff $2 2>&1)
  if [ "$3" = OK ]; then echo "$out" | grep -q '^FAIL' && { echo "UNEXPECTED-FAIL $1"; echo "$out" | head -20; rc=1; } || echo "ok   $1 (harmless: all bridges prove)"
  else echo "$out" | grep -q '^FAIL' && echo "ok   $1 (harmful: a bridge fails)" || { echo "UNEXPECTED-PASS $1"; rc=1; }; fi
}
run h1 "Bridge.PyCombine Bridge.PyAzimuth" OK
run h2 "Bridge.PyWindows Bridge.PySesame" OK
run h4 "Bridge.PyFdwra" OK
run h5 "Bridge.PySesame" OK
run u1 "Bridge.PyCombine" OK
run b1 "Bridge.PyCombine" FAIL
run b2 "Bridge.PyWindows" FAIL
run b3 "Bridge.PySesame" FAIL
run b4 "Bridge.PyFdwra" FAIL
run b5 "Bridge.PySesame" FAIL
run b6 "Bridge.PySesame" FAIL
exit $rc
