import sys, importlib, json; sys.path.insert(0,'/verif/harness')
import common
mod=importlib.import_module(sys.argv[1].lower())
ctx=common.Ctx(sys.argv[1],"quick",int(sys.argv[2]) if len(sys.argv)>2 else 1)
mod.run(ctx)
print(ctx.evaluations, len(ctx.nontrivial), ctx.dist, ctx.near_tie_skipped, ctx.supporting)
for v in ctx.violations[:5]:
    print(json.dumps(v,default=str)[:2500])
